"""Loader for the skamir fact file: bodies (MIR), constants, ADTs, impls.

Everything downstream works on these objects; nothing reads /repo's source text.
"""
import json
import re


class AnchorLost(Exception):
    """An anchor (function, field, callee, shape) the rule depends on was not
    found.  Checks convert this into a VIOLATION kind=anchor-lost (fail closed)."""


def _strip_generics(path):
    # 'a::B::<'a, IntT>::f' -> 'a::B::f'
    out = []
    depth = 0
    i = 0
    while i < len(path):
        c = path[i]
        if c == '<':
            # keep leading '<T as Trait>' qualified paths and '<impl ...>' segments intact
            if (i == 0 or path.startswith('<impl ', i)) and depth == 0:
                depth_q = 1
                j = i + 1
                while j < len(path) and depth_q:
                    if path[j] == '<':
                        depth_q += 1
                    elif path[j] == '>':
                        depth_q -= 1
                    j += 1
                out.append(path[i:j])
                i = j
                continue
            depth += 1
            # drop preceding '::' of turbofish
            if len(out) >= 2 and out[-1] == ':' and out[-2] == ':':
                out.pop(); out.pop()
        elif c == '>':
            depth -= 1
        elif depth == 0:
            out.append(c)
        i += 1
    r = ''.join(out)
    if "'" in r:
        r = re.sub(r"'[A-Za-z_][A-Za-z0-9_]*(, )?", '', r)
        r = r.replace('<>', '').replace('&mut  ', '&mut ').replace('& mut ', '&mut ').replace('& ', '&')
    return r


class Place:
    __slots__ = ('local', 'proj')

    def __init__(self, j):
        self.local = j['local']
        self.proj = j['proj']

    def is_local(self):
        return not self.proj

    def key(self):
        return (self.local, tuple(_proj_key(p) for p in self.proj))

    def __repr__(self):
        s = '_%d' % self.local
        for p in self.proj:
            k = p['k']
            if k == 'deref':
                s = '(*%s)' % s
            elif k == 'field':
                s = '%s.%d' % (s, p['i'])
            elif k == 'index':
                s = '%s[_%d]' % (s, p['local'])
            elif k == 'downcast':
                s = '(%s as %s)' % (s, p.get('name') or p['variant'])
            elif k == 'constidx':
                s = '%s[%s%d]' % (s, '-' if p['from_end'] else '', p['offset'])
            elif k == 'subslice':
                s = '%s[%d..%s%d]' % (s, p['from'], '-' if p['from_end'] else '', p['to'])
            else:
                s = '%s.<%s>' % (s, k)
        return s


def _proj_key(p):
    k = p['k']
    if k == 'field':
        return ('field', p['i'])
    if k == 'index':
        return ('index', p['local'])
    if k == 'downcast':
        return ('downcast', p['variant'])
    if k == 'deref':
        return ('deref',)
    return (k, json.dumps(p, sort_keys=True))


class Operand:
    __slots__ = ('k', 'place', 'j')

    def __init__(self, j):
        self.k = j['k']
        self.j = j
        self.place = Place(j['place']) if self.k in ('copy', 'move') else None

    def is_const(self):
        return self.k == 'const'

    def const_int(self):
        """unsigned integer value of a scalar constant, else None"""
        if self.k == 'const' and 'bits' in self.j:
            return int(self.j['bits'])
        return None

    def const_size(self):
        return self.j.get('size')

    def ty(self):
        return self.j.get('ty')

    def fn(self):
        return self.j.get('fn')

    def __repr__(self):
        if self.k in ('copy', 'move'):
            return ('move ' if self.k == 'move' else '') + repr(self.place)
        if self.k == 'const':
            j = self.j
            if 'fn' in j:
                return 'fn(%s)' % j['fn']
            if 'bits' in j:
                return 'const %s_%s' % (j['bits'], j['ty'])
            if 'str' in j:
                return 'const %r' % j['str']
            if 'def' in j:
                if 'promoted' in j:
                    return 'promoted[%s#%d]' % (j['def'], j['promoted'])
                return 'const {%s}' % j['def']
            if 'zst' in j:
                return 'const <%s>' % j['ty']
            return 'const ?:%s' % j['ty']
        return '<%s>' % self.j.get('dbg', self.k)


class Rvalue:
    __slots__ = ('k', 'j', 'ops', 'place', 'op')

    def __init__(self, j):
        self.k = j['k']
        self.j = j
        self.ops = []
        self.place = None
        self.op = None
        if self.k in ('use', 'repeat', 'cast'):
            self.ops = [Operand(j['op'])]
        elif self.k == 'binop':
            self.ops = [Operand(j['l']), Operand(j['r'])]
            self.op = j['op']
        elif self.k == 'unop':
            self.ops = [Operand(j['x'])]
            self.op = j['op']
        elif self.k == 'aggregate':
            self.ops = [Operand(o) for o in j['ops']]
        elif self.k in ('ref', 'rawptr', 'discr', 'copyforderef'):
            self.place = Place(j['place'])

    def __repr__(self):
        k = self.k
        if k == 'use':
            return repr(self.ops[0])
        if k == 'binop':
            return '%s(%r, %r)' % (self.op, self.ops[0], self.ops[1])
        if k == 'unop':
            return '%s(%r)' % (self.op, self.ops[0])
        if k == 'cast':
            return '%r as %s (%s)' % (self.ops[0], self.j['ty'], self.j['kind'])
        if k == 'ref':
            return '&%s%r' % ('mut ' if self.j['bk'] == 'mut' else '', self.place)
        if k == 'rawptr':
            return '&raw %r' % self.place
        if k == 'discr':
            return 'discriminant(%r)' % self.place
        if k == 'copyforderef':
            return 'deref_copy %r' % self.place
        if k == 'aggregate':
            kd = self.j['kind']
            if kd['k'] == 'adt':
                nm = '%s::%s' % (kd['adt'], kd['vname'])
            elif kd['k'] == 'closure':
                nm = 'closure %s' % kd['def']
            else:
                nm = kd['k']
            return '%s(%s)' % (nm, ', '.join(map(repr, self.ops)))
        if k == 'repeat':
            return '[%r; %s]' % (self.ops[0], self.j['count'])
        return '<%s>' % self.j.get('dbg', k)


class Stmt:
    __slots__ = ('k', 'place', 'rv', 'span', 'exp', 'j')

    def __init__(self, j):
        self.k = j['k']
        self.j = j
        self.place = Place(j['place']) if 'place' in j else None
        self.rv = Rvalue(j['rv']) if 'rv' in j else None
        self.span = j['span']['s']
        self.exp = j['span']['exp']

    def __repr__(self):
        if self.k == 'assign':
            return '%r = %r' % (self.place, self.rv)
        if self.k == 'setdiscr':
            return 'discriminant(%r) = %d' % (self.place, self.j['variant'])
        return '<%s %s>' % (self.k, self.j.get('dbg', ''))


class Callee:
    __slots__ = ('j', 'defp', 'resolved', 'full', 'trait', 'gargs', 'krate')

    def __init__(self, j):
        self.j = j
        self.defp = j.get('def')
        self.resolved = j.get('resolved', self.defp)
        self.full = j.get('full')
        self.trait = j.get('trait')
        self.gargs = j.get('gargs', [])
        self.krate = j.get('krate')

    @property
    def name(self):
        """resolved def path with generics stripped (stable key for matching)"""
        return _strip_generics(self.resolved) if self.resolved else None

    @property
    def defname(self):
        return _strip_generics(self.defp) if self.defp else None

    def is_indirect(self):
        return 'indirect' in self.j

    def __repr__(self):
        if self.is_indirect():
            return 'indirect(%r)' % Operand(self.j['indirect'])
        if self.resolved and self.resolved != self.defp:
            return '%s [-> %s]' % (self.full or self.defp, self.resolved)
        return self.full or self.defp


class Term:
    __slots__ = ('k', 'j', 'span', 'exp', 'callee', 'args', 'dest', 'target', 'discr',
                 'targets', 'otherwise', 'place', 'cond', 'expected', 'msg', 'msg_ops')

    def __init__(self, j):
        self.k = j['k']
        self.j = j
        self.span = j['span']['s']
        self.exp = j['span']['exp']
        self.callee = None
        self.args = []
        self.dest = None
        self.target = j.get('target')
        self.discr = None
        self.targets = []
        self.otherwise = None
        self.place = None
        self.cond = None
        self.expected = None
        self.msg = None
        self.msg_ops = []
        if self.k == 'call':
            self.callee = Callee(j['callee'])
            self.args = [Operand(a) for a in j['args']]
            self.dest = Place(j['dest'])
        elif self.k == 'switch':
            self.discr = Operand(j['discr'])
            self.targets = [(int(v), t) for v, t in j['targets']]
            self.otherwise = j['otherwise']
        elif self.k == 'drop':
            self.place = Place(j['place'])
        elif self.k == 'assert':
            self.cond = Operand(j['cond'])
            self.expected = j['expected']
            self.msg = j['msg']
            self.msg_ops = [Operand(o) for o in j['msg_ops']]

    def succs(self):
        k = self.k
        if k in ('goto', 'drop', 'assert'):
            return [self.target]
        if k == 'call':
            return [self.target] if self.target is not None else []
        if k == 'switch':
            return [t for _, t in self.targets] + [self.otherwise]
        return []

    def __repr__(self):
        k = self.k
        if k == 'call':
            return '%r = %r(%s) -> %s' % (self.dest, self.callee, ', '.join(map(repr, self.args)),
                                         'bb%s' % self.target if self.target is not None else '!')
        if k == 'switch':
            return 'switchInt(%r) -> [%s, otherwise: bb%d]' % (
                self.discr, ', '.join('%d: bb%d' % vt for vt in self.targets), self.otherwise)
        if k == 'goto':
            return 'goto -> bb%d' % self.target
        if k == 'drop':
            return 'drop(%r) -> bb%d' % (self.place, self.target)
        if k == 'assert':
            return 'assert(%s%r, %s %s) -> bb%d' % ('' if self.expected else '!', self.cond, self.msg,
                                                   self.msg_ops, self.target)
        if k == 'other':
            return '<%s>' % self.j.get('dbg')
        return k


class Block:
    __slots__ = ('idx', 'stmts', 'term', 'cleanup')

    def __init__(self, idx, j):
        self.idx = idx
        self.stmts = [Stmt(s) for s in j['stmts']]
        self.term = Term(j['term'])
        self.cleanup = j['cleanup']


class Body:
    def __init__(self, j):
        self.j = j
        self.path = j['path']
        self.name = _strip_generics(j['path'])
        self.kind = j['kind']
        self.span = j['span']
        self.arg_count = j['arg_count']
        self.locals = j['locals']
        self.parent = j.get('parent')
        self.generics = j.get('generics', [])
        self.impl_self = j.get('impl_self')
        self.impl_trait = j.get('impl_trait')
        self.upvar_tys = j.get('upvar_tys')
        self.captures = j.get('captures')
        self.blocks = [Block(i, b) for i, b in enumerate(j['blocks'])]
        # debug names: local -> name (only whole-local entries), and name -> place
        self.local_names = {}
        self.name_places = {}
        for d in j['debug']:
            v = d['value']
            if 'local' in v:
                pl = Place(v)
                self.name_places.setdefault(d['name'], []).append(pl)
                if not pl.proj:
                    self.local_names.setdefault(pl.local, d['name'])
        self.inlined = []          # names of helper functions spliced into this body (inline_helpers)
        self._preds = None
        self._dom = None
        self._pdom = None
        self._reach = None

    # ---------------------------------------------------------- basic queries
    def file(self):
        return self.span.split(':')[0]

    def line(self):
        return int(self.span.split(':')[1])

    def local_ty(self, l):
        return self.locals[l]['ty']

    def local_named(self, name):
        """the (unique) whole local carrying this source name"""
        c = [p.local for p in self.name_places.get(name, []) if not p.proj]
        if len(c) != 1:
            raise AnchorLost('%s: local named %r not unique/found (%d)' % (self.name, name, len(c)))
        return c[0]

    def locals_named(self, name):
        return [p.local for p in self.name_places.get(name, []) if not p.proj]

    def live_blocks(self):
        """blocks reachable from bb0 along non-unwind edges (cleanup blocks excluded)"""
        if self._reach is None:
            seen = set()
            st = [0]
            while st:
                b = st.pop()
                if b in seen:
                    continue
                seen.add(b)
                st.extend(self.blocks[b].term.succs())
            self._reach = seen
        return self._reach

    def succs(self, b):
        return self.blocks[b].term.succs()

    def preds(self):
        if self._preds is None:
            p = {b: [] for b in range(len(self.blocks))}
            for b in self.live_blocks():
                for s in self.succs(b):
                    p[s].append(b)
            self._preds = p
        return self._preds

    def calls(self):
        """[(bb, Term)] for every call terminator in live blocks, in block order"""
        return [(b.idx, b.term) for b in self.blocks if b.idx in self.live_blocks() and b.term.k == 'call']

    def calls_to(self, pred):
        """calls whose resolved/def name satisfies pred (callable or substring)"""
        out = []
        for bb, t in self.calls():
            n = t.callee.name or ''
            d = t.callee.defname or ''
            ok = pred(t.callee) if callable(pred) else (pred in n or pred in d)
            if ok:
                out.append((bb, t))
        return out

    def return_blocks(self):
        return [b.idx for b in self.blocks if b.idx in self.live_blocks() and b.term.k == 'return']

    def diverging_blocks(self):
        """live blocks that end the function without returning (panic calls, unreachable)"""
        out = []
        for b in self.blocks:
            if b.idx not in self.live_blocks():
                continue
            t = b.term
            if t.k in ('unreachable', 'resume', 'abort') or (t.k == 'call' and t.target is None):
                out.append(b.idx)
        return out

    # ---------------------------------------------------------- dominators
    def dominators(self):
        """dom[b] = set of blocks dominating b (including b); live blocks only"""
        if self._dom is None:
            self._dom = _dominators(sorted(self.live_blocks()), 0, self.preds())
        return self._dom

    def postdominators(self, exits=None):
        """pdom[b] = set of blocks post-dominating b w.r.t. normal return (virtual exit = -1).
        Diverging ends are NOT exits: a block post-dominates b if every path from b that
        *returns* passes through it."""
        key = tuple(sorted(exits)) if exits is not None else None
        if self._pdom is None:
            self._pdom = {}
        if key not in self._pdom:
            live = self.live_blocks()
            ex = set(self.return_blocks()) if exits is None else set(exits)
            # reverse graph restricted to blocks that can reach an exit
            rsucc = {b: [] for b in live}
            rsucc[-1] = list(ex)
            rpred = {b: [] for b in live}
            rpred[-1] = []
            for b in live:
                for s in self.succs(b):
                    rsucc.setdefault(s, []).append(b)   # reversed edge s -> b
                    rpred[b].append(s)
            for e in ex:
                rpred[e].append(-1)
            # nodes reachable from -1 in reversed graph
            seen = set()
            st = [-1]
            while st:
                n = st.pop()
                if n in seen:
                    continue
                seen.add(n)
                st.extend(rsucc.get(n, []))
            nodes = sorted(seen)
            preds = {n: [p for p in rpred[n] if p in seen] for n in nodes}
            self._pdom[key] = _dominators(nodes, -1, preds)
        return self._pdom[key]

    def dominates(self, a, b):
        return a in self.dominators().get(b, ())

    def reachable_from(self, b, avoiding=()):
        seen = set()
        st = [b]
        av = set(avoiding)
        while st:
            n = st.pop()
            if n in seen or n in av:
                continue
            seen.add(n)
            st.extend(self.succs(n))
        return seen

    def in_cycle(self, b):
        for s in self.succs(b):
            if b in self.reachable_from(s):
                return True
        return False

    # ---------------------------------------------------------- defs / uses
    def defs_of(self, local):
        """[(bb, idx|'term', Stmt|Term)] assigning whole local `local` (incl. call dests)"""
        out = []
        for b in self.blocks:
            if b.idx not in self.live_blocks():
                continue
            for i, s in enumerate(b.stmts):
                if s.k == 'assign' and s.place.local == local and not s.place.proj:
                    out.append((b.idx, i, s))
            t = b.term
            if t.k == 'call' and t.dest.local == local and not t.dest.proj:
                out.append((b.idx, 'term', t))
        return out

    def pp(self):
        lines = ['fn %s  [%s] %s' % (self.path, self.kind, self.span)]
        for i, l in enumerate(self.locals):
            nm = self.local_names.get(i)
            lines.append('  let _%d: %s%s' % (i, l['ty'], ('  // ' + nm) if nm else ''))
        for b in self.blocks:
            if b.idx not in self.live_blocks():
                continue
            lines.append('  bb%d:' % b.idx)
            for s in b.stmts:
                lines.append('    %r    // %s' % (s, s.span.split(':', 1)[1]))
            lines.append('    %r    // %s' % (b.term, b.term.span.split(':', 1)[1]))
        return '\n'.join(lines)


def _dominators(nodes, entry, preds):
    dom = {n: set(nodes) for n in nodes}
    dom[entry] = {entry}
    changed = True
    # iterate in (rough) order; sizes here are tiny
    while changed:
        changed = False
        for n in nodes:
            if n == entry:
                continue
            ps = [p for p in preds.get(n, []) if p in dom]
            if not ps:
                new = {n}
            else:
                new = set.intersection(*(dom[p] for p in ps)) | {n}
            if new != dom[n]:
                dom[n] = new
                changed = True
    return dom


class Facts:
    def __init__(self, path):
        with open(path) as f:
            self.j = json.load(f)
        self.bodies = {}
        self.by_name = {}
        for bj in self.j['bodies']:
            b = Body(bj)
            self.bodies[b.path] = b
            self.by_name.setdefault(b.name, []).append(b)
        self.consts = {}
        for c in self.j['consts']:
            self.consts.setdefault(c['path'], c)
        self.adts = {a['path']: a for a in self.j['adts']}
        self.impls = self.j['impls']
        self.manifest = self.j['manifest']
        self.unsafe_fns = self.j['unsafe_fns']

    def fn(self, name):
        """body by generics-stripped path, e.g. 'ska_dict::split_kmer::SplitKmer::build'
        or '<u64 as ska_dict::bit_encoding::UInt>::rev_comp'"""
        c = self.by_name.get(name)
        if not c:
            # tolerate lifetime args in qualified paths: '<u64 as X<'_>>::f'
            c = [b for n, bs in self.by_name.items() for b in bs if _norm_q(n) == _norm_q(name)]
        if len(c) != 1:
            raise AnchorLost('function %r: %d bodies found' % (name, len(c or [])))
        return c[0]

    def has_fn(self, name):
        try:
            self.fn(name)
            return True
        except AnchorLost:
            return False

    def closures_of(self, parent_name):
        return sorted([b for b in self.bodies.values() if b.kind == 'Closure' and b.parent and
                       _strip_generics(b.parent) == parent_name], key=lambda b: b.path)

    def promoted(self, parent_path, idx):
        return self.bodies.get('%s::{promoted#%d}' % (parent_path, idx))

    def const_bytes(self, path):
        c = self.consts.get(path)
        if c is None:
            raise AnchorLost('const %r not found' % path)
        if 'hex' in c:
            return bytes.fromhex(c['hex'])
        if 'bits' in c:
            return int(c['bits']).to_bytes(int(c['size']), 'little')
        raise AnchorLost('const %r has no evaluated bytes' % path)

    def const_int(self, path):
        c = self.consts.get(path)
        if c is None or 'bits' not in c:
            raise AnchorLost('const %r not found/scalar' % path)
        return int(c['bits'])

    def adt(self, path):
        a = self.adts.get(path)
        if a is None:
            raise AnchorLost('ADT %r not found' % path)
        return a

    def field_index(self, adt_path, field, variant=0):
        a = self.adt(adt_path)
        for i, f in enumerate(a['variants'][variant]['fields']):
            if f['name'] == field:
                return i
        raise AnchorLost('field %s.%s not found' % (adt_path, field))

    def variant_index(self, adt_path, vname):
        a = self.adt(adt_path)
        for i, v in enumerate(a['variants']):
            if v['name'] == vname:
                return i
        raise AnchorLost('variant %s::%s not found' % (adt_path, vname))

    def trait_impl_method(self, trait, self_ty, method):
        """impl item path for <self_ty as trait>::method, or None (default method)"""
        for i in self.impls:
            if i['trait'] == trait and i['self_ty'] == self_ty:
                for m in i['methods']:
                    if m['trait_item'].endswith('::' + method):
                        return m['impl_item']
        return None


def _norm_q(n):
    return re.sub(r"<'[a-z_]+>", '', n)


# ---------------------------------------------------------------------------------- helper inlining
def _shift(x, dl, db, top=True):
    """deep copy of a MIR JSON node with every local shifted by dl (block refs are handled by the caller)"""
    if isinstance(x, dict):
        out = {}
        for k, v in x.items():
            if k == 'local' and isinstance(v, int):
                out[k] = v + dl
            else:
                out[k] = _shift(v, dl, db, False)
        return out
    if isinstance(x, list):
        return [_shift(v, dl, db, False) for v in x]
    return x


def _shift_term(t, dl, db):
    t = _shift(t, dl, db)
    if t.get('target') is not None:
        t['target'] += db
    if 'targets' in t:
        t['targets'] = [[v, b + db] for v, b in t['targets']]
    if 'otherwise' in t and t['otherwise'] is not None:
        t['otherwise'] += db
    return t


def inline_helpers(facts, body, want, depth=3):
    """`body` with every call to a crate-local function for which want(callee_body) holds spliced in (MIR inlining on
    the fact level; recursion bounded by `depth`).  Lets a rule written for a function keep seeing the anchors when they
    are moved into a private helper.  Returns `body` itself when nothing is inlined."""
    cur = body
    for _ in range(depth):
        j = cur.j
        todo = []
        for bb, t in cur.calls():
            n = t.callee.name
            if not n or t.callee.is_indirect():
                continue
            try:
                cb = facts.fn(n)
            except AnchorLost:
                continue
            if cb.kind == 'Closure' or cb.path == body.path or t.target is None:
                continue
            if want(cb):
                todo.append((bb, t, cb))
        if not todo:
            return cur
        nj = dict(j)
        nj['locals'] = list(j['locals'])
        nj['debug'] = list(j['debug'])
        nj['blocks'] = [dict(b) for b in j['blocks']]
        ncaller = len(nj['blocks'])
        spliced = {}
        for bb, t, cb in todo:
            dl = len(nj['locals'])
            db = len(nj['blocks'])
            nj['locals'].extend(cb.j['locals'])
            have = {d['name'] for d in nj['debug']}
            for d in cb.j['debug']:
                if 'local' in d['value']:
                    d2 = _shift(d, dl, db)
                    d2.pop('arg', None)
                    if d2['name'] in have:
                        d2['name'] = '%s@%s' % (d2['name'], cb.name.split('::')[-1])
                    nj['debug'].append(d2)
            blk = nj['blocks'][bb]
            tj = blk['term']
            stmts = list(blk['stmts'])
            for i, a in enumerate(tj['args']):
                stmts.append({'k': 'assign', 'place': {'local': dl + 1 + i, 'proj': []}, 'rv': {'k': 'use', 'op': a}, 'span': tj['span']})
            nj['blocks'][bb] = {'stmts': stmts, 'term': {'k': 'goto', 'target': db, 'span': tj['span']}, 'cleanup': blk['cleanup']}
            for cblk in cb.j['blocks']:
                st = [_shift(s, dl, db) for s in cblk['stmts']]
                ct = cblk['term']
                if ct['k'] == 'return':
                    st.append({'k': 'assign', 'place': tj['dest'], 'rv': {'k': 'use', 'op': {'k': 'move', 'place': {'local': dl, 'proj': []}}}, 'span': ct['span']})
                    nt = {'k': 'goto', 'target': tj['target'], 'span': ct['span']}
                else:
                    nt = _shift_term(ct, dl, db)
                nj['blocks'].append({'stmts': st, 'term': nt, 'cleanup': cblk['cleanup']})
            spliced.setdefault(bb, []).append((db, len(nj['blocks'])))
        # renumber: the spliced blocks follow their call site, so that block order keeps tracking source order
        order = []
        for i in range(ncaller):
            order.append(i)
            for lo, hi in spliced.get(i, []):
                order.extend(range(lo, hi))
        remap = {o: n for n, o in enumerate(order)}
        blocks = []
        for o in order:
            blk = nj['blocks'][o]
            tj = dict(blk['term'])
            if tj.get('target') is not None:
                tj['target'] = remap[tj['target']]
            if 'targets' in tj:
                tj['targets'] = [[v, remap[b]] for v, b in tj['targets']]
            if tj.get('otherwise') is not None:
                tj['otherwise'] = remap[tj['otherwise']]
            blocks.append({'stmts': blk['stmts'], 'term': tj, 'cleanup': blk['cleanup']})
        nj['blocks'] = blocks
        prev = getattr(cur, 'inlined', [])
        cur = Body(nj)
        cur.inlined = prev + [cb.name for _, _, cb in todo]
    return cur


def reaches_call(facts, body, pred, depth=3, _seen=None):
    """does `body` (transitively through crate-local calls, bounded) contain a call whose Callee satisfies pred?"""
    _seen = _seen or set()
    if body.path in _seen:
        return False
    _seen.add(body.path)
    for bb, t in body.calls():
        if pred(t.callee):
            return True
    if depth > 0:
        for bb, t in body.calls():
            n = t.callee.name
            if n and facts.by_name.get(n) and len(facts.by_name[n]) == 1:
                if reaches_call(facts, facts.by_name[n][0], pred, depth - 1, _seen):
                    return True
    return False


def fn_with_helpers(facts, name, anchor_pred, keep=()):
    """facts.fn(name) with private helpers that wrap anchor calls inlined.  A helper is any crate-local, non-public-API
    callee that is not itself an anchor (anchor_pred on its own name is false), is not in `keep`, and transitively
    contains an anchor call."""
    b = facts.fn(name)

    class _C:                      # minimal Callee-like view of a body for anchor_pred
        def __init__(self, body):
            self.name = body.name
            self.defname = body.name
            self.full = body.path
            self.resolved = body.path

    def want(cb):
        if cb.name in keep or anchor_pred(_C(cb)):
            return False
        return reaches_call(facts, cb, anchor_pred)
    return inline_helpers(facts, b, want)


def callers_of(facts):
    """callee body name -> set of caller body names (closures attributed to themselves), direct crate-local calls only"""
    if getattr(facts, '_callers', None) is None:
        m = {}
        for b in facts.bodies.values():
            if b.kind == 'Promoted':
                continue
            for bb, t in b.calls():
                n = t.callee.name
                if n and n in facts.by_name:
                    m.setdefault(n, set()).add(b.name)
        facts._callers = m
    return facts._callers


def fn_with_private_helpers(facts, name, keep=()):
    """facts.fn(name) with every crate-local callee spliced in that is called from nowhere else (the shape an extracted
    private helper has).  Used by rules whose anchors are statements rather than calls."""
    b = facts.fn(name)
    cs = callers_of(facts)

    def want(cb):
        if cb.name in keep or cb.kind == 'Closure':
            return False
        who = cs.get(cb.name, set())
        # all callers are the function itself or code already spliced into it (closures of it / inlined helpers)
        return bool(who) and all(w == name or w.startswith(name + '::{closure') for w in who)
    return inline_helpers(facts, b, want, depth=2)
