"""K12 (runs under python3-vt: sympy).  stdin: JSON {functions: {name: {params:[..], expr: tree}}, ll_term: tree,
grad_w0: tree, grad_c: tree}.  Proves  d/dw0, d/dc [ count * lse(a, b) ]  ==  extracted gradient terms, with the
result of f64::max inside lse kept as a free symbol.  Prints JSON {ok, details}."""
import json
import sys

import sympy as sp

w0, c, i, count, xstar = sp.symbols('w0 c i count xstar', positive=True)


def conv(e, env, fns):
    k = e[0]
    if k == 'sym':
        return env[e[1]]
    if k == 'fconst':
        return sp.nsimplify(e[1])
    if k == 'const':
        return sp.Integer(e[1])
    if k == 'bin':
        a, b = conv(e[2], env, fns), conv(e[3], env, fns)
        return {'Add': a + b, 'Sub': a - b, 'Mul': a * b, 'Div': a / b}[e[1]]
    if k == 'un' and e[1] == 'Neg':
        return -conv(e[2], env, fns)
    if k == 'cast':
        return conv(e[1], env, fns)
    if k in ('deref', 'ref'):
        return conv(e[1], env, fns)
    if k == 'call':
        name = e[1]
        args = [conv(a, env, fns) for a in e[2]]
        short = name.split('::')[-1]
        if name.endswith('<impl f64>::ln'):
            return sp.log(args[0])
        if name.endswith('<impl f64>::exp'):
            return sp.exp(args[0])
        if name.endswith('<impl f64>::max'):
            return xstar
        if short == 'lgamma':
            return sp.loggamma(args[0])
        if name in fns:
            f = fns[name]
            return conv(f['expr'], dict(zip(f['params'], args)), fns)
        raise ValueError('unknown call %s' % name)
    raise ValueError('unknown node %r' % (e[:2],))


def main():
    d = json.load(sys.stdin)
    fns = d['functions']
    env = {'w0': w0, 'c': c, 'i_f64': i, 'count': count}
    ll = conv(d['ll_term'], env, fns)
    gw = conv(d['grad_w0'], env, fns)
    gc = conv(d['grad_c'], env, fns)
    out = {}
    # lse identity: exp(lse(a,b)) = exp(a) + exp(b) for arbitrary xstar
    A, B = sp.symbols('A B', real=True)
    lse = conv(fns[d['lse']]['expr'], dict(zip(fns[d['lse']]['params'], [A, B])), fns)
    out['lse_identity'] = sp.simplify(sp.exp(lse) - (sp.exp(A) + sp.exp(B))) == 0
    d0 = sp.simplify(sp.diff(ll, w0) - gw)
    d1 = sp.simplify(sp.diff(ll, c) - gc)
    out['grad_w0_residual'] = str(d0)
    out['grad_c_residual'] = str(d1)
    out['ok'] = bool(out['lse_identity'] and d0 == 0 and d1 == 0)
    out['ll_term'] = str(ll)
    print(json.dumps(out))


main()
