"""Abstract values for the MIR abstract interpreter (engine K6/K7).

BV      fixed-width integer whose bits are each 0, 1, a named atom ('v',name), its negation
        ('n',name) or TOP ('T').  `val` caches the concrete value when all bits are known.
XorSet  a u64 that is an XOR of rotated table constants selected by symbolic 2-bit atoms
        (ntHash domain): frozenset of (table, atom, rot) terms  ^  concrete part.
Agg     tuples, arrays, structs and enum values (kind, variant index, fields)
RefV    reference: (cell, path) plus optional slice window (start, len)
"""

TOP = 'T'


def _neg(b):
    if b == 0:
        return 1
    if b == 1:
        return 0
    if b == TOP:
        return TOP
    return ('n' if b[0] == 'v' else 'v', b[1])


class BV:
    __slots__ = ('w', 'val', 'bits', 'signed')

    def __init__(self, w, val=None, bits=None, signed=False):
        self.w = w
        self.signed = signed
        if val is not None:
            self.val = val & ((1 << w) - 1)
            self.bits = None
        else:
            if all(b in (0, 1) for b in bits):
                v = 0
                for i, b in enumerate(bits):
                    v |= b << i
                self.val = v
                self.bits = None
            else:
                self.val = None
                self.bits = list(bits)

    # ------------------------------------------------------------ basics
    def concrete(self):
        return self.val is not None

    def bitlist(self):
        if self.val is not None:
            return [(self.val >> i) & 1 for i in range(self.w)]
        return self.bits

    def has_top(self):
        return self.val is None and any(b == TOP for b in self.bits)

    def sval(self):
        """signed interpretation of a concrete value"""
        v = self.val
        if self.signed and v >> (self.w - 1):
            v -= 1 << self.w
        return v

    def key(self):
        return (self.w, self.val if self.val is not None else tuple(self.bits))

    def __eq__(self, o):
        return isinstance(o, BV) and self.key() == o.key()

    def __hash__(self):
        return hash(self.key())

    def __repr__(self):
        if self.val is not None:
            return '%d:%s%d' % (self.sval(), 'i' if self.signed else 'u', self.w)
        return 'BV%d[%s]' % (self.w, ' '.join(_bs(b) for b in reversed(self.bits)))

    # ------------------------------------------------------------ bit ops
    def _bin(self, o, f, cf):
        if self.val is not None and o.val is not None:
            return BV(self.w, cf(self.val, o.val), signed=self.signed)
        a = self.bitlist()
        b = o.bitlist()
        return BV(self.w, bits=[f(x, y) for x, y in zip(a, b)], signed=self.signed)

    def band(self, o):
        return self._bin(o, _and, lambda a, b: a & b)

    def bor(self, o):
        return self._bin(o, _or, lambda a, b: a | b)

    def bxor(self, o):
        return self._bin(o, _xor, lambda a, b: a ^ b)

    def bnot(self):
        if self.val is not None:
            return BV(self.w, ~self.val, signed=self.signed)
        return BV(self.w, bits=[_neg(b) for b in self.bits], signed=self.signed)

    def shl(self, n):
        if self.val is not None:
            return BV(self.w, self.val << n, signed=self.signed)
        return BV(self.w, bits=([0] * n + self.bits)[:self.w], signed=self.signed)

    def shr(self, n):
        if self.val is not None:
            if self.signed:
                return BV(self.w, self.sval() >> n, signed=True)
            return BV(self.w, self.val >> n)
        fill = self.bits[-1] if self.signed else 0
        return BV(self.w, bits=(self.bits[n:] + [fill] * n)[:self.w], signed=self.signed)

    def rotl(self, n):
        n %= self.w
        b = self.bitlist()
        return BV(self.w, bits=b[self.w - n:] + b[:self.w - n], signed=self.signed)

    def cast(self, w, signed=False):
        if self.val is not None:
            return BV(w, self.sval() if self.signed else self.val, signed=signed)
        b = list(self.bits)
        if w <= self.w:
            return BV(w, bits=b[:w], signed=signed)
        fill = b[-1] if self.signed else 0
        return BV(w, bits=b + [fill] * (w - self.w), signed=signed)

    def top(self):
        return BV(self.w, bits=[TOP] * self.w, signed=self.signed)

    # tri-state comparison: True / False / None (unknown)
    def eq3(self, o):
        if self.val is not None and o.val is not None:
            return self.val == o.val
        same = True
        for x, y in zip(self.bitlist(), o.bitlist()):
            if x in (0, 1) and y in (0, 1):
                if x != y:
                    return False
            elif x == TOP or y == TOP:
                same = False
            elif isinstance(x, tuple) and isinstance(y, tuple):
                if x[1] == y[1]:
                    if x[0] != y[0]:
                        return False
                else:
                    same = False
            else:
                same = False
        return True if same else None


def _bs(b):
    if b in (0, 1):
        return str(b)
    if b == TOP:
        return '?'
    return ('~' if b[0] == 'n' else '') + str(b[1])


def _and(x, y):
    if x == 0 or y == 0:
        return 0
    if x == 1:
        return y
    if y == 1:
        return x
    if x == TOP or y == TOP:
        return TOP
    if x == y:
        return x
    if x[1] == y[1]:
        return 0
    return TOP


def _or(x, y):
    if x == 1 or y == 1:
        return 1
    if x == 0:
        return y
    if y == 0:
        return x
    if x == TOP or y == TOP:
        return TOP
    if x == y:
        return x
    if x[1] == y[1]:
        return 1
    return TOP


def _xor(x, y):
    if x == 0:
        return y
    if y == 0:
        return x
    if x == 1:
        return _neg(y)
    if y == 1:
        return _neg(x)
    if x == TOP or y == TOP:
        return TOP
    if x == y:
        return 0
    if x[1] == y[1]:
        return 1
    return TOP


def bv_const(w, v, signed=False):
    return BV(w, v, signed=signed)


def bv_bool(b):
    return BV(1, 1 if b else 0)


def sym_pair(w, name):
    """w-bit value whose low two bits are the atoms name.0 / name.1, rest 0"""
    return BV(w, bits=[('v', name + '.0'), ('v', name + '.1')] + [0] * (w - 2))


def sym_base_byte(name):
    """an ASCII byte known to be one of A/C/G/T in either case: bits 1,2 carry the 2-bit code,
    bit 3 is 0, the others are unknown"""
    return BV(8, bits=[TOP, ('v', name + '.0'), ('v', name + '.1'), 0, TOP, TOP, TOP, TOP])


class XorSet:
    """u64 = XOR of terms (table, atom, rot) ^ conc, where a term denotes
    rotate_left(TABLE[value of 2-bit atom], rot)"""
    __slots__ = ('terms', 'conc')

    def __init__(self, terms=frozenset(), conc=0):
        self.terms = frozenset(terms)
        self.conc = conc & ((1 << 64) - 1)

    w = 64
    val = None

    def concrete(self):
        return False

    def xor(self, o):
        if isinstance(o, BV):
            if o.val is None:
                raise ValueError('XorSet ^ symbolic BV')
            return XorSet(self.terms, self.conc ^ o.val)
        return XorSet(self.terms ^ o.terms, self.conc ^ o.conc)

    def rotl(self, n):
        n %= 64
        c = ((self.conc << n) | (self.conc >> (64 - n))) & ((1 << 64) - 1) if n else self.conc
        return XorSet(frozenset((t, a, (r + n) % 64) for t, a, r in self.terms), c)

    def key(self):
        return (self.terms, self.conc)

    def __eq__(self, o):
        return isinstance(o, XorSet) and self.key() == o.key()

    def __hash__(self):
        return hash(self.key())

    def __repr__(self):
        return 'Xor{%s ^ %#x}' % (', '.join('%s[%s]<<<%d' % t for t in sorted(self.terms)), self.conc)


class SparseFields:
    """immutable large array: length, default element and a dict of the elements that differ (used for the 3M-word bloom
    buffer, where copying a python list on every store would dominate the run time)"""
    __slots__ = ('n', 'default', 'd')

    def __init__(self, n, default, d=None):
        self.n = n
        self.default = default
        self.d = d or {}

    def __len__(self):
        return self.n

    def __getitem__(self, i):
        if isinstance(i, slice):
            return [self[j] for j in range(*i.indices(self.n))]
        if i < 0 or i >= self.n:
            raise IndexError(i)
        return self.d.get(i, self.default)

    def __iter__(self):
        return (self[i] for i in range(self.n))

    def with_item(self, i, val):
        d = dict(self.d)
        d[i] = val
        return SparseFields(self.n, self.default, d)

    def __eq__(self, o):
        return isinstance(o, SparseFields) and (self.n, self.default, self.d) == (o.n, o.default, o.d)


class Agg:
    __slots__ = ('kind', 'variant', 'fields')

    def __init__(self, kind, variant, fields):
        self.kind = kind
        self.variant = variant
        self.fields = fields if isinstance(fields, SparseFields) else list(fields)

    def __repr__(self):
        if self.kind == 'tuple':
            return '(%s)' % ', '.join(map(repr, self.fields))
        if self.kind == 'array':
            if len(self.fields) > 12:
                return '[%s, ...x%d]' % (', '.join(map(repr, self.fields[:6])), len(self.fields))
            return '[%s]' % ', '.join(map(repr, self.fields))
        return '%s#%s{%s}' % (self.kind, self.variant, ', '.join(map(repr, self.fields)))

    def __eq__(self, o):
        return isinstance(o, Agg) and self.kind == o.kind and self.variant == o.variant and self.fields == o.fields

    def __hash__(self):
        return hash((self.kind, self.variant, len(self.fields)))


UNIT = Agg('tuple', 0, [])


class Cell:
    __slots__ = ('v', 'name')

    def __init__(self, v=None, name=''):
        self.v = v
        self.name = name

    def __repr__(self):
        return 'Cell(%s)' % self.name


class RefV:
    __slots__ = ('cell', 'path', 'win')

    def __init__(self, cell, path=(), win=None):
        self.cell = cell
        self.path = tuple(path)
        self.win = win          # (start, len) for slices

    def __repr__(self):
        return '&%s%s%s' % (self.cell.name, ''.join('.%s' % p for p in self.path),
                            '[%d..+%d]' % self.win if self.win else '')

    def __eq__(self, o):
        return isinstance(o, RefV) and self.cell is o.cell and self.path == o.path and self.win == o.win

    def __hash__(self):
        return hash((id(self.cell), self.path, self.win))


class Opaque:
    __slots__ = ('tag',)

    def __init__(self, tag):
        self.tag = tag

    def __repr__(self):
        return 'Opaque(%s)' % (self.tag,)

    def __eq__(self, o):
        return isinstance(o, Opaque) and self.tag == o.tag

    def __hash__(self):
        return hash(self.tag)


class StrV:
    """a String value: list of chars (python str of len 1, or abstract values)"""
    __slots__ = ('chars',)

    def __init__(self, chars=()):
        self.chars = list(chars)

    def __repr__(self):
        return 'Str(%r)' % (self.chars,)

    def __eq__(self, o):
        if not isinstance(o, StrV) or len(self.chars) != len(o.chars):
            return False
        n = lambda c: c if isinstance(c, str) else (chr(c.val) if isinstance(c, BV) and c.val is not None else c)
        return [n(c) for c in self.chars] == [n(c) for c in o.chars]

    def __hash__(self):
        return hash(len(self.chars))
