"""Further standard-library models: the combinators a behaviour-preserving rewrite is likely to introduce (Option / Result /
bool adaptors, iterator adaptors, integer and f64 helper methods, slice helpers).  A missing model makes every rule that
interprets the rewritten function fail closed (anchor-lost), i.e. a false alarm on code where the property holds, so this
table is deliberately wider than what the pinned tree uses today.  Existing models are never replaced.
"""
import math

from .interp import (MODELS, FALLBACK, Unsupported, Panic, NONE, UNIT, some, deref_all, _iter_items, _pred, _slice, _ok,
                     MapV, StrV)
from .values import BV, Agg, RefV, Cell, Opaque, bv_bool

INTS = {'u8': (8, False), 'u16': (16, False), 'u32': (32, False), 'u64': (64, False), 'u128': (128, False), 'usize': (64, False),
        'i8': (8, True), 'i16': (16, True), 'i32': (32, True), 'i64': (64, True), 'i128': (128, True), 'isize': (64, True)}


def add(*names):
    def deco(f):
        for n in names:
            MODELS.setdefault(n, f)
        return f
    return deco


def opt(*methods):
    names = []
    for m in methods:
        names += ['std::option::Option::' + m, 'std::option::Option::<T>::' + m]
    return add(*names)


def res(*methods):
    names = []
    for m in methods:
        names += ['std::result::Result::' + m, 'std::result::Result::<T, E>::' + m]
    return add(*names)


def _err(v):
    return Agg('adt:std::result::Result', 1, [v])


def _o(I, v):
    return deref_all(I, v) if isinstance(v, RefV) else v


# ---------------------------------------------------------------------------------------------------- bool
@add('core::bool::<impl bool>::then')
def m_bool_then(I, a, t, c):
    return some(I.call_closure(a[1], [])) if I.conc(a[0], 'bool::then') else NONE


@add('core::bool::<impl bool>::then_some')
def m_bool_then_some(I, a, t, c):
    return some(a[1]) if I.conc(a[0], 'bool::then_some') else NONE


# ---------------------------------------------------------------------------------------------------- Option
@opt('and_then')
def m_opt_and_then(I, a, t, c):
    return I.call_closure(a[1], [a[0].fields[0]]) if a[0].variant == 1 else NONE


@opt('or_else')
def m_opt_or_else(I, a, t, c):
    return a[0] if a[0].variant == 1 else I.call_closure(a[1], [])


@opt('unwrap_or_else')
def m_opt_unwrap_or_else(I, a, t, c):
    return a[0].fields[0] if a[0].variant == 1 else I.call_closure(a[1], [])


@opt('map_or_else')
def m_opt_map_or_else(I, a, t, c):
    return I.call_closure(a[2], [a[0].fields[0]]) if a[0].variant == 1 else I.call_closure(a[1], [])


@opt('filter')
def m_opt_filter(I, a, t, c):
    if a[0].variant == 1 and _pred(I, a[1], a[0].fields[0]):
        return a[0]
    return NONE


@opt('ok_or')
def m_opt_ok_or(I, a, t, c):
    return _ok(a[0].fields[0]) if a[0].variant == 1 else _err(a[1])


@opt('ok_or_else')
def m_opt_ok_or_else(I, a, t, c):
    return _ok(a[0].fields[0]) if a[0].variant == 1 else _err(I.call_closure(a[1], []))


@opt('take')
def m_opt_take(I, a, t, c):
    v = I.load(a[0])
    I.store(a[0], NONE)
    return v


@opt('replace')
def m_opt_replace(I, a, t, c):
    v = I.load(a[0])
    I.store(a[0], some(a[1]))
    return v


@opt('insert')
def m_opt_insert(I, a, t, c):
    I.store(a[0], some(a[1]))
    return RefV(a[0].cell, a[0].path + (0,))


@opt('get_or_insert_with')
def m_opt_get_or_insert_with(I, a, t, c):
    if I.load(a[0]).variant == 0:
        I.store(a[0], some(I.call_closure(a[1], [])))
    return RefV(a[0].cell, a[0].path + (0,))


@opt('get_or_insert')
def m_opt_get_or_insert(I, a, t, c):
    if I.load(a[0]).variant == 0:
        I.store(a[0], some(a[1]))
    return RefV(a[0].cell, a[0].path + (0,))


@opt('is_some_and')
def m_opt_is_some_and(I, a, t, c):
    return bv_bool(a[0].variant == 1 and _pred(I, a[1], a[0].fields[0], by_ref=False))


@opt('is_none_or')
def m_opt_is_none_or(I, a, t, c):
    return bv_bool(a[0].variant == 0 or _pred(I, a[1], a[0].fields[0], by_ref=False))


@opt('and')
def m_opt_and(I, a, t, c):
    return a[1] if a[0].variant == 1 else NONE


@opt('xor')
def m_opt_xor(I, a, t, c):
    if a[0].variant == 1 and a[1].variant == 0:
        return a[0]
    if a[0].variant == 0 and a[1].variant == 1:
        return a[1]
    return NONE


@opt('zip')
def m_opt_zip(I, a, t, c):
    if a[0].variant == 1 and a[1].variant == 1:
        return some(Agg('tuple', 0, [a[0].fields[0], a[1].fields[0]]))
    return NONE


@opt('iter', 'into_iter')
def m_opt_iter(I, a, t, c):
    o = a[0]
    if isinstance(o, RefV):
        v = I.load(o)
        return Agg('iter', 0, [[RefV(o.cell, o.path + (0,))] if v.variant == 1 else [], 0])
    return Agg('iter', 0, [[o.fields[0]] if o.variant == 1 else [], 0])


@opt('flatten')
def m_opt_flatten(I, a, t, c):
    return a[0].fields[0] if a[0].variant == 1 else NONE


@opt('as_deref')
def m_opt_as_deref(I, a, t, c):
    r = a[0]
    v = I.load(r)
    if v.variant == 0:
        return NONE
    return some(RefV(r.cell, r.path + (0,)))


@opt('unwrap_unchecked')
def m_opt_unwrap_unchecked(I, a, t, c):
    if a[0].variant == 0:
        raise Panic('unwrap-none', 'unwrap_unchecked of None', repr(t.span))
    return a[0].fields[0]


# ---------------------------------------------------------------------------------------------------- Result
@res('map')
def m_res_map(I, a, t, c):
    return _ok(I.call_closure(a[1], [a[0].fields[0]])) if a[0].variant == 0 else a[0]


@res('map_err')
def m_res_map_err(I, a, t, c):
    return a[0] if a[0].variant == 0 else _err(I.call_closure(a[1], [a[0].fields[0]]))


@res('ok')
def m_res_ok(I, a, t, c):
    return some(a[0].fields[0]) if a[0].variant == 0 else NONE


@res('err')
def m_res_err(I, a, t, c):
    return some(a[0].fields[0]) if a[0].variant == 1 else NONE


@res('and_then')
def m_res_and_then(I, a, t, c):
    return I.call_closure(a[1], [a[0].fields[0]]) if a[0].variant == 0 else a[0]


@res('or_else')
def m_res_or_else(I, a, t, c):
    return a[0] if a[0].variant == 0 else I.call_closure(a[1], [a[0].fields[0]])


@res('unwrap_or')
def m_res_unwrap_or(I, a, t, c):
    return a[0].fields[0] if a[0].variant == 0 else a[1]


@res('map_or')
def m_res_map_or(I, a, t, c):
    return I.call_closure(a[2], [a[0].fields[0]]) if a[0].variant == 0 else a[1]


@res('map_or_else')
def m_res_map_or_else(I, a, t, c):
    return I.call_closure(a[2], [a[0].fields[0]]) if a[0].variant == 0 else I.call_closure(a[1], [a[0].fields[0]])


@res('is_ok_and')
def m_res_is_ok_and(I, a, t, c):
    return bv_bool(a[0].variant == 0 and _pred(I, a[1], a[0].fields[0], by_ref=False))


@res('is_err_and')
def m_res_is_err_and(I, a, t, c):
    return bv_bool(a[0].variant == 1 and _pred(I, a[1], a[0].fields[0], by_ref=False))


@res('unwrap_err', 'expect_err')
def m_res_unwrap_err(I, a, t, c):
    if a[0].variant == 0:
        raise Panic('unwrap-err-on-ok', '', repr(t.span))
    return a[0].fields[0]


@res('as_ref')
def m_res_as_ref(I, a, t, c):
    r = a[0]
    v = I.load(r)
    return Agg('adt:std::result::Result', v.variant, [RefV(r.cell, r.path + (0,))])


@res('iter', 'into_iter')
def m_res_iter(I, a, t, c):
    o = a[0]
    return Agg('iter', 0, [[o.fields[0]] if o.variant == 0 else [], 0])


# ---------------------------------------------------------------------------------------------------- iterators (eager lists)
def it(*methods):
    return add(*['std::iter::Iterator::' + m for m in methods])


@it('flat_map')
def m_flat_map(I, a, t, c):
    out = []
    for x in _iter_items(I, a[0]):
        out.extend(_iter_items(I, I.call_closure(a[1], [x])))
    return Agg('iter', 0, [out, 0])


@it('flatten')
def m_flatten(I, a, t, c):
    out = []
    for x in _iter_items(I, a[0]):
        x = _o(I, x) if isinstance(x, RefV) and not isinstance(I.load(x), Agg) else x
        if isinstance(x, Agg) and x.kind == 'adt:std::option::Option':
            if x.variant == 1:
                out.append(x.fields[0])
        elif isinstance(x, Agg) and x.kind == 'adt:std::result::Result':
            if x.variant == 0:
                out.append(x.fields[0])
        else:
            out.extend(_iter_items(I, x))
    return Agg('iter', 0, [out, 0])


@it('nth')
def m_nth(I, a, t, c):
    r = a[0]
    items = _iter_items(I, I.load(r) if isinstance(r, RefV) else r)
    n = I.conc(a[1])
    if isinstance(r, RefV):
        I.store(r, Agg('iter', 0, [items[n + 1:], 0]))
    return some(items[n]) if n < len(items) else NONE


@it('inspect')
def m_inspect(I, a, t, c):
    items = _iter_items(I, a[0])
    for x in items:
        I.call_closure(a[1], [RefV(Cell(x, 'item'))])
    return Agg('iter', 0, [items, 0])


@it('map_while')
def m_map_while(I, a, t, c):
    out = []
    for x in _iter_items(I, a[0]):
        r = I.call_closure(a[1], [x])
        if r.variant == 0:
            break
        out.append(r.fields[0])
    return Agg('iter', 0, [out, 0])


@it('reduce')
def m_reduce(I, a, t, c):
    items = _iter_items(I, a[0])
    if not items:
        return NONE
    acc = items[0]
    for x in items[1:]:
        acc = I.call_closure(a[1], [acc, x])
    return some(acc)


@it('product')
def m_product(I, a, t, c):
    items = [_o(I, x) for x in _iter_items(I, a[0])]
    if items and all(isinstance(x, BV) for x in items):
        p = 1
        for x in items:
            p *= I.conc(x)
        return BV(items[0].w, p & ((1 << items[0].w) - 1), signed=items[0].signed)
    if not items and 'f64' not in (c.full or ''):
        return BV(64, 1)
    p = 1.0
    for x in items:
        p = p * x
    return p


@it('unzip')
def m_unzip(I, a, t, c):
    xs, ys = [], []
    for p in _iter_items(I, a[0]):
        p = _o(I, p)
        xs.append(p.fields[0])
        ys.append(p.fields[1])
    return Agg('tuple', 0, [Agg('array', 0, xs), Agg('array', 0, ys)])


@it('partition')
def m_partition(I, a, t, c):
    xs, ys = [], []
    for x in _iter_items(I, a[0]):
        (xs if _pred(I, a[1], x) else ys).append(x)
    return Agg('tuple', 0, [Agg('array', 0, xs), Agg('array', 0, ys)])


@it('peekable', 'fuse', 'by_ref')
def m_iter_identity(I, a, t, c):
    if isinstance(a[0], RefV):
        return a[0]
    return Agg('iter', 0, [_iter_items(I, a[0]), 0])


@add('std::iter::Peekable::<I>::peek', 'std::iter::Peekable::peek')
def m_peek(I, a, t, c):
    itv = I.load(a[0])
    items = _iter_items(I, itv)
    if not items:
        return NONE
    return some(RefV(Cell(items[0], 'peeked')))


@it('min_by', 'max_by')
def m_minmax_by(I, a, t, c):
    items = _iter_items(I, a[0])
    if not items:
        return NONE
    is_max = (t.callee.name or '').endswith('max_by')
    best = items[0]
    for x in items[1:]:
        o = I.call_closure(a[1], [RefV(Cell(best, 'l')), RefV(Cell(x, 'r'))])
        ov = o.variant if isinstance(o, Agg) else I.conc(o)      # Ordering: Less = 0 (-1), Equal = 1 (0), Greater = 2 (1)
        if isinstance(o, BV):
            ov = {0xff: 0, 0: 1, 1: 2}.get(o.val & 0xff, ov)
        if is_max:
            if ov != 2:          # best <= x  -> x (max_by returns the last maximum)
                best = x
        else:
            if ov == 2:          # best > x -> x (min_by returns the first minimum)
                best = x
    return some(best)


@it('eq')
def m_iter_eq(I, a, t, c):
    xs = [_o(I, x) for x in _iter_items(I, a[0])]
    ys = [_o(I, x) for x in _iter_items(I, a[1])]
    if len(xs) != len(ys):
        return bv_bool(False)
    for x, y in zip(xs, ys):
        if not I.conc(I.binop('Eq', x, y)):
            return bv_bool(False)
    return bv_bool(True)


@add('std::iter::repeat', 'core::iter::repeat')
def m_repeat(I, a, t, c):
    return Agg('repeat', 0, [a[0]])


@add('std::iter::once', 'core::iter::once')
def m_once(I, a, t, c):
    return Agg('iter', 0, [[a[0]], 0])


@add('std::iter::empty', 'core::iter::empty')
def m_empty(I, a, t, c):
    return Agg('iter', 0, [[], 0])


@add('std::iter::repeat_n', 'core::iter::repeat_n')
def m_repeat_n(I, a, t, c):
    return Agg('iter', 0, [[a[0]] * I.conc(a[1]), 0])


# ---------------------------------------------------------------------------------------------------- integers
def _int_models():
    for ty, (w, signed) in INTS.items():
        pre = 'core::num::<impl %s>::' % ty
        mask = (1 << w) - 1

        def mk(v, w=w, signed=signed):
            return BV(w, v & ((1 << w) - 1), signed=signed) if signed else BV(w, v & ((1 << w) - 1))

        def val(I, x, signed=signed):
            x = deref_all(I, x) if isinstance(x, RefV) else x
            return x.sval() if signed else I.conc(x)

        lo = -(1 << (w - 1)) if signed else 0
        hi = (1 << (w - 1)) - 1 if signed else mask

        def reg(name, f):
            MODELS.setdefault(pre + name, f)

        reg('wrapping_add', lambda I, a, t, c, mk=mk, val=val: mk(val(I, a[0]) + val(I, a[1])))
        reg('wrapping_sub', lambda I, a, t, c, mk=mk, val=val: mk(val(I, a[0]) - val(I, a[1])))
        reg('wrapping_mul', lambda I, a, t, c, mk=mk, val=val: mk(val(I, a[0]) * val(I, a[1])))
        reg('saturating_add', lambda I, a, t, c, mk=mk, val=val, lo=lo, hi=hi: mk(max(lo, min(hi, val(I, a[0]) + val(I, a[1])))))
        reg('saturating_sub', lambda I, a, t, c, mk=mk, val=val, lo=lo, hi=hi: mk(max(lo, min(hi, val(I, a[0]) - val(I, a[1])))))
        reg('saturating_mul', lambda I, a, t, c, mk=mk, val=val, lo=lo, hi=hi: mk(max(lo, min(hi, val(I, a[0]) * val(I, a[1])))))

        def checked(op, mk=mk, val=val, lo=lo, hi=hi):
            def f(I, a, t, c):
                x, y = val(I, a[0]), val(I, a[1])
                if op == 'div' or op == 'rem':
                    if y == 0:
                        return NONE
                    r = (abs(x) // abs(y)) * (1 if (x >= 0) == (y >= 0) else -1) if op == 'div' else x - y * ((abs(x) // abs(y)) * (1 if (x >= 0) == (y >= 0) else -1))
                else:
                    r = {'add': x + y, 'sub': x - y, 'mul': x * y}[op]
                return some(mk(r)) if lo <= r <= hi else NONE
            return f
        for op in ('add', 'sub', 'mul', 'div', 'rem'):
            reg('checked_' + op, checked(op))

        def overflowing(op, mk=mk, val=val, lo=lo, hi=hi):
            def f(I, a, t, c):
                x, y = val(I, a[0]), val(I, a[1])
                r = {'add': x + y, 'sub': x - y, 'mul': x * y}[op]
                return Agg('tuple', 0, [mk(r), bv_bool(not (lo <= r <= hi))])
            return f
        for op in ('add', 'sub', 'mul'):
            reg('overflowing_' + op, overflowing(op))
        reg('abs_diff', lambda I, a, t, c, val=val, w=w: BV(w, abs(val(I, a[0]) - val(I, a[1]))))
        reg('pow', lambda I, a, t, c, mk=mk, val=val, lo=lo, hi=hi: _pow(I, mk, val(I, a[0]), I.conc(a[1]), lo, hi, t))
        reg('count_ones', lambda I, a, t, c, w=w: BV(32, bin(I.conc(a[0]) & ((1 << w) - 1)).count('1')))
        reg('count_zeros', lambda I, a, t, c, w=w: BV(32, w - bin(I.conc(a[0]) & ((1 << w) - 1)).count('1')))
        reg('leading_zeros', lambda I, a, t, c, w=w: BV(32, w - (I.conc(a[0]) & ((1 << w) - 1)).bit_length()))
        reg('trailing_zeros', lambda I, a, t, c, w=w: BV(32, _tz(I.conc(a[0]) & ((1 << w) - 1), w)))
        reg('is_power_of_two', lambda I, a, t, c: bv_bool(I.conc(a[0]) != 0 and I.conc(a[0]) & (I.conc(a[0]) - 1) == 0))
        reg('next_power_of_two', lambda I, a, t, c, w=w: BV(w, 1 if I.conc(a[0]) <= 1 else 1 << (I.conc(a[0]) - 1).bit_length()))
        reg('rem_euclid', lambda I, a, t, c, mk=mk, val=val: mk(val(I, a[0]) % abs(val(I, a[1]))))
        reg('div_euclid', lambda I, a, t, c, mk=mk, val=val: mk((val(I, a[0]) - val(I, a[0]) % abs(val(I, a[1]))) // val(I, a[1])))
        reg('div_ceil', lambda I, a, t, c, mk=mk, val=val: mk(-((-val(I, a[0])) // val(I, a[1]))))
        reg('min', lambda I, a, t, c, mk=mk, val=val: mk(min(val(I, a[0]), val(I, a[1]))))
        reg('max', lambda I, a, t, c, mk=mk, val=val: mk(max(val(I, a[0]), val(I, a[1]))))
        reg('clamp', lambda I, a, t, c, mk=mk, val=val: mk(max(val(I, a[1]), min(val(I, a[2]), val(I, a[0])))))
        reg('swap_bytes', lambda I, a, t, c, w=w: BV(w, int.from_bytes((I.conc(a[0]) & ((1 << w) - 1)).to_bytes(w // 8, 'little'), 'big')))
        reg('reverse_bits', lambda I, a, t, c, w=w: BV(w, int(format(I.conc(a[0]) & ((1 << w) - 1), '0%db' % w)[::-1], 2)))
        reg('ilog2', lambda I, a, t, c: BV(32, I.conc(a[0]).bit_length() - 1))
        if signed:
            reg('abs', lambda I, a, t, c, mk=mk, val=val: mk(abs(val(I, a[0]))))
            reg('unsigned_abs', lambda I, a, t, c, val=val, w=w: BV(w, abs(val(I, a[0]))))
            reg('signum', lambda I, a, t, c, mk=mk, val=val: mk((val(I, a[0]) > 0) - (val(I, a[0]) < 0)))


def _tz(v, w):
    if v == 0:
        return w
    n = 0
    while not v & 1:
        v >>= 1
        n += 1
    return n


def _pow(I, mk, x, e, lo, hi, t):
    r = x ** e
    if not lo <= r <= hi:
        raise Panic('overflow', 'pow', repr(t.span))
    return mk(r)


_int_models()


# Ord::clamp / Ord::min / Ord::max on primitive integers arrive as trait calls
@add('std::cmp::Ord::clamp', 'prim::Ord::clamp')
def m_ord_clamp(I, a, t, c):
    x, lo, hi = (deref_all(I, v) if isinstance(v, RefV) else v for v in a[:3])
    if isinstance(x, float):
        return max(lo, min(hi, x))
    xv, lv, hv = (v.sval() if getattr(v, 'signed', False) else I.conc(v) for v in (x, lo, hi))
    return lo if xv < lv else (hi if xv > hv else x)


# ---------------------------------------------------------------------------------------------------- f64
def _f(I, x):
    x = deref_all(I, x) if isinstance(x, RefV) else x
    if isinstance(x, BV):
        return float(x.sval() if getattr(x, 'signed', False) else I.conc(x))
    return float(x)


def f64(name):
    return add('std::f64::<impl f64>::' + name, 'core::f64::<impl f64>::' + name)


@f64('ln')
def m_ln(I, a, t, c):
    x = _f(I, a[0])
    if x < 0 or x != x:
        return float('nan')
    return float('-inf') if x == 0 else math.log(x)


@f64('log10')
def m_log10(I, a, t, c):
    x = _f(I, a[0])
    if x < 0 or x != x:
        return float('nan')
    return float('-inf') if x == 0 else math.log10(x)


@f64('ln_1p')
def m_ln1p(I, a, t, c):
    x = _f(I, a[0])
    if x < -1 or x != x:
        return float('nan')
    return float('-inf') if x == -1 else math.log1p(x)


@f64('exp')
def m_exp(I, a, t, c):
    x = _f(I, a[0])
    try:
        return math.exp(x)
    except OverflowError:
        return float('inf')


@f64('exp_m1')
def m_expm1(I, a, t, c):
    try:
        return math.expm1(_f(I, a[0]))
    except OverflowError:
        return float('inf')


@f64('sqrt')
def m_sqrt(I, a, t, c):
    x = _f(I, a[0])
    return float('nan') if x < 0 or x != x else math.sqrt(x)


@f64('abs')
def m_fabs(I, a, t, c):
    return abs(_f(I, a[0]))


@f64('max')
def m_fmax(I, a, t, c):
    x, y = _f(I, a[0]), _f(I, a[1])
    if x != x:
        return y
    if y != y:
        return x
    return max(x, y)


@f64('min')
def m_fmin(I, a, t, c):
    x, y = _f(I, a[0]), _f(I, a[1])
    if x != x:
        return y
    if y != y:
        return x
    return min(x, y)


@f64('powi')
def m_powi(I, a, t, c):
    e = a[1].sval() if isinstance(a[1], BV) else int(a[1])
    try:
        return _f(I, a[0]) ** e
    except (OverflowError, ZeroDivisionError):
        return float('inf')


@f64('powf')
def m_powf(I, a, t, c):
    try:
        return math.pow(_f(I, a[0]), _f(I, a[1]))
    except (OverflowError, ValueError, ZeroDivisionError):
        return float('nan')


@f64('mul_add')
def m_mul_add(I, a, t, c):
    return _f(I, a[0]) * _f(I, a[1]) + _f(I, a[2])


@f64('trunc')
def m_trunc(I, a, t, c):
    return float(math.trunc(_f(I, a[0])))


@f64('fract')
def m_fract(I, a, t, c):
    x = _f(I, a[0])
    return x - float(math.trunc(x))


@f64('is_nan')
def m_is_nan(I, a, t, c):
    x = _f(I, a[0])
    return bv_bool(x != x)


@f64('is_finite')
def m_is_finite(I, a, t, c):
    return bv_bool(math.isfinite(_f(I, a[0])))


@f64('is_infinite')
def m_is_infinite(I, a, t, c):
    return bv_bool(math.isinf(_f(I, a[0])))


@f64('signum')
def m_fsignum(I, a, t, c):
    x = _f(I, a[0])
    return x if x != x else math.copysign(1.0, x)


@f64('clamp')
def m_fclamp(I, a, t, c):
    return max(_f(I, a[1]), min(_f(I, a[2]), _f(I, a[0])))


@f64('total_cmp')
def m_total_cmp(I, a, t, c):
    x, y = _f(I, a[0]), _f(I, a[1])
    return Agg('adt:std::cmp::Ordering', 0 if x < y else (1 if x == y else 2), [])


@add('libm::lgamma', 'libm::math::lgamma::lgamma', 'libm::math::lgamma', 'libm::libm_helper::lgamma')
def m_lgamma(I, a, t, c):
    x = _f(I, a[0])
    try:
        return math.lgamma(x)
    except (ValueError, OverflowError):
        return float('inf')


@add('libm::lgamma_r', 'libm::math::lgamma_r::lgamma_r', 'libm::math::lgamma_r')
def m_lgamma_r(I, a, t, c):
    x = _f(I, a[0])
    try:
        v = math.lgamma(x)
    except (ValueError, OverflowError):
        v = float('inf')
    sign = 1
    if x < 0 and math.floor(x) != x and int(math.floor(x)) % 2 != 0:
        sign = -1
    return Agg('tuple', 0, [v, BV(32, sign & 0xffffffff, signed=True)])


# ---------------------------------------------------------------------------------------------------- slices
def sl(*methods):
    return add(*['core::slice::<impl [T]>::' + m for m in methods])


@sl('swap')
def m_slice_swap(I, a, t, c):
    cell, path, s, n = _slice(I, a[0])
    i, j = I.conc(a[1]), I.conc(a[2])
    if i >= n or j >= n:
        raise Panic('bounds', 'swap(%d, %d) on a slice of length %d' % (i, j, n), repr(t.span))
    ri, rj = RefV(cell, path + (s + i,)), RefV(cell, path + (s + j,))
    x, y = I.load(ri), I.load(rj)
    I.store(ri, y)
    I.store(rj, x)
    return UNIT


@sl('fill')
def m_slice_fill(I, a, t, c):
    cell, path, s, n = _slice(I, a[0])
    for i in range(n):
        I.store(RefV(cell, path + (s + i,)), a[1])
    return UNIT


@sl('get')
def m_slice_get(I, a, t, c):
    cell, path, s, n = _slice(I, a[0])
    ix = a[1]
    if isinstance(ix, Agg) and ix.kind == 'adt:std::ops::Range':
        lo, hi = I.conc(ix.fields[0]), I.conc(ix.fields[1])
        if lo > hi or hi > n:
            return NONE
        return some(RefV(cell, path, (s + lo, hi - lo)))
    if isinstance(ix, BV):
        i = I.conc(ix)
        return some(RefV(cell, path + (s + i,))) if i < n else NONE
    raise Unsupported('slice::get with %r' % (ix,))


@sl('get_mut')
def m_slice_get_mut(I, a, t, c):
    return m_slice_get(I, a, t, c)


@sl('first_mut')
def m_first_mut(I, a, t, c):
    cell, path, s, n = _slice(I, a[0])
    return some(RefV(cell, path + (s,))) if n else NONE


@sl('last_mut')
def m_last_mut(I, a, t, c):
    cell, path, s, n = _slice(I, a[0])
    return some(RefV(cell, path + (s + n - 1,))) if n else NONE


@sl('split_first')
def m_split_first(I, a, t, c):
    cell, path, s, n = _slice(I, a[0])
    if not n:
        return NONE
    return some(Agg('tuple', 0, [RefV(cell, path + (s,)), RefV(cell, path, (s + 1, n - 1))]))


@sl('split_last')
def m_split_last(I, a, t, c):
    cell, path, s, n = _slice(I, a[0])
    if not n:
        return NONE
    return some(Agg('tuple', 0, [RefV(cell, path + (s + n - 1,)), RefV(cell, path, (s, n - 1))]))


@sl('starts_with')
def m_slice_starts_with(I, a, t, c):
    xs = [_o(I, x) for x in _iter_items(I, a[0])]
    ys = [_o(I, x) for x in _iter_items(I, a[1])]
    return bv_bool(len(ys) <= len(xs) and all(I.conc(I.binop('Eq', x, y)) for x, y in zip(xs, ys)))


@sl('ends_with')
def m_slice_ends_with(I, a, t, c):
    xs = [_o(I, x) for x in _iter_items(I, a[0])]
    ys = [_o(I, x) for x in _iter_items(I, a[1])]
    return bv_bool(len(ys) <= len(xs) and all(I.conc(I.binop('Eq', x, y)) for x, y in zip(xs[len(xs) - len(ys):], ys)))


@sl('rotate_left')
def m_rotate_left(I, a, t, c):
    cell, path, s, n = _slice(I, a[0])
    k = I.conc(a[1])
    vals = [I.load(RefV(cell, path + (s + i,))) for i in range(n)]
    vals = vals[k:] + vals[:k]
    for i, v in enumerate(vals):
        I.store(RefV(cell, path + (s + i,)), v)
    return UNIT


@sl('rotate_right')
def m_rotate_right(I, a, t, c):
    cell, path, s, n = _slice(I, a[0])
    k = I.conc(a[1])
    vals = [I.load(RefV(cell, path + (s + i,))) for i in range(n)]
    vals = vals[n - k:] + vals[:n - k] if n else vals
    for i, v in enumerate(vals):
        I.store(RefV(cell, path + (s + i,)), v)
    return UNIT


# Vec helpers not yet modelled
@add('std::vec::Vec::<T, A>::swap_remove', 'std::vec::Vec::swap_remove')
def m_vec_swap_remove(I, a, t, c):
    v = I.load(a[0])
    i = I.conc(a[1])
    f = list(v.fields)
    if i >= len(f):
        raise Panic('bounds', 'swap_remove index', repr(t.span))
    x = f[i]
    f[i] = f[-1]
    f.pop()
    I.store(a[0], Agg('array', 0, f))
    return x


@add('std::vec::Vec::<T, A>::append', 'std::vec::Vec::append')
def m_vec_append(I, a, t, c):
    v = I.load(a[0])
    o = I.load(a[1])
    I.store(a[0], Agg('array', 0, list(v.fields) + list(o.fields)))
    I.store(a[1], Agg('array', 0, []))
    return UNIT


@add('std::vec::Vec::<T, A>::first', 'std::vec::Vec::first')
def m_vec_first(I, a, t, c):
    v = I.load(a[0])
    return some(RefV(a[0].cell, a[0].path + (0,))) if v.fields else NONE


@add('std::vec::Vec::<T, A>::split_off', 'std::vec::Vec::split_off')
def m_vec_split_off(I, a, t, c):
    v = I.load(a[0])
    i = I.conc(a[1])
    if i > len(v.fields):
        raise Panic('bounds', 'split_off', repr(t.span))
    I.store(a[0], Agg('array', 0, list(v.fields[:i])))
    return Agg('array', 0, list(v.fields[i:]))


@add('std::vec::Vec::<T, A>::drain', 'std::vec::Vec::drain')
def m_vec_drain(I, a, t, c):
    v = I.load(a[0])
    r = a[1]
    n = len(v.fields)
    lo, hi = 0, n
    if isinstance(r, Agg) and r.kind == 'adt:std::ops::Range':
        lo, hi = I.conc(r.fields[0]), I.conc(r.fields[1])
    elif isinstance(r, Agg) and r.kind == 'adt:std::ops::RangeFrom':
        lo = I.conc(r.fields[0])
    elif isinstance(r, Agg) and r.kind == 'adt:std::ops::RangeTo':
        hi = I.conc(r.fields[0])
    elif isinstance(r, Agg) and r.kind == 'adt:std::ops::RangeFull':
        pass
    else:
        raise Unsupported('drain range %r' % (r,))
    if lo > hi or hi > n:
        raise Panic('bounds', 'drain', repr(t.span))
    I.store(a[0], Agg('array', 0, list(v.fields[:lo]) + list(v.fields[hi:])))
    return Agg('iter', 0, [list(v.fields[lo:hi]), 0])



# ---------------------------------------------------------------------------------------------------- String / char conversions
@add('<std::string::String as std::convert::From<char>>::from', '<char as std::string::ToString>::to_string', '<char as alloc::string::ToString>::to_string')
def m_string_from_char(I, a, t, c):
    v = deref_all(I, a[0]) if isinstance(a[0], RefV) else a[0]
    if isinstance(v, Agg) and v.kind == 'char':
        return StrV([chr(v.fields[0])])
    return StrV([chr(I.conc(v))])


@add('<std::string::String as std::convert::From<std::boxed::Box<str>>>::from', '<std::string::String as std::convert::From<std::borrow::Cow<\'_, str>>>::from',
     '<std::string::String as std::convert::From<std::borrow::Cow<str>>>::from', '<std::string::String as std::convert::From<&mut str>>::from')
def m_string_from_strlike(I, a, t, c):
    v = deref_all(I, a[0]) if isinstance(a[0], RefV) else a[0]
    if isinstance(v, Agg) and v.kind == 'cow':
        v = deref_all(I, v.fields[0])
    return StrV(list(v.chars))


@add('std::string::String::from_utf8', 'alloc::string::String::from_utf8')
def m_string_from_utf8(I, a, t, c):
    v = a[0]
    return _ok(StrV([chr(I.conc(x)) for x in v.fields]))


@add('std::string::String::from_utf8_lossy', 'alloc::string::String::from_utf8_lossy')
def m_string_from_utf8_lossy(I, a, t, c):
    from .interp import _vals
    return Agg('cow', 0, [RefV(Cell(StrV([chr(I.conc(x)) for x in _vals(I, a[0])]), 'lossy'))])


@add('std::char::from_u32', 'core::char::from_u32', 'core::char::methods::<impl char>::from_u32')
def m_char_from_u32(I, a, t, c):
    v = I.conc(a[0])
    if v > 0x10ffff or 0xd800 <= v <= 0xdfff:
        return NONE
    return some(BV(32, v))


@add('core::char::methods::<impl char>::to_ascii_uppercase', 'core::char::methods::<impl char>::to_ascii_lowercase',
     'core::char::methods::<impl char>::is_ascii_uppercase', 'core::char::methods::<impl char>::is_ascii_lowercase',
     'core::char::methods::<impl char>::is_ascii_alphabetic', 'core::char::methods::<impl char>::is_ascii_digit', 'core::char::methods::<impl char>::is_whitespace')
def m_char_ascii(I, a, t, c):
    v = deref_all(I, a[0]) if isinstance(a[0], RefV) else a[0]
    ch = chr(I.conc(v))
    last = (t.callee.name or '').split('::')[-1]
    if last == 'to_ascii_uppercase':
        return BV(32, ord(ch.upper()) if ch.isascii() else ord(ch))
    if last == 'to_ascii_lowercase':
        return BV(32, ord(ch.lower()) if ch.isascii() else ord(ch))
    return bv_bool({'is_ascii_uppercase': ch.isascii() and ch.isupper(), 'is_ascii_lowercase': ch.isascii() and ch.islower(),
                    'is_ascii_alphabetic': ch.isascii() and ch.isalpha(), 'is_ascii_digit': ch.isascii() and ch.isdigit(), 'is_whitespace': ch.isspace()}[last])


# ---------------------------------------------------------------------------------------------------- `?` on Option, Try::from_output
@add('<std::option::Option<T> as std::ops::FromResidual<std::option::Option<std::convert::Infallible>>>::from_residual',
     '<std::option::Option<T> as std::ops::FromResidual>::from_residual')
def m_option_from_residual(I, a, t, c):
    return NONE


@add('<std::option::Option<T> as std::ops::Try>::from_output')
def m_option_from_output(I, a, t, c):
    return some(a[0])


@add('<std::result::Result<T, E> as std::ops::Try>::from_output')
def m_result_from_output(I, a, t, c):
    return _ok(a[0])


# ---------------------------------------------------------------------------------------------------- ndarray size queries
from .interp import Nd2, _vals  # noqa: E402


def _nd_or_vals(I, v):
    d = deref_all(I, v) if isinstance(v, RefV) and v.win is None else v
    if isinstance(d, Nd2):
        return d, None
    return None, _vals(I, v)


@add('ndarray::impl_methods::<impl ndarray::ArrayBase<S, D>>::len')
def m_nd_len(I, a, t, c):
    n, vals = _nd_or_vals(I, a[0])
    return BV(64, len(n.rows) * n.ncols if n is not None else len(vals))


@add('ndarray::impl_methods::<impl ndarray::ArrayBase<S, D>>::is_empty')
def m_nd_is_empty(I, a, t, c):
    n, vals = _nd_or_vals(I, a[0])
    return bv_bool((len(n.rows) * n.ncols if n is not None else len(vals)) == 0)


@add('ndarray::impl_methods::<impl ndarray::ArrayBase<S, D>>::ndim')
def m_nd_ndim(I, a, t, c):
    n, vals = _nd_or_vals(I, a[0])
    return BV(64, 2 if n is not None else 1)


@add('ndarray::impl_methods::<impl ndarray::ArrayBase<S, D>>::shape')
def m_nd_shape(I, a, t, c):
    n, vals = _nd_or_vals(I, a[0])
    dims = [len(n.rows), n.ncols] if n is not None else [len(vals)]
    return RefV(Cell(Agg('array', 0, [BV(64, x) for x in dims]), 'shape'), (), (0, len(dims)))


@add('ndarray::impl_methods::<impl ndarray::ArrayBase<S, D>>::first')
def m_nd_first(I, a, t, c):
    n, vals = _nd_or_vals(I, a[0])
    if n is not None:
        vals = n.rows[0] if n.rows and n.ncols else []
    return some(RefV(Cell(vals[0], 'first'))) if vals else NONE


@add('ndarray::impl_methods::<impl ndarray::ArrayBase<S, D>>::last')
def m_nd_last(I, a, t, c):
    n, vals = _nd_or_vals(I, a[0])
    if n is not None:
        vals = n.rows[-1] if n.rows and n.ncols else []
    return some(RefV(Cell(vals[-1], 'last'))) if vals else NONE


# ---------------------------------------------------------------------------------------------------- From / Into / TryFrom between primitives
def _prim_target(I, c):
    """the primitive type a `<T as From<U>>::from` / `<U as Into<T>>::into` / `<T as TryFrom<U>>::try_from` call produces"""
    full = c.full or ''
    m = None
    import re as _re
    for pat in (r"<(\w+) as std::convert::From<", r"<(\w+) as std::convert::TryFrom<", r" as std::convert::Into<(\w+)>>", r" as std::convert::TryInto<(\w+)>>"):
        m = _re.search(pat, full)
        if m:
            break
    ty = m.group(1) if m else (I.resolve_ty(c.gargs[0]) if c.gargs else None)
    return ty


def _prim_convert(I, v, ty, t):
    v = deref_all(I, v) if isinstance(v, RefV) else v
    if ty in INTS:
        w, signed = INTS[ty]
        if isinstance(v, float):
            raise Unsupported('From<f64> for an integer')
        x = v.sval() if getattr(v, 'signed', False) else I.conc(v)
        return BV(w, x & ((1 << w) - 1), signed=signed) if signed else BV(w, x & ((1 << w) - 1))
    if ty in ('f64', 'f32'):
        return float(v.sval() if getattr(v, 'signed', False) else I.conc(v)) if isinstance(v, BV) else float(v)
    if ty == 'char':
        if isinstance(v, Opaque):
            return v         # an abstract character (a rule's stand-in for decode_base's result): char::from(u8) keeps the code, like `as char`
        return BV(32, I.conc(v))
    raise Unsupported('primitive conversion to %r' % (ty,))


@add('prim::From::from', 'prim::Into::into')
def m_prim_from(I, a, t, c):
    return _prim_convert(I, a[0], _prim_target(I, c), t)


@add('prim::TryFrom::try_from', 'prim::TryInto::try_into')
def m_prim_try_from(I, a, t, c):
    ty = _prim_target(I, c)
    v = deref_all(I, a[0]) if isinstance(a[0], RefV) else a[0]
    if ty in INTS and isinstance(v, BV):
        w, signed = INTS[ty]
        x = v.sval() if getattr(v, 'signed', False) else I.conc(v)
        lo, hi = (-(1 << (w - 1)), (1 << (w - 1)) - 1) if signed else (0, (1 << w) - 1)
        if not lo <= x <= hi:
            return Agg('adt:std::result::Result', 1, [Agg('adt:std::num::TryFromIntError', 0, [])])
        return _ok(_prim_convert(I, v, ty, t))
    raise Unsupported('TryFrom to %r' % (ty,))


# ---------------------------------------------------------------------------------------------------- Path / PathBuf (a path is its string)
@add('<std::path::PathBuf as std::clone::Clone>::clone', 'std::path::PathBuf::as_path', '<std::path::PathBuf as std::ops::Deref>::deref',
     '<std::path::PathBuf as std::convert::AsRef<std::path::Path>>::as_ref', '<std::path::Path as std::convert::AsRef<std::path::Path>>::as_ref',
     '<std::string::String as std::convert::AsRef<std::path::Path>>::as_ref', '<str as std::convert::AsRef<std::path::Path>>::as_ref',
     'std::path::Path::new', 'std::path::Path::to_path_buf', '<std::path::PathBuf as std::convert::From<std::string::String>>::from',
     '<std::path::PathBuf as std::convert::From<&str>>::from', 'std::path::Path::as_os_str', 'std::path::PathBuf::into_os_string')
def m_path_identity(I, a, t, c):
    v = a[0]
    n = t.callee.name or ''
    if n.endswith('::clone') or n.endswith('to_path_buf') or '::From<' in n:
        d = deref_all(I, v) if isinstance(v, RefV) else v
        return StrV(list(d.chars))
    return v


@add('std::path::Path::to_str')
def m_path_to_str(I, a, t, c):
    return some(a[0])


@add('std::path::Path::display')
def m_path_display(I, a, t, c):
    return a[0]


@add('std::path::Path::exists', 'std::path::Path::is_file')
def m_path_exists(I, a, t, c):
    p = ''.join(ch if isinstance(ch, str) else chr(I.conc(ch)) for ch in deref_all(I, a[0]).chars)
    return bv_bool(p in getattr(I, 'files', {}) or p in getattr(I, 'text_files', {}))


# ---------------------------------------------------------------------------------------------------- seq_io FASTA reader over the virtual sequence files
#      (`ska lo -r`: skalo::positioning::get_reader opens the file - part of the environment - and seq_io parses it)
@add('skalo::positioning::get_reader', 'skalo::utils::get_reader', 'skalo::input::get_reader')
def m_skalo_get_reader(I, a, t, c):
    p = ''.join(ch if isinstance(ch, str) else chr(I.conc(ch)) for ch in deref_all(I, a[0]).chars)
    if p not in getattr(I, 'files', {}):
        raise Panic('panic', 'Error opening file %s' % p, repr(t.span))
    return Agg('seqio-src', 0, [p])


@add('seq_io::fasta::Reader::new', 'seq_io::fasta::Reader::from_path')
def m_seqio_reader_new(I, a, t, c):
    src = a[0]
    hops = 0
    while isinstance(src, Agg) and src.kind in ('box', 'bufwriter', 'bufreader') and src.fields and hops < 4:      # Box<dyn BufRead> / BufReader around the handle
        src = src.fields[0]
        hops += 1
    if isinstance(src, Agg) and src.kind == 'seqio-src':
        path = src.fields[0]
    else:
        path = ''.join(ch if isinstance(ch, str) else chr(I.conc(ch)) for ch in deref_all(I, src).chars)
    fmt, recs = I.files[path]
    r = Agg('seqio-reader', 0, [list(recs), 0])
    return _ok(r) if (t.callee.name or '').endswith('from_path') else r


@add('seq_io::fasta::Reader::next')
def m_seqio_next(I, a, t, c):
    r = I.load(a[0])
    recs, pos = r.fields
    if pos >= len(recs):
        return NONE
    I.store(a[0], Agg('seqio-reader', 0, [recs, pos + 1]))
    rid, seq, _q = recs[pos]
    return some(_ok(Agg('seqio-record', 0, [rid, seq])))


@add('<seq_io::fasta::RefRecord as seq_io::fasta::Record>::seq', 'seq_io::fasta::Record::seq', '<seq_io::fasta::OwnedRecord as seq_io::fasta::Record>::seq')
def m_seqio_seq(I, a, t, c):
    r = deref_all(I, a[0])
    s = r.fields[1]
    return RefV(Cell(Agg('array', 0, [BV(8, ord(ch)) for ch in s]), 'seqio-seq'), (), (0, len(s)))


@add('<seq_io::fasta::RefRecord as seq_io::fasta::Record>::id', 'seq_io::fasta::Record::id', '<seq_io::fasta::OwnedRecord as seq_io::fasta::Record>::id')
def m_seqio_id(I, a, t, c):
    r = deref_all(I, a[0])
    return _ok(RefV(Cell(StrV(list(r.fields[0].split()[0] if r.fields[0] else '')), 'seqio-id')))


# ---------------------------------------------------------------------------------------------------- arithmetic operator traits through references
#      (`a - *b` written as `a - b` with b: &u32 resolves to <u32 as Sub<&u32>>::sub etc.; debug-profile semantics: overflow panics)
def _ref_arith():
    ops = {'Add': ('add', lambda x, y: x + y), 'Sub': ('sub', lambda x, y: x - y), 'Mul': ('mul', lambda x, y: x * y),
           'Div': ('div', None), 'Rem': ('rem', None)}
    for ty, (w, signed) in INTS.items():
        lo = -(1 << (w - 1)) if signed else 0
        hi = (1 << (w - 1)) - 1 if signed else (1 << w) - 1

        def val(I, x, signed=signed):
            x = deref_all(I, x) if isinstance(x, RefV) else x
            return x.sval() if signed else I.conc(x)

        def mk(v, w=w, signed=signed):
            return BV(w, v & ((1 << w) - 1), signed=signed) if signed else BV(w, v & ((1 << w) - 1))
        for tr, (m, f) in ops.items():
            def binop(I, a, t, c, tr=tr, f=f, val=val, mk=mk, lo=lo, hi=hi):
                x, y = val(I, a[0]), val(I, a[1])
                if tr in ('Div', 'Rem'):
                    if y == 0:
                        raise Panic('DivisionByZero' if tr == 'Div' else 'RemainderByZero', '', repr(t.span))
                    q = (abs(x) // abs(y)) * (1 if (x >= 0) == (y >= 0) else -1)
                    r = q if tr == 'Div' else x - y * q
                else:
                    r = f(x, y)
                if not lo <= r <= hi:
                    raise Panic('Overflow:%s' % tr, '%d %s %d' % (x, tr, y), repr(t.span))
                return mk(r)

            def assign(I, a, t, c, binop=binop):
                I.store(a[0], binop(I, [I.load(a[0]), a[1]], t, c))
                return UNIT
            for l, r in (('&' + ty, ty), (ty, '&' + ty), ('&' + ty, '&' + ty)):
                MODELS.setdefault('<%s as std::ops::%s<%s>>::%s' % (l, tr, r, m), binop)
            MODELS.setdefault('<%s as std::ops::%sAssign<&%s>>::%s_assign' % (ty, tr, ty, m), assign)


_ref_arith()



# ---------------------------------------------------------------------------------------------------- hash_map::Entry matched by hand
from .interp import _entry, _mkey  # noqa: E402


@add('hashbrown::hash_map::OccupiedEntry::get_mut', 'hashbrown::hash_map::OccupiedEntry::into_mut', 'hashbrown::hash_map::OccupiedEntry::get')
def m_occ_get(I, a, t, c):
    m, k, _ = _entry(I, a[0])
    return RefV(m.d[k][1])


@add('hashbrown::hash_map::OccupiedEntry::insert')
def m_occ_insert(I, a, t, c):
    m, k, kv = _entry(I, a[0])
    old = m.d[k][1].v
    m.d[k][1].v = a[1]
    return old


@add('hashbrown::hash_map::OccupiedEntry::remove')
def m_occ_remove(I, a, t, c):
    m, k, kv = _entry(I, a[0])
    return m.d.pop(k)[1].v


@add('hashbrown::hash_map::OccupiedEntry::key', 'hashbrown::hash_map::VacantEntry::key', 'hashbrown::hash_map::Entry::key')
def m_entry_key(I, a, t, c):
    m, k, kv = _entry(I, a[0])
    return RefV(Cell(kv, 'entry-key'))


@add('hashbrown::hash_map::VacantEntry::insert')
def m_vac_insert(I, a, t, c):
    m, k, kv = _entry(I, a[0])
    m.d[k] = (kv, Cell(a[1], 'mapval'))
    return RefV(m.d[k][1])


@add('hashbrown::hash_map::Entry::or_default')
def m_entry_or_default(I, a, t, c):
    raise Unsupported('Entry::or_default (value type unknown to the model)')


@add('hashbrown::hash_map::Entry::or_insert_with_key')
def m_entry_or_insert_with_key(I, a, t, c):
    m, k, kv = _entry(I, a[0])
    if k not in m.d:
        m.d[k] = (kv, Cell(I.call_closure(a[1], [RefV(Cell(kv, 'entry-key'))]), 'mapval'))
    return RefV(m.d[k][1])


# ---------------------------------------------------------------------------------------------------- Peekable::next_if / next_if_eq / peek_mut
def _peek_state(I, r):
    itv = I.load(r)
    items = _iter_items(I, itv)
    return items


@add('std::iter::Peekable::next_if_eq', 'std::iter::Peekable::<I>::next_if_eq')
def m_next_if_eq(I, a, t, c):
    from .interp import _deep_eq
    items = _peek_state(I, a[0])
    if items and _deep_eq(I, items[0], a[1]):
        I.store(a[0], Agg('iter', 0, [items[1:], 0]))
        return some(items[0])
    return NONE


@add('std::iter::Peekable::next_if', 'std::iter::Peekable::<I>::next_if')
def m_next_if(I, a, t, c):
    items = _peek_state(I, a[0])
    if items and _pred(I, a[1], items[0]):
        I.store(a[0], Agg('iter', 0, [items[1:], 0]))
        return some(items[0])
    return NONE


# ---------------------------------------------------------------------------------------------------- [[T]]::concat, [T]::repeat
@add('std::slice::<impl [T]>::concat', 'alloc::slice::<impl [T]>::concat', 'std::slice::<impl [V]>::concat')
def m_slice_concat(I, a, t, c):
    out = []
    strs = True
    for part in _iter_items(I, a[0]):
        p = deref_all(I, part) if isinstance(part, RefV) and part.win is None else part
        if isinstance(p, StrV):
            out.extend(p.chars)
        else:
            strs = False
            out.extend(deref_all(I, x) if isinstance(x, RefV) else x for x in _iter_items(I, part))
    return StrV(out) if strs and out else Agg('array', 0, out)


@add('std::slice::<impl [T]>::repeat', 'alloc::slice::<impl [T]>::repeat')
def m_slice_repeat(I, a, t, c):
    vals = [deref_all(I, x) if isinstance(x, RefV) else x for x in _iter_items(I, a[0])]
    return Agg('array', 0, vals * I.conc(a[1]))


# ---------------------------------------------------------------------------------------------------- ndarray::axis_chunks_iter, seq_io owned_seq
@add('ndarray::impl_methods::<impl ndarray::ArrayBase<S, D>>::axis_chunks_iter')
def m_nd_axis_chunks_iter(I, a, t, c):
    from .interp import _axis, _view1
    n, vals = _nd_or_vals(I, a[0])
    ax = _axis(I, a[1])
    size = I.conc(a[2])
    if size == 0:
        raise Panic('panic', 'axis_chunks_iter: chunk size 0', repr(t.span))
    if n is None:
        return Agg('iter', 0, [[_view1(vals[i:i + size]) for i in range(0, len(vals), size)], 0])
    if ax == 0:
        return Agg('iter', 0, [[Nd2(n.rows[i:i + size], n.ncols) for i in range(0, len(n.rows), size)], 0])
    return Agg('iter', 0, [[Nd2([r[i:i + size] for r in n.rows], len(n.rows[0][i:i + size]) if n.rows else 0) for i in range(0, n.ncols, size)], 0])


@add('seq_io::fasta::RefRecord::owned_seq', 'seq_io::fasta::Record::owned_seq', '<seq_io::fasta::RefRecord as seq_io::fasta::Record>::owned_seq')
def m_seqio_owned_seq(I, a, t, c):
    r = deref_all(I, a[0])
    return Agg('array', 0, [BV(8, ord(ch)) for ch in r.fields[1] if ch not in '\r\n'])


# ---------------------------------------------------------------------------------------------------- further rayon adaptors (sequential, index-ordered schedule)
from . import interp as _M  # noqa: E402


def _par(name):
    return add('rayon::iter::ParallelIterator::' + name, 'rayon::iter::IndexedParallelIterator::' + name)


@_par('reduce')
def m_par_reduce(I, a, t, c):
    acc = I.call_closure(a[1], [])
    for x in _iter_items(I, a[0]):
        acc = I.call_closure(a[2], [acc, x])
    return acc


@_par('reduce_with')
def m_par_reduce_with(I, a, t, c):
    items = _iter_items(I, a[0])
    if not items:
        return NONE
    acc = items[0]
    for x in items[1:]:
        acc = I.call_closure(a[1], [acc, x])
    return some(acc)


@_par('fold')
def m_par_fold(I, a, t, c):
    acc = I.call_closure(a[1], [])
    for x in _iter_items(I, a[0]):
        acc = I.call_closure(a[2], [acc, x])
    return Agg('iter', 0, [[acc], 0])           # one fold result per "split": a single split in the sequential schedule


@_par('sum')
def m_par_sum(I, a, t, c):
    return MODELS['std::iter::Iterator::sum'](I, a, t, c)


@_par('count')
def m_par_count(I, a, t, c):
    return BV(64, len(_iter_items(I, a[0])))


for _nm in ('filter', 'filter_map', 'flat_map', 'any', 'all', 'copied', 'cloned', 'min_by_key', 'max_by_key', 'chain', 'take', 'skip', 'rev', 'inspect', 'flatten', 'position_any', 'find_any', 'find_first'):
    _std = {'position_any': 'position', 'find_any': 'find', 'find_first': 'find'}.get(_nm, _nm)
    if 'std::iter::Iterator::' + _std in MODELS:
        for _pre in ('rayon::iter::ParallelIterator::', 'rayon::iter::IndexedParallelIterator::'):
            MODELS.setdefault(_pre + _nm, MODELS['std::iter::Iterator::' + _std])


@add('rayon::iter::IntoParallelIterator::into_par_iter', '<I as rayon::iter::IntoParallelIterator>::into_par_iter')
def m_into_par_iter(I, a, t, c):
    return _M.m_into_iter(I, a, t, c)


@add('rayon::slice::ParallelSlice::par_chunks', 'rayon::slice::ParallelSliceMut::par_chunks_mut')
def m_par_chunks(I, a, t, c):
    return _M._chunks(I, a, False)


@add('rayon::slice::ParallelSlice::par_chunks_exact', 'rayon::slice::ParallelSliceMut::par_chunks_exact_mut')
def m_par_chunks_exact(I, a, t, c):
    return _M._chunks(I, a, True)



# ---------------------------------------------------------------------------------------------------- OnceLock / OnceCell / LazyLock, slice::from_ref
@add('std::sync::OnceLock::new', 'std::sync::OnceLock::<T>::new', 'std::cell::OnceCell::new', 'std::cell::OnceCell::<T>::new')
def m_once_new(I, a, t, c):
    return Agg('once', 0, [NONE])


@add('std::sync::OnceLock::get_or_init', 'std::sync::OnceLock::<T>::get_or_init', 'std::cell::OnceCell::get_or_init', 'std::cell::OnceCell::<T>::get_or_init')
def m_once_get_or_init(I, a, t, c):
    r = a[0]
    v = I.load(r) if isinstance(r, RefV) else r
    if isinstance(v, Agg) and v.kind == 'once' and isinstance(r, RefV):
        if v.fields[0].variant == 0:
            I.store(r, Agg('once', 0, [some(I.call_closure(a[1], []))]))
        return RefV(r.cell, r.path + (0, 0))
    # a `static` whose initial value the facts do not carry: one cell per static, kept on the interpreter
    store = I.__dict__.setdefault('_once_cells', {})
    k = repr(v)
    if k not in store:
        store[k] = Cell(I.call_closure(a[1], []), 'once-static')
    return RefV(store[k])


@add('std::sync::OnceLock::get', 'std::sync::OnceLock::<T>::get', 'std::cell::OnceCell::get')
def m_once_get(I, a, t, c):
    r = a[0]
    v = I.load(r) if isinstance(r, RefV) else r
    if isinstance(v, Agg) and v.kind == 'once':
        return some(RefV(r.cell, r.path + (0, 0))) if v.fields[0].variant == 1 else NONE
    store = I.__dict__.setdefault('_once_cells', {})
    k = repr(v)
    return some(RefV(store[k])) if k in store else NONE


@add('std::slice::from_ref', 'core::slice::from_ref')
def m_slice_from_ref(I, a, t, c):
    r = a[0]
    return RefV(Cell(Agg('array', 0, [deref_all(I, r)]), 'from_ref'), (), (0, 1))


@add('std::slice::from_mut', 'core::slice::from_mut')
def m_slice_from_mut(I, a, t, c):
    raise Unsupported('slice::from_mut (aliasing of the original cell is not modelled)')


# ---------------------------------------------------------------------------------------------------- ndarray mapv
@add('ndarray::impl_methods::<impl ndarray::ArrayBase<S, D>>::mapv')
def m_nd_mapv(I, a, t, c):
    n, vals = _nd_or_vals(I, a[0])
    if n is None:
        return Agg('array', 0, [I.call_closure(a[1], [x]) for x in vals])
    return Nd2([[I.call_closure(a[1], [x]) for x in row] for row in n.rows], n.ncols)


# ---------------------------------------------------------------------------------------------------- str::parse::<prim>
def _f32(x):
    import struct as _st
    try:
        return _st.unpack('<f', _st.pack('<f', x))[0]
    except OverflowError:
        return math.inf if x > 0 else -math.inf


def m_str_parse_prim(I, a, t, c):
    """`s.parse::<T>()` for the primitive targets a command-line value parser uses: the grammar of FromStr for f64 / f32 (decimal,
    exponent, inf / infinity / nan, no surrounding blanks) and for the integer types (optional sign, digits, range-checked);
    an f32 target rounds to the nearest single-precision value."""
    import re as _re
    from .interp import StrV, _norm_chars
    ty = I.resolve_ty(c.gargs[0]) if c and c.gargs else None
    sv = deref_all(I, a[0]) if isinstance(a[0], RefV) else a[0]
    if not isinstance(sv, StrV):
        raise Unsupported('str::parse on %r' % (sv,))
    chars = _norm_chars(sv.chars)
    if not all(isinstance(ch, str) for ch in chars):
        raise Unsupported('str::parse on a symbolic string')
    txt = ''.join(chars)
    if ty in ('f64', 'f32'):
        if _re.match(r'^[+-]?((\d+\.?\d*|\.\d+)([eE][+-]?\d+)?|inf|infinity|nan)$', txt, _re.I) and not _re.match(r'^[+-]?\.?([eE]|$)', txt):
            v = float(txt)
            return _ok(_f32(v) if ty == 'f32' else v)
        return _err(Opaque(('ParseFloatError', txt)))
    if ty in INTS:
        w, signed = INTS[ty]
        if _re.match(r'^[+-]?\d+$' if signed else r'^\+?\d+$', txt):
            v = int(txt)
            lo, hi = (-(1 << (w - 1)), (1 << (w - 1)) - 1) if signed else (0, (1 << w) - 1)
            if lo <= v <= hi:
                return _ok(BV(w, v & ((1 << w) - 1), signed=signed) if signed else BV(w, v))
        return _err(Opaque(('ParseIntError', txt)))
    raise Unsupported('str::parse::<%s>' % ty)


def _m_float_from(I, a, t, c):
    v = deref_all(I, a[0]) if isinstance(a[0], RefV) else a[0]
    x = float(v.sval() if getattr(v, 'signed', False) else I.conc(v)) if isinstance(v, BV) else float(v)
    return _f32(x) if (c.name or '').endswith('for f32>::from') else x


for _src in ('f32', 'u8', 'u16', 'u32', 'i8', 'i16', 'i32', 'bool'):
    MODELS.setdefault('std::convert::num::<impl std::convert::From<%s> for f64>::from' % _src, _m_float_from)
for _src in ('u8', 'u16', 'i8', 'i16', 'bool'):
    MODELS.setdefault('std::convert::num::<impl std::convert::From<%s> for f32>::from' % _src, _m_float_from)


@add('std::ops::Range::contains', 'std::ops::Range::<Idx>::contains')
def m_range_contains(I, a, t, c):
    r = deref_all(I, a[0]) if isinstance(a[0], RefV) else a[0]
    x = deref_all(I, a[1]) if isinstance(a[1], RefV) else a[1]
    lo, hi = r.fields[0], r.fields[1]
    if isinstance(x, float) or isinstance(lo, float):
        return bv_bool(float(lo) <= float(x) < float(hi))
    return bv_bool(I.conc(lo) <= I.conc(x) < I.conc(hi))
