"""Abstract interpreter over the extracted MIR (engines K6 / K7).

Evaluates crate bodies over the value domain of values.py.  Integers may carry symbolic bits;
control flow must be decided by concrete values, otherwise the run forks through a replayed
decision list (Interp.explore).  Library calls are modelled by name (MODELS); anything not
modelled raises Unsupported, which rules turn into anchor-lost (fail closed).
"""
import math
import struct

from ..facts import AnchorLost, Place
from .values import (BV, XorSet, Agg, RefV, Cell, Opaque, StrV, UNIT, TOP, bv_bool, bv_const, SparseFields)


class Unsupported(AnchorLost):
    pass


class Panic(Exception):
    def __init__(self, kind, msg='', where=''):
        Exception.__init__(self, '%s: %s @ %s' % (kind, msg, where))
        self.kind = kind
        self.msg = msg
        self.where = where


class NeedDecision(Exception):
    pass


INT_W = {'u8': 8, 'u16': 16, 'u32': 32, 'u64': 64, 'u128': 128, 'usize': 64,
         'i8': 8, 'i16': 16, 'i32': 32, 'i64': 64, 'i128': 128, 'isize': 64, 'bool': 1, 'char': 32}


class Interp:
    def __init__(self, facts, subst=None, max_steps=3_000_000):
        self.facts = facts
        self.subst = dict(subst or {})
        if 'IntT' in self.subst and 'Self' not in self.subst:
            self.subst['Self'] = self.subst['IntT']   # default bodies of the UInt trait
        self.max_steps = max_steps
        self.steps = 0
        self.decisions = []
        self.dpos = 0
        self.trace = []          # (tag, payload) events recorded by models / hooks
        self.assert_unknown = [] # asserts whose condition was not decidable
        self.hooks = {}          # callee name -> fn(I, args) called before the call (observation)
        self.overrides = {}      # callee name -> model replacing the body
        self.depth = 0

    # ------------------------------------------------------------------ types
    def resolve_ty(self, ty):
        return self.subst.get(ty, ty)

    def int_info(self, ty):
        ty = self.resolve_ty(ty)
        if ty in INT_W:
            return INT_W[ty], ty.startswith('i')
        return None

    def width(self, ty):
        ii = self.int_info(ty)
        if ii is None:
            raise Unsupported('not an integer type: %s' % ty)
        return ii[0]

    # ------------------------------------------------------------------ memory
    def load(self, ref):
        v = ref.cell.v
        for p in ref.path:
            if isinstance(p, tuple) and p[0] == 'sym':
                v = self.sym_lookup(v, p[1])
            elif isinstance(p, tuple) and p[0] == 'nd':
                if type(v).__name__ != 'Nd2':
                    raise Unsupported('2-D index into %r' % (v,))
                if p[1] >= len(v.rows) or p[2] >= v.ncols:
                    raise Panic('ndarray-index', 'index (%d, %d) out of (%d, %d)' % (p[1], p[2], len(v.rows), v.ncols))
                v = v.rows[p[1]][p[2]]
            elif isinstance(v, Agg):
                if p >= len(v.fields):
                    raise Panic('BoundsCheck', 'index %d out of %d' % (p, len(v.fields)))
                v = v.fields[p]
            else:
                raise Unsupported('load through non-aggregate %r at %r' % (v, ref))
        if ref.win is not None:
            s, n = ref.win
            if not isinstance(v, Agg):
                raise Unsupported('slice window over %r' % (v,))
            return Agg('array', 0, v.fields[s:s + n])
        return v

    def store(self, ref, val):
        if ref.win is not None:
            raise Unsupported('store to whole slice')
        ref.cell.v = self._set(ref.cell.v, ref.path, val)

    def _set(self, v, path, val):
        if not path:
            return val
        if v is None:
            v = Agg('uninit', 0, [])          # writing a field of not-yet-initialised memory (MaybeUninit)
        if isinstance(path[0], tuple) and path[0][0] == 'nd':
            _, i, j = path[0]
            if i >= len(v.rows) or j >= v.ncols:
                raise Panic('ndarray-index', 'index (%d, %d) out of (%d, %d)' % (i, j, len(v.rows), v.ncols))
            rows = [list(r) for r in v.rows]
            rows[i][j] = self._set(rows[i][j], path[1:], val)
            return type(v)(rows, v.ncols)
        if not isinstance(v, Agg):
            raise Unsupported('store through non-aggregate %r' % (v,))
        if isinstance(v.fields, SparseFields):
            return Agg(v.kind, v.variant, v.fields.with_item(path[0], self._set(v.fields[path[0]], path[1:], val)))
        f = list(v.fields)
        while len(f) <= path[0]:
            f.append(None)
        f[path[0]] = self._set(f[path[0]], path[1:], val)
        return Agg(v.kind, v.variant, f)

    def place_ref(self, fr, pl):
        ref = RefV(fr[pl.local], ())
        for p in pl.proj:
            k = p['k']
            if k == 'deref':
                v = self.load(ref)
                if isinstance(v, Agg) and v.kind == 'box':
                    v = v.fields[0]
                    if isinstance(v, Agg) and v.kind == 'unique':
                        v = v.fields[0]
                if not isinstance(v, RefV):
                    raise Unsupported('deref of non-reference %r' % (v,))
                ref = v
            elif k == 'field':
                ref = RefV(ref.cell, ref.path + (p['i'],))
            elif k == 'index':
                iv = fr[p['local']].v
                if isinstance(iv, BV) and iv.val is None:
                    ref = RefV(ref.cell, ref.path + (('sym', iv),))
                    continue
                i = self.conc(iv, 'index')
                if ref.win is not None:
                    if i >= ref.win[1]:
                        raise Panic('BoundsCheck', 'index %d len %d' % (i, ref.win[1]))
                    ref = RefV(ref.cell, ref.path + (ref.win[0] + i,))
                else:
                    ref = RefV(ref.cell, ref.path + (i,))
            elif k == 'constidx':
                i = p['offset']
                base = ref.win[0] if ref.win else 0
                ref = RefV(ref.cell, ref.path + (base + i,))
            elif k == 'downcast':
                v = self.load(ref)
                if isinstance(v, Agg) and v.variant != p['variant']:
                    raise Unsupported('downcast to variant %s of %r' % (p['variant'], v))
            else:
                raise Unsupported('projection %s' % k)
        return ref

    def sym_lookup(self, table, iv):
        """TABLE[i] with i a symbolic 2-bit atom pair: an XOR-set term (ntHash domain)"""
        b = iv.bits
        if (isinstance(table, Agg) and table.kind == 'array' and len(table.fields) == 4
                and all(isinstance(x, BV) and x.w == 64 and x.val is not None for x in table.fields)
                and isinstance(b[0], tuple) and isinstance(b[1], tuple) and b[0][0] == 'v' and b[1][0] == 'v'
                and b[0][1].endswith('.0') and b[1][1].endswith('.1') and b[0][1][:-2] == b[1][1][:-2]
                and all(x == 0 for x in b[2:])):
            return XorSet([(tuple(x.val for x in table.fields), b[0][1][:-2], 0)])
        raise Unsupported('symbolic index %r into %r' % (iv, table))

    def conc(self, v, what=''):
        if isinstance(v, BV) and v.val is not None:
            return v.val
        raise Unsupported('symbolic value where a concrete one is needed (%s): %r' % (what, v))

    # ------------------------------------------------------------------ operands
    def const(self, j):
        ty = j['ty']
        if 'fn' in j:
            return Opaque(('fn', j['fn'], j.get('fn_full')))
        if 'bits' in j:
            v = int(j['bits'])
            rty = self.resolve_ty(ty)
            if rty == 'f64':
                return struct.unpack('<d', v.to_bytes(8, 'little'))[0]
            if rty == 'f32':
                return struct.unpack('<f', v.to_bytes(4, 'little'))[0]
            ii = self.int_info(ty)
            if ii:
                return BV(ii[0], v, signed=ii[1])
            # C-like enum constant / newtype scalar
            return self.scalar_of_ty(ty, v, int(j.get('size', 1)))
        if 'str' in j:
            return RefV(Cell(StrV(list(j['str'])), 'strlit'))
        if 'def' in j:
            if 'promoted' in j:
                pb = self.facts.bodies.get('%s::{promoted#%d}' % (j['def'], j['promoted']))
                if pb is None:
                    raise Unsupported('promoted body %s#%s missing' % (j['def'], j['promoted']))
                return self.exec_body(pb, [])
            return self.const_item(j['def'], ty)
        if 'zst' in j:
            return UNIT if ty == '()' else Opaque(('zst', ty))
        if 'hex' in j:
            return self.decode_bytes(bytes.fromhex(j['hex']), ty)
        if 'ptr' in j:
            if ty.startswith('&[u8;') and j.get('pointee_hex') is not None:
                return RefV(Cell(Agg('array', 0, [BV(8, b) for b in bytes.fromhex(j['pointee_hex'])]), 'constbytes'))
            return RefV(Cell(Opaque(('bytes', j.get('pointee_hex', '')[:32])), 'constmem'))
        raise Unsupported('constant %r' % (j,))

    def scalar_of_ty(self, ty, v, size):
        adt = self.facts.adts.get(ty)
        if adt and adt['kind'] == 'enum':
            for i, var in enumerate(adt['variants']):
                if int(var['discr']) == v and not var['fields']:
                    return Agg('adt:' + ty, i, [])
        if ty == 'std::cmp::Ordering':
            sv = v - 256 if v > 127 else v
            return Agg('adt:std::cmp::Ordering', {-1: 0, 0: 1, 1: 2}[sv], [])
        return BV(size * 8, v)

    def const_item(self, path, ty):
        c = self.facts.consts.get(path)
        if c is None and path.startswith('noodles_vcf::'):
            return Agg('sym:const:' + path.split('::')[-1], 0, [])
        if c is None and path.endswith('SizedTypeProperties::SIZE'):
            return BV(64, 8)       # only compared with 0 in the null-pointer check
        if c is None and path.endswith('SizedTypeProperties::ALIGN'):
            return BV(64, 8)       # type-dependent alignment used only in the compiler-inserted pointer checks (modelled pointers are 0x10000)
        if c is None:
            raise Unsupported('const item %s not in facts' % path)
        if 'hex' in c:
            return self.decode_bytes(bytes.fromhex(c['hex']), c['ty'])
        if 'bits' in c:
            ii = self.int_info(c['ty'])
            v = int(c['bits'])
            if c['ty'] == 'f64':
                return struct.unpack('<d', v.to_bytes(8, 'little'))[0]
            if ii:
                return BV(ii[0], v, signed=ii[1])
            return self.scalar_of_ty(c['ty'], v, int(c['size']))
        raise Unsupported('const item %s has no value' % path)

    def decode_bytes(self, b, ty):
        ty = ty.strip()
        if ty.startswith('[') and ';' in ty:
            ety, n = ty[1:-1].rsplit(';', 1)
            n = int(n)
            es = len(b) // n if n else 0
            return Agg('array', 0, [self.decode_bytes(b[i * es:(i + 1) * es], ety) for i in range(n)])
        ii = self.int_info(ty)
        if ii:
            return BV(ii[0], int.from_bytes(b, 'little'), signed=ii[1])
        if ty == 'f64':
            return struct.unpack('<d', b)[0]
        if ty == 'f32':
            return struct.unpack('<f', b)[0]
        if ty == 'bool':
            return BV(1, b[0] & 1)
        if ty.startswith('std::option::Option<') and ty.endswith('>'):
            inner = ty[len('std::option::Option<'):-1].strip()
            if inner in ('f64', 'f32', 'bool') or self.int_info(inner):
                # tag word (same size as the payload for these scalars) followed by the payload
                half = len(b) // 2
                if int.from_bytes(b[:half], 'little') == 0:
                    return Agg('adt:std::option::Option', 0, [])
                return Agg('adt:std::option::Option', 1, [self.decode_bytes(b[half:], inner)])
        raise Unsupported('decode const of type %s' % ty)

    def operand(self, fr, op):
        if op.k in ('copy', 'move'):
            return self.load(self.place_ref(fr, op.place))
        if op.k == 'const':
            return self.const(op.j)
        raise Unsupported('operand %r' % (op,))

    # ------------------------------------------------------------------ rvalues
    def binop(self, op, a, b, where=''):
        if isinstance(a, float) or isinstance(b, float):
            return self.fbinop(op, a, b)
        if isinstance(a, XorSet) or isinstance(b, XorSet):
            if op == 'BitXor':
                return a.xor(b) if isinstance(a, XorSet) else b.xor(a)
            if op in ('Eq', 'Ne') and isinstance(a, XorSet) and isinstance(b, XorSet):
                r = a == b
                if not r:
                    return BV(1, bits=[TOP])
                return bv_bool(r if op == 'Eq' else not r)
            if op in ('Lt', 'Le', 'Gt', 'Ge'):
                return BV(1, bits=[TOP])
            raise Unsupported('XorSet under %s' % op)
        if isinstance(a, Agg) and isinstance(b, Agg) and op in ('Eq', 'Ne'):
            r = _deep_eq(self, a, b)
            return bv_bool(r if op == 'Eq' else not r)
        if not (isinstance(a, BV) and isinstance(b, BV)):
            raise Unsupported('binop %s on %r, %r' % (op, a, b))
        w = a.w
        if op in ('BitAnd', 'BitOr', 'BitXor'):
            if b.w != w:
                raise Unsupported('width mismatch in %s' % op)
            return {'BitAnd': a.band, 'BitOr': a.bor, 'BitXor': a.bxor}[op](b)
        if op in ('Shl', 'Shr', 'ShlUnchecked', 'ShrUnchecked'):
            if b.val is None:
                return a.top()
            n = b.sval() if b.signed else b.val
            # MIR Shl/Shr mask the shift amount (the overflow Assert precedes it in debug builds)
            n &= (w - 1)
            return a.shl(n) if op.startswith('Shl') else a.shr(n)
        if op in ('Eq', 'Ne'):
            r = a.eq3(b)
            if r is None:
                return BV(1, bits=[TOP])
            return bv_bool(r if op == 'Eq' else not r)
        if op in ('Lt', 'Le', 'Gt', 'Ge'):
            if a.val is None or b.val is None:
                if a.key() == b.key() and not a.has_top():
                    return bv_bool(op in ('Le', 'Ge'))
                if not a.signed and not b.signed:
                    # interval reasoning from known bits
                    amin = sum(1 << i for i, x in enumerate(a.bitlist()) if x == 1)
                    amax = sum(1 << i for i, x in enumerate(a.bitlist()) if x != 0)
                    bmin = sum(1 << i for i, x in enumerate(b.bitlist()) if x == 1)
                    bmax = sum(1 << i for i, x in enumerate(b.bitlist()) if x != 0)
                    if op == 'Lt' and amax < bmin: return bv_bool(True)
                    if op == 'Lt' and amin >= bmax: return bv_bool(False)
                    if op == 'Le' and amax <= bmin: return bv_bool(True)
                    if op == 'Le' and amin > bmax: return bv_bool(False)
                    if op == 'Gt' and amin > bmax: return bv_bool(True)
                    if op == 'Gt' and amax <= bmin: return bv_bool(False)
                    if op == 'Ge' and amin >= bmax: return bv_bool(True)
                    if op == 'Ge' and amax < bmin: return bv_bool(False)
                return BV(1, bits=[TOP])
            x, y = a.sval(), b.sval()
            return bv_bool({'Lt': x < y, 'Le': x <= y, 'Gt': x > y, 'Ge': x >= y}[op])
        if op == 'Cmp':
            if a.val is None or b.val is None:
                raise Unsupported('symbolic Cmp')
            x, y = a.sval(), b.sval()
            return Agg('adt:std::cmp::Ordering', 0 if x < y else (1 if x == y else 2), [])
        base = op.replace('WithOverflow', '').replace('Unchecked', '')
        if base in ('Add', 'Sub', 'Mul', 'Div', 'Rem'):
            if a.val is None or b.val is None:
                # x + 0, x * 1, x - 0 stay exact; everything else loses all bits
                if base in ('Add', 'Sub') and b.val == 0:
                    res, ov = a, bv_bool(False)
                elif base == 'Add' and a.val == 0:
                    res, ov = b, bv_bool(False)
                else:
                    res, ov = a.top(), BV(1, bits=[TOP])
            else:
                x, y = a.sval(), b.sval()
                if base in ('Div', 'Rem') and y == 0:
                    raise Panic('DivisionByZero', '', where)
                r = {'Add': lambda: x + y, 'Sub': lambda: x - y, 'Mul': lambda: x * y,
                     'Div': lambda: abs(x) // abs(y) * (1 if (x < 0) == (y < 0) else -1),
                     'Rem': lambda: abs(x) % abs(y) * (1 if x >= 0 else -1)}[base]()
                lo, hi = (-(1 << (w - 1)), (1 << (w - 1)) - 1) if a.signed else (0, (1 << w) - 1)
                ov = bv_bool(not (lo <= r <= hi))
                res = BV(w, r, signed=a.signed)
            if op.endswith('WithOverflow'):
                return Agg('tuple', 0, [res, ov])
            return res
        raise Unsupported('binop %s' % op)

    def fbinop(self, op, a, b):
        a = float(a) if not isinstance(a, BV) else float(a.sval())
        b = float(b) if not isinstance(b, BV) else float(b.sval())
        if op == 'Add': return a + b
        if op == 'Sub': return a - b
        if op == 'Mul': return a * b
        if op == 'Div':
            if b == 0.0:
                return float('nan') if a == 0.0 else math.copysign(float('inf'), a)
            return a / b
        if op in ('Eq', 'Ne', 'Lt', 'Le', 'Gt', 'Ge'):
            return bv_bool({'Eq': a == b, 'Ne': a != b, 'Lt': a < b, 'Le': a <= b, 'Gt': a > b, 'Ge': a >= b}[op])
        raise Unsupported('float binop %s' % op)

    def cast(self, v, ty, kind):
        rty = self.resolve_ty(ty)
        if isinstance(v, Opaque) and kind in ('IntToInt',):
            return v        # symbolic token (e.g. decoded character) survives `as char`
        if kind == 'IntToInt':
            ii = self.int_info(ty)
            if isinstance(v, Agg) and v.kind.startswith('adt:'):
                adt = self.facts.adts.get(v.kind[4:])
                d = int(adt['variants'][v.variant]['discr']) if adt else v.variant
                return BV(ii[0], d, signed=ii[1])
            if isinstance(v, XorSet):
                if ii[0] == 64:
                    return v
                raise Unsupported('cast of XorSet')
            return v.cast(ii[0], ii[1])
        if kind == 'IntToFloat':
            return float(v.sval())
        if kind == 'FloatToInt':
            ii = self.int_info(ty)
            if v != v:
                r = 0
            else:
                lo, hi = (-(1 << (ii[0] - 1)), (1 << (ii[0] - 1)) - 1) if ii[1] else (0, (1 << ii[0]) - 1)
                r = max(lo, min(hi, int(v))) if not math.isinf(v) else (hi if v > 0 else lo)
            return BV(ii[0], r, signed=ii[1])
        if kind == 'FloatToFloat':
            if self.resolve_ty(ty) == 'f32' and isinstance(v, float) and v == v and not math.isinf(v):
                try:
                    return struct.unpack('<f', struct.pack('<f', v))[0]       # f64 -> f32 rounds to nearest
                except OverflowError:
                    return math.inf if v > 0 else -math.inf
            return v
        if kind.startswith('PointerCoercion(Unsize'):
            if isinstance(v, RefV) and v.win is None:
                t = self.load(v)
                if isinstance(t, Agg) and t.kind == 'array':
                    return RefV(v.cell, v.path, (0, len(t.fields)))
            return v
        if kind in ('Transmute', 'PointerExposeProvenance') and isinstance(v, RefV) and self.int_info(ty):
            # pointer-to-integer (alignment / null checks the compiler inserts): every modelled allocation is non-null and aligned
            return BV(self.int_info(ty)[0], 0x10000)
        if kind.startswith('PointerCoercion') or kind in ('PtrToPtr', 'Transmute', 'Subtype'):
            return v
        raise Unsupported('cast kind %s' % kind)

    def rvalue(self, fr, rv, where=''):
        k = rv.k
        if k == 'use':
            return self.operand(fr, rv.ops[0])
        if k == 'binop':
            return self.binop(rv.op, self.operand(fr, rv.ops[0]), self.operand(fr, rv.ops[1]), where)
        if k == 'unop':
            v = self.operand(fr, rv.ops[0])
            if rv.op == 'Not':
                return v.bnot()
            if rv.op == 'Neg':
                if isinstance(v, float):
                    return -v
                if v.val is None:
                    return v.top()
                return BV(v.w, -v.sval(), signed=v.signed)
            if rv.op == 'PtrMetadata':
                if isinstance(v, RefV) and v.win is not None:
                    return BV(64, v.win[1])
                raise Unsupported('PtrMetadata of %r' % (v,))
            raise Unsupported('unop %s' % rv.op)
        if k == 'cast':
            return self.cast(self.operand(fr, rv.ops[0]), rv.j['ty'], rv.j['kind'])
        if k in ('ref', 'rawptr'):
            return self.place_ref(fr, rv.place)
        if k == 'copyforderef':
            return self.load(self.place_ref(fr, rv.place))
        if k == 'discr':
            v = self.load(self.place_ref(fr, rv.place))
            return self.discriminant(v)
        if k == 'aggregate':
            kd = rv.j['kind']
            ops = [self.operand(fr, o) for o in rv.ops]
            if kd['k'] == 'adt':
                if kd.get('active') is not None:
                    raise Unsupported('union aggregate')
                return Agg('adt:' + kd['adt'], kd['variant'], ops)
            if kd['k'] == 'closure':
                return Agg('closure:' + kd['def'], 0, ops)
            if kd['k'] in ('tuple', 'array'):
                return Agg(kd['k'], 0, ops)
            raise Unsupported('aggregate %r' % (kd,))
        if k == 'repeat':
            n = int(rv.j['count'].split('_')[0]) if rv.j['count'][0].isdigit() else None
            if n is None:
                raise Unsupported('repeat count %s' % rv.j['count'])
            v = self.operand(fr, rv.ops[0])
            return Agg('array', 0, [v] * n)
        raise Unsupported('rvalue %s %s' % (k, rv.j.get('dbg')))

    def discriminant(self, v):
        if isinstance(v, Agg) and v.kind.startswith('adt:'):
            p = v.kind[4:]
            adt = self.facts.adts.get(p)
            if adt:
                d = int(adt['variants'][v.variant]['discr'])
                return BV(64, d, signed=True)
            if p == 'std::cmp::Ordering':
                return BV(8, (-1, 0, 1)[v.variant], signed=True)
            return BV(64, v.variant, signed=True)
        raise Unsupported('discriminant of %r' % (v,))

    # ------------------------------------------------------------------ decisions (forks)
    def decide(self, options, what):
        """choose among feasible successors when control depends on a symbolic value"""
        if self.dpos < len(self.decisions):
            c = self.decisions[self.dpos]
        else:
            c = 0
            self.decisions.append(0)
            self.pending.append(len(options))
        self.dpos += 1
        self.trace.append(('fork', (what, c)))
        return options[c]

    def explore(self, fn, max_runs=64):
        """run fn(self) for every resolution of symbolic branches; yields (decisions, result|Panic)"""
        results = []
        todo = [[]]
        runs = 0
        while todo:
            pre = todo.pop()
            runs += 1
            if runs > max_runs:
                raise Unsupported('too many symbolic forks')
            self.decisions = list(pre)
            self.pending = []
            self.dpos = 0
            self.steps = 0
            self.trace = []
            self.assert_unknown = []
            try:
                r = fn(self)
            except Panic as p:
                r = p
            results.append((list(self.decisions), r, list(self.trace), list(self.assert_unknown)))
            # new fork points discovered beyond the prefix
            base = len(pre)
            for i, n in enumerate(self.pending):
                for alt in range(1, n):
                    todo.append(self.decisions[:base + i] + [alt])
        return results

    # ------------------------------------------------------------------ execution
    def new_frame(self, body):
        return [Cell(None, '%s._%d' % (body.name.split('::')[-1], i)) for i in range(len(body.locals))]

    def exec_body(self, body, args, start=0, stop=(), frame=None):
        """run body from block `start`; returns the value of _0 at `return`, or
        ('stop', bb, frame) when a stop block is reached"""
        self.depth += 1
        if self.depth > 60:
            raise Unsupported('call depth')
        try:
            fr = frame if frame is not None else self.new_frame(body)
            if frame is None:
                if len(args) != body.arg_count:
                    raise Unsupported('%s: %d args for %d params' % (body.name, len(args), body.arg_count))
                for i, a in enumerate(args):
                    fr[i + 1].v = a
            bb = start
            first = True
            while True:
                if not first and bb in stop:
                    return ('stop', bb, fr)
                first = False
                blk = body.blocks[bb]
                for s in blk.stmts:
                    self.steps += 1
                    if s.k == 'assign':
                        v = self.rvalue(fr, s.rv, '%s %s' % (body.name, s.span))
                        self.store(self.place_ref(fr, s.place), v)
                    elif s.k == 'setdiscr':
                        raise Unsupported('SetDiscriminant')
                    elif s.k == 'intrinsic':
                        pass
                if self.steps > self.max_steps:
                    raise Unsupported('step budget exhausted in %s' % body.name)
                t = blk.term
                self.steps += 1
                k = t.k
                if k == 'goto':
                    bb = t.target
                elif k == 'return':
                    return fr[0].v
                elif k == 'switch':
                    v = self.operand(fr, t.discr)
                    bb = self.switch(t, v, body)
                elif k == 'call':
                    r = self.do_call(body, fr, t)
                    if t.target is None:
                        raise Panic('diverge', repr(t.callee), '%s %s' % (body.name, t.span))
                    self.store(self.place_ref(fr, t.dest), r)
                    bb = t.target
                elif k == 'assert':
                    c = self.operand(fr, t.cond)
                    where = '%s %s' % (body.name, t.span)
                    if isinstance(c, BV) and c.val is not None:
                        if bool(c.val) != t.expected:
                            raise Panic(t.msg, ', '.join(repr(self.operand(fr, o)) for o in t.msg_ops), where)
                    else:
                        self.assert_unknown.append((t.msg, where))
                    bb = t.target
                elif k == 'drop':
                    bb = t.target
                elif k == 'unreachable':
                    raise Unsupported('%s: reached `unreachable` at bb%d' % (body.name, bb))
                else:
                    raise Unsupported('terminator %s %s' % (k, t.j.get('dbg')))
        finally:
            self.depth -= 1

    def switch(self, t, v, body):
        if isinstance(v, BV) and v.val is not None:
            x = v.val
            for val, tg in t.targets:
                if (val & ((1 << v.w) - 1)) == x:
                    return tg
            return t.otherwise
        if isinstance(v, BV):
            # symbolic: feasible targets by known bits
            feas = []
            for val, tg in t.targets:
                if v.eq3(BV(v.w, val)) is not False and tg not in feas:
                    feas.append(tg)
            if t.otherwise not in feas:
                feas.append(t.otherwise)
            if len(feas) == 1:
                return feas[0]
            return self.decide(feas, '%s %s' % (body.name, t.span))
        raise Unsupported('switch on %r' % (v,))

    # ------------------------------------------------------------------ calls
    def do_call(self, body, fr, t):
        cal = t.callee
        if cal.is_indirect():
            f = self.operand(fr, Operand_from(cal.j['indirect']))
            raise Unsupported('indirect call %r' % (f,))
        args = [self.operand(fr, a) for a in t.args]
        name, target_body = self.resolve_callee(cal)
        for key in (name, cal.defname):
            h = self.hooks.get(key)
            if h:
                h(self, args)
        m = self.overrides.get(name) or MODELS.get(name)
        if m is None and target_body is None:
            m = MODELS.get(cal.defname)      # trait-level model for a resolved library impl
        if m is None and target_body is None and name:
            for suf, mm in SUFFIX_MODELS.items():     # re-exported library items: the def path depends on the first `use`
                if name.endswith(suf):
                    m = mm
                    break
        if m is None and target_body is None and name:
            for pre, mm in SUFFIX_PREFIX_MODELS.items():     # whole foreign crates modelled symbolically (noodles_vcf)
                if pre in name or pre in (cal.full or ''):
                    m = mm
                    break
        if m is not None:
            return m(self, args, t, cal)
        if target_body is not None:
            if target_body.kind == 'Closure':
                return self.call_closure_body(target_body, args)
            # a generic crate function called with concrete integer-width arguments (load_array::<u128>, skalo::<u64>, ..):
            # interpret its body under that width for the duration of the call (the arms of main dispatch on it)
            pushed = None
            gens = getattr(target_body, 'generics', None) or []
            if gens and cal.gargs:
                for gname, garg in zip(gens, cal.gargs):
                    r = self.resolve_ty(garg)
                    if gname == 'IntT' and r in ('u64', 'u128') and self.subst.get('IntT') != r:
                        pushed = (self.subst.get('IntT'), self.subst.get('Self'))
                        self.subst['IntT'] = r
                        self.subst['Self'] = r
            try:
                return self.exec_body(target_body, args)
            finally:
                if pushed is not None:
                    self.subst['IntT'], self.subst['Self'] = pushed
        # method-name fallbacks for generic library idioms
        short = name.split('::')[-1] if name else ''
        m = FALLBACK.get(short)
        if m is not None:
            r = m(self, args, t, cal)
            if r is not NotImplemented:
                return r
        raise Unsupported('no model for callee %s (def %s)' % (name, cal.defp))

    def resolve_callee(self, cal):
        """-> (name, body|None): monomorphise trait calls on substituted type parameters"""
        name = cal.name
        if cal.trait and cal.gargs:
            selfty = cal.gargs[0]
            rty = self.resolve_ty(selfty)
            method = cal.defp.split('::')[-1]
            if rty != selfty or selfty in INT_W:
                # local trait: impl table / default body
                imp = self.facts.trait_impl_method(cal.trait, rty, method)
                if imp is not None:
                    b = self.facts.bodies.get(imp)
                    if b is not None:
                        return b.name, b
                dflt = self.facts.by_name.get(cal.defname)
                if dflt and len(dflt) == 1 and any(i['trait'] == cal.trait and i['self_ty'] == rty
                                                    for i in self.facts.impls):
                    return '%s@%s' % (cal.defname, rty), dflt[0]
                # foreign trait on a primitive: model key '<prim>::Trait::method'
                tshort = cal.trait.split('::')[-1]
                return 'prim::%s::%s' % (tshort, method), None
        b = None
        if name:
            c = self.facts.by_name.get(name)
            if c and len(c) == 1:
                b = c[0]
            elif cal.resolved and cal.resolved in self.facts.bodies:
                b = self.facts.bodies[cal.resolved]
        return name, b

    def call_fn(self, name, args):
        return self.exec_body(self.facts.fn(name), args)

    def call_closure(self, clos, args):
        """clos: Agg('closure:<path>') value or a RefV to one; args: list of argument values"""
        cv = clos
        ref = None
        while isinstance(cv, RefV):
            ref = cv
            cv = self.load(cv)
        if isinstance(cv, Opaque) and isinstance(cv.tag, tuple) and cv.tag[0] == 'fn':
            # a function item used as a callable (e.g. `.or_insert_with(Vec::new)`)
            from ..facts import _strip_generics

            class _C:
                pass
            cal = _C()
            full = cv.tag[2] if len(cv.tag) > 2 and cv.tag[2] else cv.tag[1]
            cal.full = full
            cal.name = cal.defname = _strip_generics(cv.tag[1])
            cal.trait = None
            cal.gargs = None
            m = self.overrides.get(cal.name) or MODELS.get(cal.name) or MODELS.get(full)
            if m is None:
                # `<prim as Trait<..>>::method` named as a function item (`.map(char::from)`): the primitive-trait models
                import re as _re
                mm = _re.match(r'<(\w+) as ([\w:]+?)(<.*>)?>::(\w+)$', full)
                if mm and (mm.group(1) in INT_W or mm.group(1) in ('char', 'bool', 'f64', 'f32', 'usize', 'isize')):
                    m = MODELS.get('prim::%s::%s' % (mm.group(2).split('::')[-1], mm.group(4)))
            if m is not None:
                return m(self, list(args), None, cal)
            try:
                return self.exec_body(self.facts.fn(cal.name), list(args))
            except Exception:
                raise Unsupported('call of function item %s' % cal.name)
        if not (isinstance(cv, Agg) and cv.kind.startswith('closure:')):
            raise Unsupported('call of non-closure %r' % (cv,))
        body = self.facts.bodies.get(cv.kind[8:])
        if body is None:
            raise Unsupported('closure body %s missing' % cv.kind[8:])
        envty = body.local_ty(1)
        if envty.startswith('&'):
            if ref is None:
                ref = RefV(Cell(cv, 'closure-env'))
            env = ref
        else:
            env = cv
        return self.exec_body(body, [env] + list(args))

    def call_closure_body(self, body, args):
        return self.exec_body(body, args)


def Operand_from(j):
    from ..facts import Operand
    return Operand(j)


# ====================================================================== models
MODELS = {}
SUFFIX_MODELS = {}
SUFFIX_PREFIX_MODELS = {}
FALLBACK = {}


def model(*names):
    def deco(f):
        for n in names:
            MODELS[n] = f
        return f
    return deco


def fallback(*names):
    def deco(f):
        for n in names:
            FALLBACK[n] = f
        return f
    return deco


def some(v):
    return Agg('adt:std::option::Option', 1, [v])


NONE = Agg('adt:std::option::Option', 0, [])


def is_option(v):
    return isinstance(v, Agg) and v.kind == 'adt:std::option::Option'


def deref_all(I, v):
    while isinstance(v, RefV):
        v = I.load(v)
    return v


# ---- integer primitives
@model('core::num::<impl usize>::div_ceil', 'core::num::<impl u64>::div_ceil')
def m_div_ceil(I, a, t, c):
    x, y = I.conc(a[0]), I.conc(a[1])
    if y == 0:
        raise Panic('DivisionByZero')
    return BV(a[0].w, -(-x // y))


@model('core::num::<impl u64>::rotate_left')
def m_rotl(I, a, t, c):
    n = I.conc(a[1])
    return a[0].rotl(n)


@model('core::num::<impl u64>::rotate_right')
def m_rotr(I, a, t, c):
    n = I.conc(a[1])
    return a[0].rotl((64 - n % 64) % 64)


@model('core::num::<impl u16>::saturating_add')
def m_sat_add(I, a, t, c):
    return BV(16, min(I.conc(a[0]) + I.conc(a[1]), 0xFFFF))


@model('core::num::<impl usize>::saturating_sub')
def m_sat_sub(I, a, t, c):
    return BV(64, max(I.conc(a[0]) - I.conc(a[1]), 0))


@model('core::num::<impl u64>::wrapping_mul')
def m_wmul(I, a, t, c):
    return BV(64, I.conc(a[0]) * I.conc(a[1]))


@model('prim::Ord::min', 'prim::Ord::max', 'std::cmp::Ord::min', 'std::cmp::Ord::max', 'core::cmp::Ord::min', 'core::cmp::Ord::max',
       'std::cmp::min', 'std::cmp::max')
def m_minmax(I, a, t, c):
    is_min = c.name.endswith('min')
    x, y = a
    if isinstance(x, BV) and isinstance(y, BV) and x.val is not None and y.val is not None:
        return (x if x.sval() <= y.sval() else y) if is_min else (y if x.sval() <= y.sval() else x)
    I.trace.append(('minmax', (is_min, x, y)))
    return Opaque(('min' if is_min else 'max', x, y))


@model('prim::Ord::cmp', 'std::cmp::impls::<impl std::cmp::Ord for usize>::cmp', 'std::cmp::impls::<impl std::cmp::Ord for u16>::cmp',
       'std::cmp::impls::<impl std::cmp::Ord for u64>::cmp', 'std::cmp::impls::<impl std::cmp::Ord for u8>::cmp')
def m_cmp(I, a, t, c):
    x = I.conc(deref_all(I, a[0]))
    y = I.conc(deref_all(I, a[1]))
    return Agg('adt:std::cmp::Ordering', 0 if x < y else (1 if x == y else 2), [])


@model('std::cmp::Ordering::is_eq')
def m_is_eq(I, a, t, c):
    return bv_bool(a[0].variant == 1)


# ---- operator traits on the (substituted) integer type parameter
def _prim_bin(op):
    def f(I, a, t, c):
        x, y = deref_all(I, a[0]), deref_all(I, a[1])
        if isinstance(x, BV) and isinstance(y, BV) and op in ('Shl', 'Shr'):
            n = I.conc(y, 'shift amount')
            n = y.sval() if y.signed else n
            if n < 0 or n >= x.w:
                raise Panic('Overflow:%s' % op, 'shift by %d of %d-bit value' % (n, x.w), repr(t.span))
        return I.binop(op, x, y)
    return f


for _tr, _m, _op in (('Shl', 'shl', 'Shl'), ('Shr', 'shr', 'Shr'), ('BitAnd', 'bitand', 'BitAnd'),
                     ('BitOr', 'bitor', 'BitOr'), ('BitXor', 'bitxor', 'BitXor')):
    MODELS['prim::%s::%s' % (_tr, _m)] = _prim_bin(_op)


def _prim_assign(op):
    def f(I, a, t, c):
        ref = a[0]
        cur = I.load(ref)
        y = deref_all(I, a[1])
        if op in ('Shl', 'Shr'):
            n = y.sval() if y.signed else I.conc(y, 'shift amount')
            if n < 0 or n >= cur.w:
                raise Panic('Overflow:%s' % op, 'shift by %d of %d-bit value' % (n, cur.w), repr(t.span))
        I.store(ref, I.binop(op, cur, y))
        return UNIT
    return f


for _tr, _m, _op in (('ShlAssign', 'shl_assign', 'Shl'), ('ShrAssign', 'shr_assign', 'Shr'),
                     ('BitOrAssign', 'bitor_assign', 'BitOr'), ('BitAndAssign', 'bitand_assign', 'BitAnd')):
    MODELS['prim::%s::%s' % (_tr, _m)] = _prim_assign(_op)


def _prim_cmp(op):
    def f(I, a, t, c):
        return I.binop(op, deref_all(I, a[0]), deref_all(I, a[1]))
    return f


for _m, _op in (('eq', 'Eq'), ('ne', 'Ne')):
    MODELS['prim::PartialEq::%s' % _m] = _prim_cmp(_op)
for _m, _op in (('lt', 'Lt'), ('le', 'Le'), ('gt', 'Gt'), ('ge', 'Ge')):
    MODELS['prim::PartialOrd::%s' % _m] = _prim_cmp(_op)


@model('prim::Not::not')
def m_not(I, a, t, c):
    return deref_all(I, a[0]).bnot()


def _enum_scalar_eq(I, x, y):
    """field-less foreign enum value (modelled as Agg with a variant index) against its scalar constant"""
    if isinstance(x, Agg) and not x.fields and isinstance(y, BV) and y.val is not None:
        return x.variant == y.val
    if isinstance(y, Agg) and not y.fields and isinstance(x, BV) and x.val is not None:
        return y.variant == x.val
    if isinstance(x, Agg) and isinstance(y, Agg) and not x.fields and not y.fields and x.kind != y.kind:
        a, b = x.kind[4:], y.kind[4:]              # the same foreign enum reached through a re-export path
        if a.endswith(b) or b.endswith(a):
            return x.variant == y.variant
    return None


# derived PartialEq::ne on crate enums: default method = !eq
@fallback('ne')
def f_ne(I, a, t, c):
    if c.trait == 'std::cmp::PartialEq':
        x, y = deref_all(I, a[0]), deref_all(I, a[1])
        if isinstance(x, StrV) and isinstance(y, StrV):
            return bv_bool(list(x.chars) != list(y.chars))
        r = _enum_scalar_eq(I, x, y)
        if r is not None:
            return bv_bool(not r)
        if isinstance(x, BV) and isinstance(y, BV):
            return I.binop('Ne', x, y)
        if isinstance(x, Agg) and isinstance(y, Agg):
            return bv_bool(not _deep_eq(I, x, y))
    return NotImplemented


@fallback('eq')
def f_eq(I, a, t, c):
    if c.trait == 'std::cmp::PartialEq':
        x, y = deref_all(I, a[0]), deref_all(I, a[1])
        if isinstance(x, StrV) and isinstance(y, StrV):
            return bv_bool(list(x.chars) == list(y.chars))
        r = _enum_scalar_eq(I, x, y)
        if r is not None:
            return bv_bool(r)
        if isinstance(x, BV) and isinstance(y, BV):
            return I.binop('Eq', x, y)
        if isinstance(x, Agg) and isinstance(y, Agg):
            return bv_bool(_deep_eq(I, x, y))
    return NotImplemented


def _deep_eq(I, x, y):
    """structural equality as the derived PartialEq implementations compute it: references are followed (comparing `&T` compares
    the referents), aggregates field by field; anything that cannot be decided raises Unsupported - never a guess"""
    x = deref_all(I, x) if isinstance(x, RefV) else x
    y = deref_all(I, y) if isinstance(y, RefV) else y
    if isinstance(x, BV) and isinstance(y, BV):
        return bool(I.conc(I.binop('Eq', x, y), 'equality of aggregates'))
    if isinstance(x, float) and isinstance(y, float):
        return x == y
    if isinstance(x, StrV) and isinstance(y, StrV):
        return [c if isinstance(c, str) else chr(I.conc(c)) for c in x.chars] == [c if isinstance(c, str) else chr(I.conc(c)) for c in y.chars]
    if isinstance(x, Agg) and isinstance(y, Agg):
        if x.kind != y.kind:
            raise Unsupported('equality of %s and %s' % (x.kind, y.kind))
        if x.variant != y.variant or len(x.fields) != len(y.fields):
            return False
        return all(_deep_eq(I, p, q) for p, q in zip(x.fields, y.fields))
    if isinstance(x, str) and isinstance(y, str):
        return x == y
    if isinstance(x, int) and isinstance(y, int):
        return x == y
    raise Unsupported('equality of %r and %r' % (type(x).__name__, type(y).__name__))


# ---- ranges / panics
@model('std::ops::RangeInclusive::new')
def m_ri_new(I, a, t, c):
    return Agg('adt:std::ops::RangeInclusive', 0, [a[0], a[1], bv_bool(False)])


@model('std::ops::RangeInclusive::contains')
def m_ri_contains(I, a, t, c):
    r = deref_all(I, a[0])
    x = deref_all(I, a[1])
    lo, hi = r.fields[0], r.fields[1]
    if isinstance(x, float) or isinstance(lo, float):
        return bv_bool(float(lo) <= float(x) <= float(hi))
    return bv_bool(I.conc(lo) <= I.conc(x) <= I.conc(hi))


@model('std::fmt::Arguments::from_str', 'std::fmt::Arguments::new', 'core::fmt::rt::Argument::new_display',
       'core::fmt::rt::Argument::new_debug')
def m_fmt_args(I, a, t, c):
    return Opaque(('fmt', t.span))


@model('core::panicking::panic_fmt', 'core::panicking::panic', 'std::rt::begin_panic')
def m_panic(I, a, t, c):
    raise Panic('panic', repr(a[:1]), t.span)


# ---- Option
@model('std::option::Option::<T>::is_some', 'std::option::Option::is_some')
def m_is_some(I, a, t, c):
    return bv_bool(deref_all(I, a[0]).variant == 1)


@model('std::option::Option::<T>::is_none', 'std::option::Option::is_none')
def m_is_none(I, a, t, c):
    return bv_bool(deref_all(I, a[0]).variant == 0)


@model('std::option::Option::<T>::as_ref', 'std::option::Option::as_ref')
def m_as_ref(I, a, t, c):
    r = a[0]
    v = I.load(r)
    if v.variant == 0:
        return NONE
    return some(RefV(r.cell, r.path + (0,)))


@model('std::option::Option::<T>::expect', 'std::option::Option::expect', 'std::option::Option::<T>::unwrap',
       'std::option::Option::unwrap')
def m_expect(I, a, t, c):
    if a[0].variant == 0:
        raise Panic('unwrap-none', '', repr(t.span))
    return a[0].fields[0]


# ---- Cow / slices / ranges / iterators
@model('<std::borrow::Cow<B> as std::ops::Deref>::deref')
def m_cow_deref(I, a, t, c):
    v = I.load(a[0])
    if isinstance(v, Agg) and v.kind == 'cow':
        return v.fields[0]
    raise Unsupported('Cow deref of %r' % (v,))


def _slice(I, ref):
    """ref to array or slice -> (cell, path, start, len)"""
    if not isinstance(ref, RefV):
        raise Unsupported('slice op on %r' % (ref,))
    if ref.win is not None:
        return ref.cell, ref.path, ref.win[0], ref.win[1]
    v = I.load(ref)
    if isinstance(v, Agg) and v.kind == 'array':
        return ref.cell, ref.path, 0, len(v.fields)
    raise Unsupported('slice op on %r' % (v,))


@model('core::slice::index::<impl std::ops::Index<I> for [T]>::index')
def m_slice_index(I, a, t, c):
    cell, path, s, n = _slice(I, a[0])
    r = a[1]
    if isinstance(r, Agg) and r.kind == 'adt:std::ops::Range':
        lo, hi = I.conc(r.fields[0]), I.conc(r.fields[1])
        if lo > hi or hi > n:
            raise Panic('SliceIndex', '%d..%d of %d' % (lo, hi, n), repr(t.span))
        return RefV(cell, path, (s + lo, hi - lo))
    if isinstance(r, Agg) and r.kind in ('adt:std::ops::RangeTo', 'adt:std::ops::RangeFrom', 'adt:std::ops::RangeFull', 'adt:std::ops::RangeInclusive', 'adt:std::ops::RangeToInclusive'):
        if r.kind.endswith('RangeTo'):
            lo, hi = 0, I.conc(r.fields[0])
        elif r.kind.endswith('RangeFrom'):
            lo, hi = I.conc(r.fields[0]), n
        elif r.kind.endswith('RangeFull'):
            lo, hi = 0, n
        elif r.kind.endswith('RangeToInclusive'):
            lo, hi = 0, I.conc(r.fields[0]) + 1
        else:
            lo, hi = I.conc(r.fields[0]), I.conc(r.fields[1]) + 1
        if lo > hi or hi > n:
            raise Panic('SliceIndex', '%d..%d of %d' % (lo, hi, n), repr(t.span))
        return RefV(cell, path, (s + lo, hi - lo))
    raise Unsupported('slice index with %r' % (r,))


@model('ndarray::impl_methods::<impl ndarray::ArrayBase<S, D>>::iter')
def m_nd_iter(I, a, t, c):
    return Agg('iter', 0, [_iter_items(I, a[0]), 0])


@model('core::slice::<impl [T]>::iter')
def m_slice_iter(I, a, t, c):
    cell, path, s, n = _slice(I, a[0])
    return Agg('iter', 0, [[RefV(cell, path + (s + i,)) for i in range(n)], 0])


@model('core::slice::<impl [T]>::len')
def m_slice_len(I, a, t, c):
    return BV(64, _slice(I, a[0])[3])


def _iter_items(I, it):
    v = it
    # a reference (possibly to a view, which is itself a slice reference): iterate element references
    hops = 0
    while isinstance(v, RefV) and hops < 4:
        if v.win is not None:
            cell, path, s, n = _slice(I, v)
            return [RefV(cell, path + (s + i,)) for i in range(n)]
        inner = I.load(v)
        if isinstance(inner, Agg) and inner.kind == 'array':
            return [RefV(v.cell, v.path + (i,)) for i in range(len(inner.fields))]
        if isinstance(inner, Agg) and inner.kind == 'iter':
            return inner.fields[0][inner.fields[1]:]
        if isinstance(inner, Agg) and inner.kind == 'adt:std::ops::Range':
            v = inner
            break
        v = inner
        hops += 1
    it = v
    if isinstance(it, Agg) and it.kind == 'iter':
        return it.fields[0][it.fields[1]:]
    if isinstance(it, Agg) and it.kind == 'array':
        return list(it.fields)
    if isinstance(it, Agg) and it.kind == 'adt:std::ops::Range':
        lo, hi = I.conc(it.fields[0]), I.conc(it.fields[1])
        return [BV(it.fields[0].w, i) for i in range(lo, hi)]
    if isinstance(it, Agg) and it.kind == 'adt:std::ops::RangeInclusive':
        lo, hi = I.conc(it.fields[0]), I.conc(it.fields[1])
        return [BV(it.fields[0].w, i) for i in range(lo, hi + 1)]
    if isinstance(it, Agg) and it.kind == 'adt:std::option::Option':       # Option<T>: IntoIterator of zero or one item
        return [it.fields[0]] if it.variant == 1 else []
    if isinstance(it, Agg) and it.kind == 'adt:std::result::Result':
        return [it.fields[0]] if it.variant == 0 else []
    if isinstance(it, Agg) and it.kind == 'repeat':
        raise Unsupported('unbounded iterator (repeat) consumed without a bound')
    if isinstance(it, MapV):
        return [Agg('tuple', 0, [kv, cell.v]) for (kv, cell) in it.d.values()]
    if type(it).__name__ == 'SetV':
        return list(it.d.values())
    if isinstance(it, Agg) and it.kind.startswith('adt:'):
        # a crate-defined iterator: drive its own `next` body
        cands = [n for n in I.facts.by_name if n.startswith('<' + it.kind[4:]) and n.endswith(' as std::iter::Iterator>::next')]
        if len(cands) == 1:
            cell = Cell(it, 'crate-iter')
            out = []
            for _ in range(1000000):
                r = I.call_fn(cands[0], [RefV(cell)])
                if r.variant != 1:
                    return out
                out.append(r.fields[0])
    raise Unsupported('not an iterator: %r' % (it,))


@model('std::iter::Iterator::enumerate')
def m_enumerate(I, a, t, c):
    items = _iter_items(I, a[0])
    return Agg('iter', 0, [[Agg('tuple', 0, [BV(64, i), x]) for i, x in enumerate(items)], 0])


@model('std::iter::Iterator::rev')
def m_rev(I, a, t, c):
    return Agg('iter', 0, [list(reversed(_iter_items(I, a[0]))), 0])


@model('std::iter::Iterator::zip')
def m_zip(I, a, t, c):
    x, y = _iter_items(I, a[0]), _iter_items(I, a[1])
    return Agg('iter', 0, [[Agg('tuple', 0, [p, q]) for p, q in zip(x, y)], 0])


@model('<I as std::iter::IntoIterator>::into_iter', 'std::iter::IntoIterator::into_iter')
def m_into_iter(I, a, t, c):
    v = a[0]
    if isinstance(v, Agg) and v.kind in ('iter', 'adt:std::ops::Range'):
        return v
    if isinstance(v, Agg) and v.kind in ('adt:std::ops::RangeInclusive', 'adt:std::option::Option', 'adt:std::result::Result'):
        return Agg('iter', 0, [_iter_items(I, v), 0])
    if type(v).__name__ == 'SetV':
        return Agg('iter', 0, [list(v.d.values()), 0])
    if isinstance(v, MapV):
        return Agg('iter', 0, [[Agg('tuple', 0, [kv, cell.v]) for (kv, cell) in v.d.values()], 0])
    if isinstance(v, RefV) and isinstance(I.load(v), MapV):
        m = I.load(v)
        return Agg('iter', 0, [[Agg('tuple', 0, [RefV(Cell(kv, 'key')), RefV(cell)]) for (kv, cell) in m.d.values()], 0])
    if isinstance(v, RefV) and type(I.load(v)).__name__ == 'SetV':
        return Agg('iter', 0, [[RefV(Cell(x, 'elem')) for x in I.load(v).d.values()], 0])
    if isinstance(v, Agg) and v.kind == 'array':
        return Agg('iter', 0, [list(v.fields), 0])
    if isinstance(v, RefV) and v.win is None and isinstance(I.load(v), RefV):
        return m_into_iter(I, [I.load(v)], t, c)          # a reference to a view / slice reference (e.g. `for x in row` with row: &ArrayView)
    if isinstance(v, RefV):
        cell, path, s, n = _slice(I, v)
        return Agg('iter', 0, [[RefV(cell, path + (s + i,)) for i in range(n)], 0])
    raise Unsupported('into_iter of %r' % (v,))


@fallback('next')
def f_next(I, a, t, c):
    r = a[0]
    it = I.load(r)
    if isinstance(it, Agg) and it.kind == 'iter':
        items, pos = it.fields
        if pos >= len(items):
            return NONE
        I.store(r, Agg('iter', 0, [items, pos + 1]))
        return some(items[pos])
    if isinstance(it, Agg) and it.kind == 'adt:std::ops::Range':
        lo, hi = I.conc(it.fields[0]), I.conc(it.fields[1])
        if lo >= hi:
            return NONE
        I.store(r, Agg(it.kind, 0, [BV(it.fields[0].w, lo + 1), it.fields[1]]))
        return some(BV(it.fields[0].w, lo))
    return NotImplemented


@model('std::iter::Iterator::fold')
def m_fold(I, a, t, c):
    acc = a[1]
    for x in _iter_items(I, a[0]):
        acc = I.call_closure(a[2], [acc, x])
    return acc


@model('std::iter::Iterator::map')
def m_map(I, a, t, c):
    return Agg('iter', 0, [[I.call_closure(a[1], [x]) for x in _iter_items(I, a[0])], 0])


@model('std::iter::Iterator::sum', 'std::iter::Iterator::sum::<f64>')
def m_sum(I, a, t, c):
    items = [deref_all(I, x) for x in _iter_items(I, a[0])]
    if items and all(isinstance(x, BV) for x in items):
        return BV(items[0].w, sum(I.conc(x) for x in items), signed=items[0].signed)
    if not items and 'usize' in (c.full or ''):
        return BV(64, 0)
    s = 0.0
    for x in items:
        s = s + x
    return s


# ---- String (decode paths)
@model('std::string::String::with_capacity', 'std::string::String::new')
def m_string_new(I, a, t, c):
    return StrV([])


@model('std::string::String::push')
def m_string_push(I, a, t, c):
    s = I.load(a[0])
    I.store(a[0], StrV(s.chars + [a[1]]))
    return UNIT


@model('std::string::String::insert')
def m_string_insert(I, a, t, c):
    s = I.load(a[0])
    i = I.conc(a[1])
    ch = list(s.chars)
    ch.insert(i, a[2])
    I.store(a[0], StrV(ch))
    return UNIT


@model('std::string::String::chars', 'core::str::<impl str>::chars')
def m_chars(I, a, t, c):
    s = deref_all(I, a[0])
    return Agg('iter', 0, [[BV(32, ord(ch)) if isinstance(ch, str) else ch for ch in s.chars], 0])


@model('<std::string::String as std::ops::Deref>::deref')
def m_string_deref(I, a, t, c):
    return a[0]


@model('std::iter::Iterator::collect')
def m_collect(I, a, t, c):
    items = _iter_items(I, a[0])
    full = c.full or ''
    target = full.split('::collect::<', 1)[1] if '::collect::<' in full else ''
    if target.startswith(('hashbrown::HashMap', 'std::collections::HashMap')):
        m = MapV()
        for it in items:
            it = deref_all(I, it) if isinstance(it, RefV) else it
            kx, vx = it.fields
            m.d[_mkey(kx)] = (kx, Cell(vx, 'mapval'))
        return m
    if target.startswith(('hashbrown::HashSet', 'std::collections::HashSet')):
        return SetV([deref_all(I, x) if isinstance(x, RefV) else x for x in items])
    if target.startswith('std::string::String') or (not target and 'String' in full):
        out = []
        for x in items:
            x = deref_all(I, x) if isinstance(x, RefV) else x
            if isinstance(x, StrV):
                out.extend(x.chars)
            else:
                out.append(x)
        return StrV(out)
    return Agg('array', 0, items)


# ---- Vec<T> (modelled as an 'array' aggregate living in its cell)
@model('std::vec::Vec::new', 'std::vec::Vec::with_capacity')
def m_vec_new(I, a, t, c):
    return Agg('array', 0, [])


@model('std::vec::from_elem')
def m_from_elem(I, a, t, c):
    n = a[1]
    if isinstance(n, BV) and n.val is not None:
        return Agg('array', 0, [a[0]] * n.val)
    raise Unsupported('vec![x; n] with symbolic n')


@model('std::vec::Vec::push')
def m_vec_push(I, a, t, c):
    v = I.load(a[0])
    I.store(a[0], Agg('array', 0, v.fields + [a[1]]))
    return UNIT


@model('std::vec::Vec::len')
def m_vec_len(I, a, t, c):
    return BV(64, len(deref_all(I, a[0]).fields))


@model('std::vec::Vec::is_empty')
def m_vec_is_empty(I, a, t, c):
    return bv_bool(len(deref_all(I, a[0]).fields) == 0)


@model('<std::vec::Vec<T, A> as std::ops::Deref>::deref', '<std::vec::Vec<T, A> as std::ops::DerefMut>::deref_mut')
def m_vec_deref(I, a, t, c):
    r = a[0]
    v = I.load(r)
    return RefV(r.cell, r.path, (0, len(v.fields)))


@model('<std::vec::Vec<T, A> as std::ops::Index<I>>::index', '<std::vec::Vec<T, A> as std::ops::IndexMut<I>>::index_mut')
def m_vec_index(I, a, t, c):
    r = a[0]
    v = I.load(r)
    if isinstance(a[1], Agg) and a[1].kind.startswith('adt:std::ops::Range'):
        k = a[1].kind.split('::')[-1]
        n = len(v.fields)
        if k == 'Range':
            lo, hi = I.conc(a[1].fields[0]), I.conc(a[1].fields[1])
        elif k == 'RangeTo':
            lo, hi = 0, I.conc(a[1].fields[0])
        elif k == 'RangeFrom':
            lo, hi = I.conc(a[1].fields[0]), n
        elif k == 'RangeFull':
            lo, hi = 0, n
        elif k == 'RangeInclusive':
            lo, hi = I.conc(a[1].fields[0]), I.conc(a[1].fields[1]) + 1
        else:
            raise Unsupported('Vec index with %r' % (a[1],))
        if lo > hi or hi > n:
            raise Panic('SliceIndex', '%d..%d of %d' % (lo, hi, n), t.span)
        return RefV(r.cell, r.path, (lo, hi - lo))
    i = I.conc(a[1], 'Vec index')
    if i >= len(v.fields):
        raise Panic('BoundsCheck', 'Vec index %d of %d' % (i, len(v.fields)), t.span)
    return RefV(r.cell, r.path + (i,))


@model('std::vec::Vec::resize')
def m_vec_resize(I, a, t, c):
    v = I.load(a[0])
    n = I.conc(a[1])
    if n > 200000 and len(v.fields) == 0:
        I.store(a[0], Agg('array', 0, SparseFields(n, a[2])))
        return UNIT
    f = list(v.fields)[:n] + [a[2]] * max(0, n - len(v.fields))
    I.store(a[0], Agg('array', 0, f))
    return UNIT


@model('std::vec::Vec::extend_from_slice')
def m_vec_extend_from_slice(I, a, t, c):
    v = I.load(a[0])
    s = I.load(a[1]) if isinstance(a[1], RefV) else a[1]
    I.store(a[0], Agg('array', 0, v.fields + list(s.fields)))
    return UNIT


@model('<std::vec::Vec<T, A> as std::iter::Extend<T>>::extend')
def m_vec_extend(I, a, t, c):
    v = I.load(a[0])
    items = a[1].fields if isinstance(a[1], Agg) and a[1].kind == 'array' else _iter_items(I, a[1])
    I.store(a[0], Agg('array', 0, v.fields + list(items)))
    return UNIT


# ---- HashMap<K, V> : MapV, a python dict key -> Cell
HASH_ORDER = ['insertion']        # how hash maps / sets are iterated: 'insertion' (default) or 'reverse' (C11: results must not depend on it)


class HashDict(dict):
    """storage of a modelled HashMap / HashSet / DashMap: iteration order follows HASH_ORDER, so that one pipeline can be interpreted
    under two different iteration orders (each real process draws fresh hash seeds)"""
    __slots__ = ()

    @staticmethod
    def _order(v):
        o = HASH_ORDER[0]
        if o == 'reverse':
            return v[::-1]
        if o.startswith('shuffle:'):          # a fixed pseudo-random permutation per seed and length
            import random as _r
            idx = list(range(len(v)))
            _r.Random(int(o[8:]) * 7919 + len(v)).shuffle(idx)
            return [v[i] for i in idx]
        return v

    def values(self):
        return self._order(list(dict.values(self)))

    def items(self):
        return self._order(list(dict.items(self)))

    def keys(self):
        return self._order(list(dict.keys(self)))

    def __iter__(self):
        return iter(self.keys())


class MapV:
    __slots__ = ('d',)

    def __init__(self):
        self.d = HashDict()

    def __repr__(self):
        return 'Map{%s}' % ', '.join('%r: %r' % (kv, c.v) for kv, c in self.d.values())


def _norm_chars(chars):
    """characters of a String as python characters whichever way they were produced (literal, pushed char values)"""
    return tuple(c if isinstance(c, str) else (chr(c.val) if isinstance(c, BV) and c.val is not None else c) for c in chars)


def _mkey(v):
    if isinstance(v, BV):
        return ('bv',) + v.key()
    if isinstance(v, Agg) and v.kind == 'tuple':
        return ('tuple',) + tuple(_mkey(x) for x in v.fields)
    if isinstance(v, StrV):
        return ('str', _norm_chars(v.chars))
    if isinstance(v, Opaque):
        return ('op', v.tag)
    if isinstance(v, RefV) and not v.path and v.win is None and isinstance(v.cell.v, (StrV, RefV)):
        return _mkey(v.cell.v)          # &str / &String keys hash and compare by content
    raise Unsupported('map key %r' % (v,))


@model('hashbrown::HashMap::new', 'std::collections::HashMap::new',
       '<hashbrown::HashMap<K, V, S, A> as std::default::Default>::default')
def m_map_new(I, a, t, c):
    return MapV()


@model('hashbrown::HashMap::entry', 'hashbrown::HashMap::<K, V, S, A>::entry')
def m_map_entry(I, a, t, c):
    # Entry::Occupied = variant 0, Entry::Vacant = variant 1 (decided when the entry is taken, as in the library); the payload is the
    # (map reference, key) pair all entry methods work on
    m = I.load(a[0])
    occupied = isinstance(m, MapV) and _mkey(a[1]) in m.d
    return Agg('adt:hashbrown::hash_map::Entry', 0 if occupied else 1, [Agg('entry', 0, [a[0], a[1]])])


def _entry(I, e):
    if isinstance(e, RefV):
        e = deref_all(I, e)
    if e.kind.startswith('adt:'):
        e = e.fields[0]
    m = I.load(e.fields[0])
    if not isinstance(m, MapV):
        raise Unsupported('entry on %r' % (m,))
    return m, _mkey(e.fields[1]), e.fields[1]


@model('hashbrown::hash_map::Entry::and_modify')
def m_entry_and_modify(I, a, t, c):
    m, k, _ = _entry(I, a[0])
    if k in m.d:
        I.call_closure(a[1], [RefV(m.d[k][1])])
    return a[0]


@model('hashbrown::hash_map::Entry::or_insert')
def m_entry_or_insert(I, a, t, c):
    m, k, kv = _entry(I, a[0])
    if k not in m.d:
        m.d[k] = (kv, Cell(a[1], 'mapval'))
    return RefV(m.d[k][1])


@model('hashbrown::hash_map::Entry::or_insert_with')
def m_entry_or_insert_with(I, a, t, c):
    m, k, kv = _entry(I, a[0])
    if k not in m.d:
        m.d[k] = (kv, Cell(I.call_closure(a[1], []), 'mapval'))
    return RefV(m.d[k][1])


@model('hashbrown::HashMap::len')
def m_map_len(I, a, t, c):
    return BV(64, len(deref_all(I, a[0]).d))


@model('hashbrown::HashMap::insert')
def m_map_insert(I, a, t, c):
    m = I.load(a[0])
    k = _mkey(a[1])
    old = m.d.get(k)
    m.d[k] = (a[1], Cell(a[2], 'mapval'))
    return some(old[1].v) if old else NONE


@model('<&mut hashbrown::HashMap<K, V, S, A> as std::iter::IntoIterator>::into_iter',
       '<&hashbrown::HashMap<K, V, S, A> as std::iter::IntoIterator>::into_iter')
def m_map_iter(I, a, t, c):
    m = I.load(a[0])
    return Agg('iter', 0, [[Agg('tuple', 0, [RefV(Cell(kv, 'mapkey')), RefV(cell)]) for kv, cell in m.d.values()], 0])


@model('hashbrown::HashMap::values_mut', 'hashbrown::HashMap::values')
def m_map_values(I, a, t, c):
    m = I.load(a[0])
    return Agg('iter', 0, [[RefV(cell) for kv, cell in m.d.values()], 0])


@model('hashbrown::HashMap::iter', 'hashbrown::HashMap::iter_mut')
def m_map_iter2(I, a, t, c):
    return m_map_iter(I, a, t, c)


@model('prim::BorrowMut::borrow_mut', 'prim::Borrow::borrow', '<u64 as std::borrow::BorrowMut<u64>>::borrow_mut', '<T as std::borrow::BorrowMut<T>>::borrow_mut',
       '<T as std::borrow::Borrow<T>>::borrow')
def m_borrow_mut(I, a, t, c):
    return a[0]


@model('std::iter::Iterator::filter')
def m_filter(I, a, t, c):
    out = []
    for x in _iter_items(I, a[0]):
        r = I.call_closure(a[1], [RefV(Cell(x, 'item'))])
        if I.conc(r, 'filter predicate'):
            out.append(x)
    return Agg('iter', 0, [out, 0])


@model('std::iter::Iterator::count')
def m_count(I, a, t, c):
    return BV(64, len(_iter_items(I, a[0])))


@model('<T as std::string::ToString>::to_string')
def m_to_string(I, a, t, c):
    v = a[0]
    while isinstance(v, RefV):
        v = I.load(v)
    return v


@model('std::mem::swap')
def m_swap(I, a, t, c):
    x, y = I.load(a[0]), I.load(a[1])
    I.store(a[0], y)
    I.store(a[1], x)
    return UNIT


@model('std::mem::take')
def m_take(I, a, t, c):
    v = I.load(a[0])
    if isinstance(v, StrV):
        I.store(a[0], StrV([]))
    elif isinstance(v, Agg) and v.kind == 'array':
        I.store(a[0], Agg('array', 0, []))
    else:
        raise Unsupported('mem::take of %r' % (v,))
    return v


@model('std::string::String::is_empty')
def m_string_is_empty(I, a, t, c):
    return bv_bool(len(deref_all(I, a[0]).chars) == 0)


@model('core::slice::<impl [T]>::iter_mut')
def m_slice_iter_mut(I, a, t, c):
    return m_slice_iter(I, a, t, c)


# ---- bit_set::BitSet : Opaque(('bitset', frozenset))
def _bs(I, v):
    v = deref_all(I, v)
    if isinstance(v, Opaque) and isinstance(v.tag, tuple) and v.tag[0] == 'bitset':
        return v.tag[1]
    raise Unsupported('not a BitSet: %r' % (v,))


def bitset(xs):
    return Opaque(('bitset', frozenset(xs)))


def _bs_iter(xs):
    return Agg('iter', 0, [[BV(64, x) for x in sorted(xs)], 0])


@model('bit_set::BitSet::symmetric_difference')
def m_bs_symdiff(I, a, t, c):
    return _bs_iter(_bs(I, a[0]) ^ _bs(I, a[1]))


@model('bit_set::BitSet::difference')
def m_bs_diff(I, a, t, c):
    return _bs_iter(_bs(I, a[0]) - _bs(I, a[1]))


@model('bit_set::BitSet::intersection')
def m_bs_inter(I, a, t, c):
    return _bs_iter(_bs(I, a[0]) & _bs(I, a[1]))


@model('bit_set::BitSet::union')
def m_bs_union(I, a, t, c):
    return _bs_iter(_bs(I, a[0]) | _bs(I, a[1]))


@model('bit_set::BitSet::iter')
def m_bs_iterall(I, a, t, c):
    return _bs_iter(_bs(I, a[0]))


@model('bit_set::BitSet::len')
def m_bs_len(I, a, t, c):
    return BV(64, len(_bs(I, a[0])))


@model('bit_set::BitSet::is_empty')
def m_bs_is_empty(I, a, t, c):
    return bv_bool(len(_bs(I, a[0])) == 0)


@model('bit_set::BitSet::is_subset')
def m_bs_subset(I, a, t, c):
    return bv_bool(_bs(I, a[0]) <= _bs(I, a[1]))


@model('bit_set::BitSet::is_superset')
def m_bs_superset(I, a, t, c):
    return bv_bool(_bs(I, a[0]) >= _bs(I, a[1]))


@model('bit_set::BitSet::is_disjoint')
def m_bs_disjoint(I, a, t, c):
    return bv_bool(not (_bs(I, a[0]) & _bs(I, a[1])))


@model('bit_set::BitSet::contains')
def m_bs_contains(I, a, t, c):
    return bv_bool(I.conc(a[1]) in _bs(I, a[0]))


@model('core::slice::<impl [T]>::copy_from_slice')
def m_copy_from_slice(I, a, t, c):
    dc, dp, ds, dn = _slice(I, a[0])
    sc, sp, ss, sn = _slice(I, a[1])
    if dn != sn:
        raise Panic('copy_from_slice', 'length mismatch %d vs %d' % (dn, sn), t.span)
    vals = [I.load(RefV(sc, sp + (ss + i,))) for i in range(sn)]
    for i, v in enumerate(vals):
        I.store(RefV(dc, dp + (ds + i,)), v)
    return UNIT


@model('std::vec::Vec::as_slice', 'std::vec::Vec::as_mut_slice')
def m_vec_as_slice(I, a, t, c):
    return m_vec_deref(I, a, t, c)


@model('<&std::vec::Vec<T, A> as std::iter::IntoIterator>::into_iter', '<&mut std::vec::Vec<T, A> as std::iter::IntoIterator>::into_iter')
def m_vecref_into_iter(I, a, t, c):
    r = a[0]
    v = I.load(r)
    return Agg('iter', 0, [[RefV(r.cell, r.path + (i,)) for i in range(len(v.fields))], 0])


# ====================================================================== ndarray (2-D u8 tables), HashSet, misc
class Nd2:
    """owned or viewed 2-D array: list of rows (python lists of values) + ncols"""
    __slots__ = ('rows', 'ncols')

    def __init__(self, rows, ncols):
        self.rows = [list(r) for r in rows]
        self.ncols = ncols

    def __repr__(self):
        return 'Nd2(%dx%d)' % (len(self.rows), self.ncols)

    def __eq__(self, o):
        return isinstance(o, Nd2) and self.rows == o.rows and self.ncols == o.ncols

    def __hash__(self):
        return hash((len(self.rows), self.ncols))


def _nd(I, v):
    v = deref_all(I, v)
    if isinstance(v, Nd2):
        return v
    raise Unsupported('not a 2-D array: %r' % (v,))


def _view1(vals):
    """a fresh read-only 1-D view over the given values"""
    return RefV(Cell(Agg('array', 0, list(vals)), 'view1'), (), (0, len(vals)))


def _vals(I, v):
    """values of a 1-D view / slice / Vec / array"""
    return [deref_all(I, x) if isinstance(x, RefV) else x for x in _iter_items(I, v)]


def _axis(I, v):
    v = deref_all(I, v)
    if isinstance(v, Agg) and v.kind.endswith('ndarray::Axis'):
        return I.conc(v.fields[0])
    raise Unsupported('not an Axis: %r' % (v,))


@model('ndarray::impl_constructors::<impl ndarray::ArrayBase<S, D>>::zeros')
def m_nd_zeros(I, a, t, c):
    sh = a[0]
    if isinstance(sh, Agg) and sh.kind == 'tuple' and len(sh.fields) == 2:
        r, cc = I.conc(sh.fields[0]), I.conc(sh.fields[1])
        return Nd2([[BV(8, 0)] * cc for _ in range(r)], cc)
    if isinstance(sh, Agg) and sh.kind == 'shape2':
        r, cc = sh.fields
        return Nd2([[BV(8, 0)] * cc for _ in range(r)], cc)
    raise Unsupported('zeros(%r)' % (sh,))


@model('ndarray::impl_methods::<impl ndarray::ArrayBase<S, D>>::raw_dim')
def m_nd_raw_dim(I, a, t, c):
    n = _nd(I, a[0])
    return Agg('shape2', 0, [len(n.rows), n.ncols])


@model('ndarray::impl_methods::<impl ndarray::ArrayBase<S, D>>::assign')
def m_nd_assign(I, a, t, c):
    dst = deref_all(I, a[0])
    if isinstance(dst, Agg) and dst.kind == 'ndrowmut':
        # a mutable row view handed out by multi_slice_mut: the write lands in the parent array
        sv = deref_all(I, a[1])
        vals = _rowmut_vals(I, sv) if isinstance(sv, Agg) and sv.kind == 'ndrowmut' else _vals(I, a[1])
        parent = I.load(dst.fields[0])
        if len(vals) != parent.ncols:
            raise Panic('ndarray-assign', 'shape mismatch %d vs %d' % (len(vals), parent.ncols), t.span)
        rows = [list(r) for r in parent.rows]
        rows[dst.fields[1]] = list(vals)
        I.store(dst.fields[0], Nd2(rows, parent.ncols))
        return UNIT
    src = _nd(I, a[1])
    I.store(a[0], Nd2(src.rows, src.ncols))
    return UNIT


def _rowmut_vals(I, v):
    return list(I.load(v.fields[0]).rows[v.fields[1]])


@model('ndarray::impl_methods::<impl ndarray::ArrayBase<S, D>>::multi_slice_mut')
def m_nd_multi_slice_mut(I, a, t, c):
    """`arr.multi_slice_mut((s![i, ..], s![j, ..]))`: disjoint mutable row views (ndarray panics when they overlap)"""
    n = _nd(I, a[0])
    infos = a[1]
    if not (isinstance(infos, Agg) and infos.kind == 'tuple'):
        raise Unsupported('multi_slice_mut with %r' % (infos,))
    out, seen = [], set()
    for info in infos.fields:
        info = deref_all(I, info) if isinstance(info, RefV) else info
        if not (isinstance(info, Agg) and info.kind == 'sliceinfo' and len(info.fields) == 2):
            raise Unsupported('multi_slice_mut with %r' % (info,))
        r, cc = info.fields
        if not (r.variant == 1 and cc.variant == 0):
            raise Unsupported('multi_slice_mut pattern %r' % (info,))
        i = r.fields[0]
        if i >= len(n.rows):
            raise Panic('ndarray-slice', 'row %d out of %d' % (i, len(n.rows)), t.span)
        if i in seen and n.ncols:
            raise Panic('ndarray-slice', 'multi_slice_mut: slices overlap (row %d)' % i, t.span)
        seen.add(i)
        out.append(Agg('ndrowmut', 0, [a[0], i]))
    return Agg('tuple', 0, out)


@model('<ndarray::Slice as std::convert::From<std::ops::RangeTo<usize>>>::from', '<ndarray::Slice as std::convert::From<std::ops::Range<usize>>>::from',
       '<ndarray::Slice as std::convert::From<std::ops::RangeFrom<usize>>>::from', '<ndarray::Slice as std::convert::From<std::ops::RangeFull>>::from')
def m_nd_slice_from(I, a, t, c):
    full = c.full or ''
    r = a[0] if a else None
    if 'RangeTo<' in full:
        return Agg('ndslice', 0, [0, I.conc(r.fields[0])])
    if 'RangeFrom<' in full:
        return Agg('ndslice', 0, [I.conc(r.fields[0]), None])
    if 'RangeFull' in full:
        return Agg('ndslice', 0, [0, None])
    return Agg('ndslice', 0, [I.conc(r.fields[0]), I.conc(r.fields[1])])


@model('ndarray::impl_methods::<impl ndarray::ArrayBase<S, D>>::slice_axis_inplace')
def m_nd_slice_axis_inplace(I, a, t, c):
    n = _nd(I, a[0])
    ax = _axis(I, a[1])
    sl = deref_all(I, a[2]) if isinstance(a[2], RefV) else a[2]
    if not (isinstance(sl, Agg) and sl.kind == 'ndslice'):
        raise Unsupported('slice_axis_inplace with %r' % (sl,))
    size = len(n.rows) if ax == 0 else n.ncols
    lo, hi = sl.fields
    hi = size if hi is None else hi
    if lo > hi or hi > size:
        raise Panic('ndarray-slice', 'range %d..%d out of %d' % (lo, hi, size), t.span)
    if ax == 0:
        I.store(a[0], Nd2(n.rows[lo:hi], n.ncols))
    else:
        I.store(a[0], Nd2([r[lo:hi] for r in n.rows], hi - lo))
    return UNIT


def _ok(v):
    return Agg('adt:std::result::Result', 0, [v])


@model('ndarray::impl_owned_array::<impl ndarray::ArrayBase<ndarray::OwnedRepr<A>, ndarray::Dim<[usize; 2]>>>::push_row')
def m_nd_push_row(I, a, t, c):
    n = I.load(a[0])
    row = _vals(I, a[1])
    if len(row) != n.ncols:
        return Agg('adt:std::result::Result', 1, [Opaque('ShapeError')])
    I.store(a[0], Nd2(n.rows + [row], n.ncols))
    return _ok(UNIT)


@model('ndarray::impl_owned_array::<impl ndarray::ArrayBase<ndarray::OwnedRepr<A>, ndarray::Dim<[usize; 2]>>>::push_column')
def m_nd_push_column(I, a, t, c):
    n = I.load(a[0])
    col = _vals(I, a[1])
    if len(col) != len(n.rows):
        return Agg('adt:std::result::Result', 1, [Opaque('ShapeError')])
    I.store(a[0], Nd2([r + [x] for r, x in zip(n.rows, col)], n.ncols + 1))
    return _ok(UNIT)


@model('std::result::Result::unwrap', 'std::result::Result::expect')
def m_result_unwrap(I, a, t, c):
    r = a[0]
    if isinstance(r, Agg) and r.kind == 'adt:std::result::Result':
        if r.variant == 0:
            return r.fields[0]
        raise Panic('unwrap-err', repr(r.fields[:1]), t.span)
    raise Unsupported('unwrap of %r' % (r,))


@model('ndarray::impl_methods::<impl ndarray::ArrayBase<S, D>>::outer_iter')
def m_nd_outer_iter(I, a, t, c):
    n = _nd(I, a[0])
    return Agg('iter', 0, [[_view1(r) for r in n.rows], 0])


@model('ndarray::impl_methods::<impl ndarray::ArrayBase<S, D>>::axis_iter')
def m_nd_axis_iter(I, a, t, c):
    n = _nd(I, a[0])
    ax = _axis(I, a[1])
    if ax == 0:
        return Agg('iter', 0, [[_view1(r) for r in n.rows], 0])
    return Agg('iter', 0, [[_view1([r[j] for r in n.rows]) for j in range(n.ncols)], 0])


@model('ndarray::impl_methods::<impl ndarray::ArrayBase<S, D>>::index_axis')
def m_nd_index_axis(I, a, t, c):
    n = _nd(I, a[0])
    ax = _axis(I, a[1])
    i = I.conc(a[2])
    if ax == 0:
        return _view1(n.rows[i])
    return _view1([r[i] for r in n.rows])


@model('ndarray::impl_methods::<impl ndarray::ArrayBase<S, D>>::t')
def m_nd_t(I, a, t, c):
    n = _nd(I, a[0])
    return Nd2([[r[j] for r in n.rows] for j in range(n.ncols)], len(n.rows))


@model('ndarray::impl_methods::<impl ndarray::ArrayBase<S, D>>::view')
def m_nd_view(I, a, t, c):
    try:
        return _nd(I, a[0])
    except Unsupported:
        return _view1(_vals(I, a[0]))


@model('ndarray::impl_2d::<impl ndarray::ArrayBase<S, ndarray::Dim<[usize; 2]>>>::row')
def m_nd_row(I, a, t, c):
    n = _nd(I, a[0])
    i = I.conc(a[1])
    if i >= len(n.rows):
        raise Panic('ndarray-index', 'row %d out of %d' % (i, len(n.rows)), t.span)
    return _view1(n.rows[i])


@model('ndarray::impl_2d::<impl ndarray::ArrayBase<S, ndarray::Dim<[usize; 2]>>>::column')
def m_nd_column(I, a, t, c):
    n = _nd(I, a[0])
    j = I.conc(a[1])
    if j >= n.ncols:
        raise Panic('ndarray-index', 'column %d out of %d' % (j, n.ncols), t.span)
    return _view1([r[j] for r in n.rows])


@model('ndarray::impl_2d::<impl ndarray::ArrayBase<S, ndarray::Dim<[usize; 2]>>>::ncols')
def m_nd_ncols(I, a, t, c):
    return BV(64, _nd(I, a[0]).ncols)


@model('ndarray::impl_2d::<impl ndarray::ArrayBase<S, ndarray::Dim<[usize; 2]>>>::nrows')
def m_nd_nrows(I, a, t, c):
    return BV(64, len(_nd(I, a[0]).rows))


@model('ndarray::impl_methods::<impl ndarray::ArrayBase<S, D>>::mapv_inplace')
def m_nd_mapv_inplace(I, a, t, c):
    n = I.load(a[0])
    I.store(a[0], Nd2([[I.call_closure(a[1], [x]) for x in r] for r in n.rows], n.ncols))
    return UNIT


@model('ndarray::impl_methods::<impl ndarray::ArrayBase<S, D>>::map')
def m_nd_map(I, a, t, c):
    n = _nd(I, a[0])
    return Nd2([[I.call_closure(a[1], [RefV(Cell(x, 'e'))]) for x in r] for r in n.rows], n.ncols)


@model('ndarray::numeric::impl_numeric::<impl ndarray::ArrayBase<S, D>>::sum_axis')
def m_nd_sum_axis(I, a, t, c):
    n = _nd(I, a[0])
    ax = _axis(I, a[1])
    if ax == 0:
        sums = [sum(I.conc(r[j]) if isinstance(r[j], BV) else 0 for r in n.rows) for j in range(n.ncols)]
    else:
        sums = [sum(I.conc(x) for x in r) for r in n.rows]
    w = n.rows[0][0].w if n.rows and n.rows[0] and isinstance(n.rows[0][0], BV) else 32
    return Agg('array', 0, [BV(w, s, signed=True) for s in sums])


@model('ndarray::impl_1d::<impl ndarray::ArrayBase<S, ndarray::Dim<[usize; 1]>>>::to_vec')
def m_nd_to_vec(I, a, t, c):
    v = a[0]
    if isinstance(v, Agg) and v.kind == 'array':
        return v
    return Agg('array', 0, _vals(I, v))


@model('ndarray::arraytraits::<impl std::convert::From<&Slice> for ndarray::ArrayBase<ndarray::ViewRepr<&A>, ndarray::Dim<[usize; 1]>>>::from')
def m_nd_view_from(I, a, t, c):
    return _view1(_vals(I, a[0]))


@model('ndarray::impl_methods::<impl ndarray::ArrayBase<S, D>>::as_slice')
def m_nd_as_slice(I, a, t, c):
    return some(a[0] if isinstance(a[0], RefV) and a[0].win is not None else _view1(_vals(I, a[0])))


@model('<std::vec::Vec<T, A> as std::clone::Clone>::clone', '<std::string::String as std::clone::Clone>::clone')
def m_clone(I, a, t, c):
    return deref_all(I, a[0])


@model('core::slice::<impl [T]>::is_empty')
def m_slice_is_empty(I, a, t, c):
    return bv_bool(_slice(I, a[0])[3] == 0)


@model('hashbrown::HashMap::reserve', 'std::vec::Vec::reserve')
def m_reserve(I, a, t, c):
    return UNIT


@model('hashbrown::HashMap::contains_key')
def m_map_contains_key(I, a, t, c):
    return bv_bool(_mkey(deref_all(I, a[1])) in deref_all(I, a[0]).d)


@model('hashbrown::HashMap::get')
def m_map_get(I, a, t, c):
    m = deref_all(I, a[0])
    k = _mkey(deref_all(I, a[1]))
    if k in m.d:
        return some(RefV(m.d[k][1]))
    return NONE


# ---- HashSet<T>: SetV (insertion-ordered dict key -> value)
class SetV:
    __slots__ = ('d',)

    def __init__(self, items=()):
        self.d = HashDict()
        for x in items:
            self.d[_skey(x)] = x

    def __repr__(self):
        return 'Set{%s}' % ', '.join(repr(v) for v in self.d.values())


def _skey(v):
    if isinstance(v, StrV):
        return ('str', _norm_chars(v.chars))
    return _mkey(v)


@model('hashbrown::HashSet::new')
def m_set_new(I, a, t, c):
    return SetV()


@model('<hashbrown::HashSet<T, S, A> as std::iter::FromIterator<T>>::from_iter')
def m_set_from_iter(I, a, t, c):
    return SetV([deref_all(I, x) if isinstance(x, RefV) else x for x in _iter_items(I, a[0])])


@model('hashbrown::HashSet::insert')
def m_set_insert(I, a, t, c):
    s = I.load(a[0])
    k = _skey(a[1])
    new = k not in s.d
    if new:
        s.d[k] = a[1]
    return bv_bool(new)


@model('hashbrown::HashSet::contains')
def m_set_contains(I, a, t, c):
    return bv_bool(_skey(deref_all(I, a[1])) in deref_all(I, a[0]).d)


@model('hashbrown::HashSet::remove')
def m_set_remove(I, a, t, c):
    s = I.load(a[0])
    k = _skey(deref_all(I, a[1]))
    had = k in s.d
    s.d.pop(k, None)
    return bv_bool(had)


@model('hashbrown::HashSet::len')
def m_set_len(I, a, t, c):
    return BV(64, len(deref_all(I, a[0]).d))


@model('hashbrown::HashSet::is_empty')
def m_set_is_empty(I, a, t, c):
    return bv_bool(len(deref_all(I, a[0]).d) == 0)


@model('<hashbrown::HashSet<T, S, A> as std::iter::IntoIterator>::into_iter')
def m_set_into_iter(I, a, t, c):
    return Agg('iter', 0, [list(deref_all(I, a[0]).d.values()), 0])


@model('std::cmp::PartialOrd::le', 'std::cmp::PartialOrd::lt', 'std::cmp::PartialOrd::ge', 'std::cmp::PartialOrd::gt')
def m_partial_ord(I, a, t, c):
    if 'log::Level' in (c.full or ''):
        return bv_bool(False)          # logging is disabled in the abstract runs
    op = {'le': 'Le', 'lt': 'Lt', 'ge': 'Ge', 'gt': 'Gt'}[c.name.split('::')[-1]]
    return I.binop(op, deref_all(I, a[0]), deref_all(I, a[1]))


@model('std::iter::Iterator::skip')
def m_skip(I, a, t, c):
    return Agg('iter', 0, [_iter_items(I, a[0])[I.conc(a[1]):], 0])


# ====================================================================== more iterator / Option / Vec adaptors
def _pred(I, clos, x, by_ref=True):
    r = I.call_closure(clos, [RefV(Cell(x, 'item')) if by_ref else x])
    return bool(I.conc(r, 'iterator predicate'))


@model('std::iter::Iterator::skip_while')
def m_skip_while(I, a, t, c):
    items = _iter_items(I, a[0])
    i = 0
    while i < len(items) and _pred(I, a[1], items[i]):
        i += 1
    return Agg('iter', 0, [items[i:], 0])


@model('std::iter::Iterator::take_while')
def m_take_while(I, a, t, c):
    items = _iter_items(I, a[0])
    i = 0
    while i < len(items) and _pred(I, a[1], items[i]):
        i += 1
    return Agg('iter', 0, [items[:i], 0])


@model('std::iter::Iterator::take')
def m_take(I, a, t, c):
    return Agg('iter', 0, [_iter_items(I, a[0])[:I.conc(a[1])], 0])


@model('std::iter::Iterator::step_by')
def m_step_by(I, a, t, c):
    return Agg('iter', 0, [_iter_items(I, a[0])[::I.conc(a[1])], 0])


@model('std::iter::Iterator::chain')
def m_chain(I, a, t, c):
    return Agg('iter', 0, [_iter_items(I, a[0]) + _iter_items(I, a[1]), 0])


@model('std::iter::Iterator::copied', 'std::iter::Iterator::cloned')
def m_copied(I, a, t, c):
    return Agg('iter', 0, [[deref_all(I, x) if isinstance(x, RefV) else x for x in _iter_items(I, a[0])], 0])


@model('std::iter::Iterator::any')
def m_any(I, a, t, c):
    it = I.load(a[0]) if isinstance(a[0], RefV) else a[0]
    for x in _iter_items(I, it):
        if _pred(I, a[1], x, by_ref=False):
            return bv_bool(True)
    return bv_bool(False)


@model('std::iter::Iterator::all')
def m_all(I, a, t, c):
    it = I.load(a[0]) if isinstance(a[0], RefV) else a[0]
    for x in _iter_items(I, it):
        if not _pred(I, a[1], x, by_ref=False):
            return bv_bool(False)
    return bv_bool(True)


@model('std::iter::Iterator::position')
def m_position(I, a, t, c):
    it = I.load(a[0]) if isinstance(a[0], RefV) else a[0]
    for i, x in enumerate(_iter_items(I, it)):
        if _pred(I, a[1], x, by_ref=False):
            return some(BV(64, i))
    return NONE


@model('std::iter::Iterator::rposition')
def m_rposition(I, a, t, c):
    it = I.load(a[0]) if isinstance(a[0], RefV) else a[0]
    items = _iter_items(I, it)
    for i in range(len(items) - 1, -1, -1):
        if _pred(I, a[1], items[i], by_ref=False):
            return some(BV(64, i))
    return NONE


@model('std::iter::Iterator::find')
def m_find(I, a, t, c):
    it = I.load(a[0]) if isinstance(a[0], RefV) else a[0]
    for x in _iter_items(I, it):
        if _pred(I, a[1], x):
            return some(x)
    return NONE


@model('std::iter::Iterator::last')
def m_last(I, a, t, c):
    items = _iter_items(I, a[0])
    return some(items[-1]) if items else NONE


@model('std::iter::Iterator::scan')
def m_scan(I, a, t, c):
    st = Cell(a[1], 'scan-state')
    out = []
    for x in _iter_items(I, a[0]):
        r = I.call_closure(a[2], [RefV(st), x])
        if isinstance(r, Agg) and r.kind == 'adt:std::option::Option' and r.variant == 0:
            break
        out.append(r.fields[0])
    return Agg('iter', 0, [out, 0])


@model('std::iter::Iterator::for_each')
def m_for_each(I, a, t, c):
    for x in _iter_items(I, a[0]):
        I.call_closure(a[1], [x])
    return UNIT


@model('std::iter::Iterator::filter_map')
def m_filter_map(I, a, t, c):
    out = []
    for x in _iter_items(I, a[0]):
        r = I.call_closure(a[1], [x])
        if isinstance(r, Agg) and r.kind == 'adt:std::option::Option' and r.variant == 1:
            out.append(r.fields[0])
    return Agg('iter', 0, [out, 0])


@model('std::iter::Iterator::max', 'std::iter::Iterator::min')
def m_iter_max(I, a, t, c):
    items = [deref_all(I, x) if isinstance(x, RefV) else x for x in _iter_items(I, a[0])]
    raw = _iter_items(I, a[0])
    if not items:
        return NONE
    vals = [I.conc(x) for x in items]
    if c.name.endswith('max'):
        m = max(vals)
        i = len(vals) - 1 - vals[::-1].index(m)          # last maximum
    else:
        i = vals.index(min(vals))                          # first minimum
    return some(raw[i])


@model('std::iter::Iterator::max_by_key', 'std::iter::Iterator::min_by_key')
def m_iter_max_by_key(I, a, t, c):
    raw = _iter_items(I, a[0])
    if not raw:
        return NONE
    keys = [I.conc(I.call_closure(a[1], [RefV(Cell(x, 'item'))])) for x in raw]
    if c.name.endswith('max_by_key'):
        m = max(keys)
        i = len(keys) - 1 - keys[::-1].index(m)
    else:
        i = keys.index(min(keys))
    return some(raw[i])


@model('std::option::Option::map_or', 'std::option::Option::<T>::map_or')
def m_opt_map_or(I, a, t, c):
    o = a[0]
    if o.variant == 1:
        return I.call_closure(a[2], [o.fields[0]])
    return a[1]


@model('std::option::Option::map', 'std::option::Option::<T>::map')
def m_opt_map(I, a, t, c):
    o = a[0]
    if o.variant == 1:
        return some(I.call_closure(a[1], [o.fields[0]]))
    return NONE


@model('std::option::Option::unwrap_or', 'std::option::Option::<T>::unwrap_or')
def m_opt_unwrap_or(I, a, t, c):
    return a[0].fields[0] if a[0].variant == 1 else a[1]


@model('std::option::Option::unwrap_or_default', 'std::option::Option::<T>::unwrap_or_default')
def m_opt_unwrap_or_default(I, a, t, c):
    if a[0].variant == 1:
        return a[0].fields[0]
    raise Unsupported('unwrap_or_default of None')


@model('std::vec::Vec::truncate')
def m_vec_truncate(I, a, t, c):
    v = I.load(a[0])
    n = I.conc(a[1])
    if n < len(v.fields):
        I.store(a[0], Agg('array', 0, v.fields[:n]))
    return UNIT


@model('std::vec::Vec::clear')
def m_vec_clear(I, a, t, c):
    I.store(a[0], Agg('array', 0, []))
    return UNIT


@model('std::vec::Vec::pop')
def m_vec_pop(I, a, t, c):
    v = I.load(a[0])
    if not v.fields:
        return NONE
    I.store(a[0], Agg('array', 0, v.fields[:-1]))
    return some(v.fields[-1])


@model('std::vec::Vec::insert')
def m_vec_insert(I, a, t, c):
    v = I.load(a[0])
    i = I.conc(a[1])
    if i > len(v.fields):
        raise Panic('insert-oob', 'Vec::insert index %d > len %d' % (i, len(v.fields)), t.span)
    I.store(a[0], Agg('array', 0, v.fields[:i] + [a[2]] + v.fields[i:]))
    return UNIT


@model('core::slice::<impl [T]>::reverse')
def m_slice_reverse(I, a, t, c):
    cell, path, s, n = _slice(I, a[0])
    v = I.load(RefV(cell, path))
    f = list(v.fields)
    f[s:s + n] = reversed(f[s:s + n])
    I.store(RefV(cell, path), Agg('array', 0, f))
    return UNIT


@model('core::slice::<impl [T]>::last')
def m_slice_last(I, a, t, c):
    cell, path, s, n = _slice(I, a[0])
    return some(RefV(cell, path + (s + n - 1,))) if n else NONE


@model('core::slice::<impl [T]>::first')
def m_slice_first(I, a, t, c):
    cell, path, s, n = _slice(I, a[0])
    return some(RefV(cell, path + (s,))) if n else NONE


@model('core::slice::<impl [T]>::contains')
def m_slice_contains(I, a, t, c):
    x = deref_all(I, a[1])
    return bv_bool(any(_deep_eq(I, y, x) for y in _vals(I, a[0])))


# ---- output sinks: needletail::parser::write_fasta records (id, seq) on the interpreter
def m_write_fasta(I, a, t, c):
    if not hasattr(I, 'fasta_out'):
        I.fasta_out = []
    I.fasta_out.append((_vals(I, a[0]), _vals(I, a[1])))
    return _ok(UNIT)


SUFFIX_MODELS['needletail::parser::write_fasta'] = m_write_fasta


@model('core::str::<impl str>::as_bytes', 'std::string::String::as_bytes')
def m_as_bytes(I, a, t, c):
    s = deref_all(I, a[0])
    if isinstance(s, StrV):
        out = []
        for ch in s.chars:
            if isinstance(ch, str):
                out.extend(BV(8, b) for b in ch.encode('utf-8'))
            elif isinstance(ch, BV) and ch.w == 32 and ch.val is not None:
                out.extend(BV(8, b) for b in chr(ch.val).encode('utf-8'))     # a `char` pushed into the String
            else:
                out.append(ch)
        return _view1(out)
    raise Unsupported('as_bytes of %r' % (s,))


@model('std::iter::Iterator::try_for_each')
def m_try_for_each(I, a, t, c):
    it = I.load(a[0]) if isinstance(a[0], RefV) else a[0]
    for x in _iter_items(I, it):
        r = I.call_closure(a[1], [x])
        if isinstance(r, Agg) and r.kind == 'adt:std::result::Result' and r.variant == 1:
            return r
    return _ok(UNIT)


@model('ndarray::impl_methods::<impl ndarray::ArrayBase<S, D>>::select')
def m_nd_select(I, a, t, c):
    ax = _axis(I, a[1])
    idx = [I.conc(deref_all(I, x)) for x in _vals(I, a[2])]
    try:
        n = _nd(I, a[0])
    except Unsupported:
        vals = _vals(I, a[0])                                  # 1-D
        return Agg('array', 0, [vals[i] for i in idx])
    if ax == 0:
        return Nd2([n.rows[i] for i in idx], n.ncols)
    return Nd2([[r[j] for j in idx] for r in n.rows], len(idx))


@model('ndarray::impl_methods::<impl ndarray::ArrayBase<S, D>>::to_owned', 'ndarray::impl_methods::<impl ndarray::ArrayBase<S, D>>::into_owned',
       '<ndarray::ArrayBase<S, D> as std::clone::Clone>::clone')
def m_nd_to_owned(I, a, t, c):
    n = _nd(I, a[0])
    return Nd2(n.rows, n.ncols)


@model('ndarray::impl_methods::<impl ndarray::ArrayBase<S, D>>::column')
def m_nd_column(I, a, t, c):
    n = _nd(I, a[0])
    j = I.conc(a[1])
    return _view1([r[j] for r in n.rows])


@model('ndarray::impl_methods::<impl ndarray::ArrayBase<S, D>>::row')
def m_nd_row(I, a, t, c):
    return _view1(_nd(I, a[0]).rows[I.conc(a[1])])


@model('ndarray::impl_methods::<impl ndarray::ArrayBase<S, D>>::rows', 'ndarray::impl_methods::<impl ndarray::ArrayBase<S, D>>::genrows')
def m_nd_rows(I, a, t, c):
    n = _nd(I, a[0])
    return Agg('iter', 0, [[_view1(r) for r in n.rows], 0])


@model('ndarray::impl_methods::<impl ndarray::ArrayBase<S, D>>::columns')
def m_nd_columns(I, a, t, c):
    n = _nd(I, a[0])
    return Agg('iter', 0, [[_view1([r[j] for r in n.rows]) for j in range(n.ncols)], 0])


@model('ndarray::impl_methods::<impl ndarray::ArrayBase<S, D>>::len_of')
def m_nd_len_of(I, a, t, c):
    n = _nd(I, a[0])
    return BV(64, len(n.rows) if _axis(I, a[1]) == 0 else n.ncols)


@model('ndarray::impl_methods::<impl ndarray::ArrayBase<S, D>>::dim')
def m_nd_dim(I, a, t, c):
    n = _nd(I, a[0])
    return Agg('tuple', 0, [BV(64, len(n.rows)), BV(64, n.ncols)])


@model('core::slice::<impl [T]>::binary_search')
def m_binary_search(I, a, t, c):
    vals = [I.conc(deref_all(I, x)) for x in _vals(I, a[0])]
    x = I.conc(deref_all(I, a[1]))
    if vals != sorted(vals):
        raise Unsupported('binary_search on an unsorted slice %r' % (vals,))
    import bisect
    i = bisect.bisect_left(vals, x)
    if i < len(vals) and vals[i] == x:
        return Agg('adt:std::result::Result', 0, [BV(64, i)])
    return Agg('adt:std::result::Result', 1, [BV(64, i)])


@model('std::result::Result::is_ok')
def m_res_is_ok(I, a, t, c):
    return bv_bool(deref_all(I, a[0]).variant == 0)


@model('std::result::Result::is_err')
def m_res_is_err(I, a, t, c):
    return bv_bool(deref_all(I, a[0]).variant == 1)


@model('std::vec::Vec::remove')
def m_vec_remove(I, a, t, c):
    v = I.load(a[0])
    i = I.conc(a[1])
    if i >= len(v.fields):
        raise Panic('remove-oob', 'Vec::remove index %d >= len %d' % (i, len(v.fields)), t.span)
    I.store(a[0], Agg('array', 0, v.fields[:i] + v.fields[i + 1:]))
    return v.fields[i]


@model('std::vec::Vec::retain')
def m_vec_retain(I, a, t, c):
    v = I.load(a[0])
    I.store(a[0], Agg('array', 0, [x for x in v.fields if _pred(I, a[1], x)]))
    return UNIT


@model('core::slice::<impl [T]>::sort', 'core::slice::<impl [T]>::sort_unstable')
def m_slice_sort(I, a, t, c):
    cell, path, s, n = _slice(I, a[0])
    v = I.load(RefV(cell, path))
    f = list(v.fields)
    from . import models_io as _mio
    f[s:s + n] = sorted(f[s:s + n], key=lambda x: _mio._ordkey(I, x))
    I.store(RefV(cell, path), Agg('array', 0, f))
    return UNIT


@model('std::vec::Vec::dedup')
def m_vec_dedup(I, a, t, c):
    v = I.load(a[0])
    out = []
    for x in v.fields:
        if not out or not _deep_eq(I, out[-1], x):
            out.append(x)
    I.store(a[0], Agg('array', 0, out))
    return UNIT


@model('std::vec::Vec::contains')
def m_vec_contains(I, a, t, c):
    x = deref_all(I, a[1])
    return bv_bool(any(_deep_eq(I, y, x) for y in I.load(a[0]).fields))


@model('ndarray::arraytraits::<impl std::ops::Index<I> for ndarray::ArrayBase<S, D>>::index',
       'ndarray::arraytraits::<impl std::ops::IndexMut<I> for ndarray::ArrayBase<S, D>>::index_mut')
def m_nd_index(I, a, t, c):
    r = a[0]
    if not isinstance(r, RefV):
        raise Unsupported('ndarray index on a non-reference')
    idx = a[1]
    if isinstance(idx, BV):                                   # 1-D view [i]
        v = I.load(r)
        while isinstance(v, RefV) and v.win is None and isinstance(I.load(v), RefV):
            v = I.load(v)
        view = v if isinstance(v, RefV) else r
        cell, path, s0, n0 = _slice(I, view)
        i = I.conc(idx)
        if i >= n0:
            raise Panic('ndarray-index', 'index %d out of %d' % (i, n0), t.span)
        return RefV(cell, path + (s0 + i,))
    if isinstance(idx, Agg) and len(idx.fields) == 2:
        i, j = I.conc(idx.fields[0]), I.conc(idx.fields[1])
    else:
        raise Unsupported('ndarray index %r' % (idx,))
    n = I.load(r)
    if type(n).__name__ != 'Nd2':
        raise Unsupported('ndarray index into %r' % (n,))
    if i >= len(n.rows) or j >= n.ncols:
        raise Panic('ndarray-index', 'index (%d, %d) out of (%d, %d)' % (i, j, len(n.rows), n.ncols), t.span)
    return RefV(r.cell, r.path + (('nd', i, j),))


# ---- ASCII case helpers on u8 / [u8]
def _upper(I, x):
    x = deref_all(I, x) if isinstance(x, RefV) else x
    if isinstance(x, BV) and x.val is not None:
        return BV(x.w, x.val - 32 if 97 <= x.val <= 122 else x.val)
    raise Unsupported('to_ascii_uppercase of %r' % (x,))


def _lower(I, x):
    x = deref_all(I, x) if isinstance(x, RefV) else x
    if isinstance(x, BV) and x.val is not None:
        return BV(x.w, x.val + 32 if 65 <= x.val <= 90 else x.val)
    raise Unsupported('to_ascii_lowercase of %r' % (x,))


@model('core::num::<impl u8>::to_ascii_uppercase')
def m_u8_upper(I, a, t, c):
    return _upper(I, a[0])


@model('core::num::<impl u8>::to_ascii_lowercase')
def m_u8_lower(I, a, t, c):
    return _lower(I, a[0])


@model('core::slice::ascii::<impl [u8]>::make_ascii_uppercase', 'core::slice::ascii::<impl [u8]>::make_ascii_lowercase')
def m_slice_make_case(I, a, t, c):
    cell, path, s, n = _slice(I, a[0])
    v = I.load(RefV(cell, path))
    f = list(v.fields)
    fn = _upper if c.name.endswith('uppercase') else _lower
    f[s:s + n] = [fn(I, x) for x in f[s:s + n]]
    I.store(RefV(cell, path), Agg('array', 0, f))
    return UNIT


@model('core::slice::ascii::<impl [u8]>::to_ascii_uppercase', 'core::slice::ascii::<impl [u8]>::to_ascii_lowercase',
       'std::slice::<impl [u8]>::to_ascii_uppercase', 'std::slice::<impl [u8]>::to_ascii_lowercase')
def m_slice_to_case(I, a, t, c):
    fn = _upper if c.name.endswith('uppercase') else _lower
    return Agg('array', 0, [fn(I, x) for x in _vals(I, a[0])])


@model('std::slice::<impl [T]>::to_vec', 'core::slice::<impl [T]>::to_vec', 'alloc::slice::<impl [T]>::to_vec')
def m_slice_to_vec(I, a, t, c):
    return Agg('array', 0, list(_vals(I, a[0])))


# ====================================================================== rayon, modelled sequentially in index order
# (the analysed closures capture no shared mutable state - C11.capture - so a sequential schedule is one valid schedule;
#  what these models let a rule decide is WHICH element each closure instance receives, for every chunking scheme)
@model('rayon::ThreadPoolBuilder::new')
def m_rayon_tpb_new(I, a, t, c):
    return Opaque('ThreadPoolBuilder')


@model('rayon::ThreadPoolBuilder::num_threads')
def m_rayon_tpb_threads(I, a, t, c):
    return Opaque('ThreadPoolBuilder')


@model('rayon::ThreadPoolBuilder::build_global')
def m_rayon_build_global(I, a, t, c):
    I.trace.append(('build_global', None))
    return _ok(UNIT)


@model('<I as rayon::iter::IntoParallelRefMutIterator>::par_iter_mut', 'rayon::iter::IntoParallelRefMutIterator::par_iter_mut',
       '<I as rayon::iter::IntoParallelRefIterator>::par_iter', 'rayon::iter::IntoParallelRefIterator::par_iter')
def m_par_iter_mut(I, a, t, c):
    v = a[0]
    if isinstance(v, RefV):
        tgt = I.load(v)
        if type(tgt).__name__ == 'SetV':
            return Agg('iter', 0, [[RefV(Cell(x, 'elem')) for x in tgt.d.values()], 0])
        if isinstance(tgt, MapV):
            return Agg('iter', 0, [[Agg('tuple', 0, [RefV(Cell(kv, 'key')), RefV(cell)]) for (kv, cell) in tgt.d.values()], 0])
        if isinstance(tgt, Agg) and tgt.kind == 'array' and v.win is None:
            return Agg('iter', 0, [[RefV(v.cell, v.path + (i,)) for i in range(len(tgt.fields))], 0])
        cell, path, s, n = _slice(I, v)
        return Agg('iter', 0, [[RefV(cell, path + (s + i,)) for i in range(n)], 0])
    raise Unsupported('par_iter_mut of %r' % (v,))


@model('rayon::iter::IndexedParallelIterator::enumerate')
def m_par_enumerate(I, a, t, c):
    return m_enumerate(I, a, t, c)


@model('rayon::iter::ParallelIterator::for_each')
def m_par_for_each(I, a, t, c):
    return m_for_each(I, a, t, c)


@model('rayon::iter::ParallelIterator::map')
def m_par_map(I, a, t, c):
    return m_map(I, a, t, c)


@model('rayon::iter::IndexedParallelIterator::zip')
def m_par_zip(I, a, t, c):
    return m_zip(I, a, t, c)


def _chunks(I, a, exact):
    v = a[0]
    n = I.conc(a[1])
    if n == 0:
        raise Panic('chunk-size-zero', 'chunk size must be non-zero', None)
    if isinstance(v, RefV):
        tgt = I.load(v)
        if isinstance(tgt, Agg) and tgt.kind == 'array' and v.win is None:
            cell, path, s, L = v.cell, v.path, 0, len(tgt.fields)
        else:
            cell, path, s, L = _slice(I, v)
    else:
        raise Unsupported('chunks of %r' % (v,))
    out = []
    i = 0
    while i < L:
        m = min(n, L - i)
        if m < n and exact:
            break
        out.append(RefV(cell, path, (s + i, m)))
        i += m
    return Agg('iter', 0, [out, 0])


@model('rayon::slice::ParallelSliceMut::par_chunks_mut', 'rayon::slice::ParallelSlice::par_chunks', 'rayon::prelude::ParallelSliceMut::par_chunks_mut', 'rayon::prelude::ParallelSlice::par_chunks',
       'core::slice::<impl [T]>::chunks', 'core::slice::<impl [T]>::chunks_mut')
def m_par_chunks_mut(I, a, t, c):
    return _chunks(I, a, False)


@model('rayon::slice::ParallelSliceMut::par_chunks_exact_mut', 'rayon::slice::ParallelSlice::par_chunks_exact', 'rayon::prelude::ParallelSliceMut::par_chunks_exact_mut', 'rayon::prelude::ParallelSlice::par_chunks_exact',
       'core::slice::<impl [T]>::chunks_exact', 'core::slice::<impl [T]>::chunks_exact_mut')
def m_par_chunks_exact_mut(I, a, t, c):
    return _chunks(I, a, True)


# ---- ndarray s![..] slicing (2-D source): [.., j] column view, [i, ..] row view, [.., ..] whole
@model('ndarray::SliceNextDim::next_in_dim', 'ndarray::SliceNextDim::next_out_dim')
def m_nd_next_dim(I, a, t, c):
    return Opaque('PhantomDim')


@model('<ndarray::SliceInfoElem as std::convert::From<std::ops::RangeFull>>::from')
def m_nd_sie_full(I, a, t, c):
    return Agg('sliceelem', 0, ['full'])


@model('<ndarray::SliceInfoElem as std::convert::From<usize>>::from', '<ndarray::SliceInfoElem as std::convert::From<isize>>::from')
def m_nd_sie_index(I, a, t, c):
    return Agg('sliceelem', 1, [I.conc(a[0])])


@model('<ndarray::SliceInfoElem as std::convert::From<std::ops::Range<usize>>>::from')
def m_nd_sie_range(I, a, t, c):
    r = a[0]
    return Agg('sliceelem', 2, [I.conc(r.fields[0]), I.conc(r.fields[1])])


@model('ndarray::SliceInfo::new_unchecked')
def m_nd_sliceinfo(I, a, t, c):
    return Agg('sliceinfo', 0, list(a[0].fields))


@model('ndarray::impl_methods::<impl ndarray::ArrayBase<S, D>>::slice')
def m_nd_slice(I, a, t, c):
    n = _nd(I, a[0])
    info = deref_all(I, a[1])
    if not (isinstance(info, Agg) and info.kind == 'sliceinfo' and len(info.fields) == 2):
        raise Unsupported('slice with %r' % (info,))
    r, cc = info.fields

    def span(e, size):
        if e.variant == 0:
            return 0, size
        lo, hi = e.fields
        if lo > hi or hi > size:
            raise Panic('ndarray-slice', 'range %d..%d out of %d' % (lo, hi, size), t.span)
        return lo, hi
    if r.variant in (0, 2) and cc.variant in (0, 2) and (r.variant == 2 or cc.variant == 2):
        r0, r1 = span(r, len(n.rows))
        c0, c1 = span(cc, n.ncols)
        return Nd2([row[c0:c1] for row in n.rows[r0:r1]], c1 - c0)
    if r.variant == 0 and cc.variant == 1:
        j = cc.fields[0]
        if j >= n.ncols:
            raise Panic('ndarray-slice', 'column %d out of %d' % (j, n.ncols), t.span)
        return _view1([row[j] for row in n.rows])
    if r.variant == 1 and cc.variant == 0:
        i = r.fields[0]
        if i >= len(n.rows):
            raise Panic('ndarray-slice', 'row %d out of %d' % (i, len(n.rows)), t.span)
        return _view1(n.rows[i])
    if r.variant == 0 and cc.variant == 0:
        return Nd2(n.rows, n.ncols)
    raise Unsupported('slice pattern %r' % (info,))


@model('rayon::join', 'rayon_core::join', 'rayon_core::join::join')
def m_rayon_join(I, a, t, c):
    ra = I.call_closure(a[0], [])
    rb = I.call_closure(a[1], [])
    return Agg('tuple', 0, [ra, rb])


@model('core::slice::<impl [T]>::split_at')
def m_split_at(I, a, t, c):
    cell, path, s, n = _slice(I, a[0])
    m = I.conc(a[1])
    if m > n:
        raise Panic('split_at', 'mid %d > len %d' % (m, n), t.span)
    return Agg('tuple', 0, [RefV(cell, path, (s, m)), RefV(cell, path, (s + m, n - m))])


@model('core::slice::<impl [T]>::split_at_mut')
def m_split_at_mut(I, a, t, c):
    return m_split_at(I, a, t, c)


@model('<hashbrown::HashMap<K, V, S, A> as std::ops::Index<&Q>>::index', '<std::collections::HashMap<K, V, S> as std::ops::Index<&Q>>::index')
def m_map_index(I, a, t, c):
    m = deref_all(I, a[0])
    k = _mkey(deref_all(I, a[1]))
    if k not in m.d:
        raise Panic('hashmap-index', 'key not found', t.span)
    return RefV(m.d[k][1])


# ====================================================================== needletail over a virtual file table
# A rule installs  I.files = {path: ('fasta'|'fastq', [(id, seq, qual|None), ...])}.  parse_fastx_file(path) yields the
# records in order; nothing touches the disk.  The parser itself (line wrapping, gzip) stays trusted.
def _strval(I, v):
    while isinstance(v, RefV):
        v = I.load(v)
    if isinstance(v, StrV):
        return ''.join(c if isinstance(c, str) else chr(c.val) for c in v.chars)
    raise Unsupported('not a string: %r' % (v,))


def m_parse_fastx_file(I, a, t, c):
    path = _strval(I, a[0])
    files = getattr(I, 'files', None)
    if files is None:
        raise Unsupported('parse_fastx_file(%r) without a virtual file table' % path)
    if path not in files:
        return Agg('adt:std::result::Result', 1, [Opaque(('ParseError', path))])
    fmt, recs = files[path]
    items = []
    for (rid, seq, qual) in recs:
        rec = Agg('seqrec', 0, [Cell(Agg('array', 0, [BV(8, ord(ch)) for ch in rid]), 'id'),
                                Cell(Agg('array', 0, [BV(8, ord(ch)) for ch in seq]), 'seq'),
                                Cell(Agg('array', 0, [BV(8, q) for q in qual]), 'qual') if qual is not None else None,
                                1 if fmt == 'fastq' else 0])
        items.append(_ok(rec))
    I.trace.append(('open', path))
    # Box<dyn FastxReader>: Box { 0: Unique { pointer: NonNull(ptr) } } - MIR reads `box.0.0` and transmutes it to *const dyn
    return _ok(Agg('box', 0, [Agg('unique', 0, [RefV(Cell(Agg('iter', 0, [items, 0]), 'fastx-reader'))])]))


SUFFIX_MODELS['needletail::parse_fastx_file'] = m_parse_fastx_file


def _rec(I, v):
    while isinstance(v, RefV):
        v = I.load(v)
    if isinstance(v, Agg) and v.kind == 'seqrec':
        return v
    raise Unsupported('not a sequence record: %r' % (v,))


def m_seqrec_seq(I, a, t, c):
    r = _rec(I, a[0])
    n = len(r.fields[1].v.fields)
    return Agg('cow', 0, [RefV(r.fields[1], (), (0, n))])


def m_seqrec_num_bases(I, a, t, c):
    return BV(64, len(_rec(I, a[0]).fields[1].v.fields))


def m_seqrec_qual(I, a, t, c):
    r = _rec(I, a[0])
    if r.fields[2] is None:
        return NONE
    return some(RefV(r.fields[2], (), (0, len(r.fields[2].v.fields))))


def m_seqrec_id(I, a, t, c):
    r = _rec(I, a[0])
    return RefV(r.fields[0], (), (0, len(r.fields[0].v.fields)))


def m_seqrec_format(I, a, t, c):
    paths = [p for p in I.facts.adts if p.endswith('needletail::parser::Format')]
    kind = 'adt:' + (paths[0] if paths else 'needletail::parser::Format')      # same representation as the crate's constants
    return Agg(kind, _rec(I, a[0]).fields[3], [])


SUFFIX_MODELS['needletail::parser::SequenceRecord::seq'] = m_seqrec_seq
SUFFIX_MODELS['needletail::parser::SequenceRecord::raw_seq'] = m_seqrec_seq
SUFFIX_MODELS['needletail::parser::SequenceRecord::num_bases'] = m_seqrec_num_bases
SUFFIX_MODELS['needletail::parser::SequenceRecord::qual'] = m_seqrec_qual
SUFFIX_MODELS['needletail::parser::SequenceRecord::id'] = m_seqrec_id
SUFFIX_MODELS['needletail::parser::SequenceRecord::format'] = m_seqrec_format


def m_format_eq(I, a, t, c):
    def idx(v):
        v = deref_all(I, v)
        if isinstance(v, Agg):
            return v.variant
        return I.conc(v)
    return bv_bool(idx(a[0]) == idx(a[1]))


SUFFIX_MODELS['needletail::parser::Format as std::cmp::PartialEq>::eq'] = m_format_eq


@model('std::result::Result::unwrap_or_else')
def m_res_unwrap_or_else(I, a, t, c):
    r = a[0]
    if r.variant == 0:
        return r.fields[0]
    return I.call_closure(a[1], [r.fields[0]])


@model('std::f64::<impl f64>::round')
def m_f64_round(I, a, t, c):
    import math
    x = a[0]
    return float(math.floor(abs(x) + 0.5)) * (1 if x >= 0 else -1)


def m_format_ne(I, a, t, c):
    return bv_bool(not I.conc(m_format_eq(I, a, t, c)))


SUFFIX_MODELS['needletail::parser::Format as std::cmp::PartialEq>::ne'] = m_format_ne


# ---- str helpers used on record ids
@model('std::str::from_utf8', 'core::str::from_utf8')
def m_from_utf8(I, a, t, c):
    vals = _vals(I, a[0])
    return _ok(RefV(Cell(StrV([chr(I.conc(x)) for x in vals]), 'utf8')))


@model('core::str::<impl str>::split_whitespace')
def m_split_whitespace(I, a, t, c):
    s = _strval(I, a[0])
    return Agg('iter', 0, [[RefV(Cell(StrV(list(w)), 'word')) for w in s.split()], 0])


@model('core::str::<impl str>::to_string', 'alloc::string::ToString::to_string', '<str as std::string::ToString>::to_string')
def m_str_to_string(I, a, t, c):
    return StrV(list(_strval(I, a[0])))


@model('<std::borrow::Cow<B> as std::ops::Deref>::deref')
def m_cow_deref2(I, a, t, c):
    v = deref_all(I, a[0]) if not (isinstance(a[0], Agg) and a[0].kind == 'cow') else a[0]
    if isinstance(v, Agg) and v.kind == 'cow':
        return v.fields[0]
    raise Unsupported('Cow deref of %r' % (v,))


# ---- hashbrown::HashSet::entry (Occupied = 0 / Vacant = 1) with VacantEntry::insert
@model('hashbrown::HashSet::entry')
def m_set_entry(I, a, t, c):
    s = I.load(a[0])
    k = _skey(a[1])
    payload = Agg('setentry', 0, [a[0], a[1]])
    return Agg('adt:hashbrown::hash_set::Entry', 0 if k in s.d else 1, [payload])


@model('hashbrown::hash_set::VacantEntry::insert')
def m_set_vacant_insert(I, a, t, c):
    e = a[0]
    setref, key = e.fields
    s = I.load(setref)
    s.d[_skey(key)] = key
    return UNIT


@model('hashbrown::hash_set::Entry::insert', 'hashbrown::hash_set::Entry::or_insert')
def m_set_entry_insert(I, a, t, c):
    e = a[0]
    if e.variant == 1:
        m_set_vacant_insert(I, [e.fields[0]], t, c)
    return UNIT


@model('indicatif::ProgressIterator::progress', 'indicatif::ProgressIterator::progress_count', 'indicatif::ParallelProgressIterator::progress_count',
       'indicatif::ParallelProgressIterator::progress')
def m_progress(I, a, t, c):
    return a[0]


@model('std::f64::<impl f64>::log2')
def m_f64_log2(I, a, t, c):
    import math
    x = a[0]
    if x <= 0:
        return float('-inf') if x == 0 else float('nan')
    return math.log2(x)


@model('std::f64::<impl f64>::floor')
def m_f64_floor(I, a, t, c):
    import math
    return float(math.floor(a[0]))


@model('std::f64::<impl f64>::ceil')
def m_f64_ceil(I, a, t, c):
    import math
    return float(math.ceil(a[0]))


# ---- the `?` operator on Result / Option: ControlFlow::Continue(v) = variant 0, Break(residual) = variant 1
@model('<std::result::Result<T, E> as std::ops::Try>::branch')
def m_result_branch(I, a, t, c):
    r = a[0]
    if r.variant == 0:
        return Agg('adt:std::ops::ControlFlow', 0, [r.fields[0]])
    return Agg('adt:std::ops::ControlFlow', 1, [Agg('adt:std::result::Result', 1, [r.fields[0]])])


@model('<std::option::Option<T> as std::ops::Try>::branch')
def m_option_branch(I, a, t, c):
    o = a[0]
    if o.variant == 1:
        return Agg('adt:std::ops::ControlFlow', 0, [o.fields[0]])
    return Agg('adt:std::ops::ControlFlow', 1, [NONE])


@model('<std::result::Result<T, F> as std::ops::FromResidual<std::result::Result<std::convert::Infallible, E>>>::from_residual')
def m_result_from_residual(I, a, t, c):
    return Agg('adt:std::result::Result', 1, [a[0].fields[0]])


@model('rayon::iter::IntoParallelIterator::into_par_iter', '<I as rayon::iter::IntoParallelIterator>::into_par_iter')
def m_into_par_iter(I, a, t, c):
    return m_into_iter(I, a, t, c)


@model('rayon::iter::IndexedParallelIterator::collect_into_vec')
def m_collect_into_vec(I, a, t, c):
    I.store(a[1], Agg('array', 0, _iter_items(I, a[0])))
    return UNIT


@model('rayon::iter::ParallelIterator::collect')
def m_par_collect(I, a, t, c):
    return m_collect(I, a, t, c)

from . import models_io  # noqa: E402,F401  (registers formatting / output / concurrency models)
from . import models_vcf  # noqa: E402,F401  (symbolic noodles_vcf builders)
from . import models_std  # noqa: E402,F401
