"""Models for formatting and output sinks (core::fmt, std::io::Write, File/BufWriter), DashMap / Mutex / Arc, and the
remaining library calls of the `ska lo` pipeline.  Imported by interp.py (registers into MODELS / SUFFIX_MODELS).

Formatting follows the template encoding documented in library/core/src/fmt/mod.rs of the toolchain the facts were
extracted with: literal pieces are length-prefixed, 0xC0.. bytes are placeholders with optional flags / width / precision /
arg index, a zero byte ends the template.
"""
from .values import BV, Agg, RefV, Cell, Opaque, StrV, UNIT
from . import interp as M

model = M.model
Unsupported = M.Unsupported
Panic = M.Panic


def _deref(I, v):
    while isinstance(v, RefV):
        v = I.load(v)
    return v


# ------------------------------------------------------------------ fmt
def _render(I, kind, v, flags=0, width=None, precision=None):
    v = _deref(I, v)
    if isinstance(v, StrV):
        s = ''.join(c if isinstance(c, str) else chr(I.conc(c)) for c in v.chars)
        if kind == 'debug':
            s = '"%s"' % s
    elif isinstance(v, float):
        s = ('%.*f' % (precision, v)) if precision is not None else repr(v)
    elif isinstance(v, BV):
        if v.val is None:
            raise Unsupported('formatting a symbolic integer')
        if v.w == 1:
            s = 'true' if v.val else 'false'
        elif getattr(v, 'is_char', False):
            s = chr(v.val)
        else:
            n = v.val
            if v.signed and n >= 1 << (v.w - 1):
                n -= 1 << v.w
            s = str(n)
    elif isinstance(v, Agg) and v.kind == 'char':
        s = chr(v.fields[0])
    elif isinstance(v, Agg) and v.kind == 'array' and kind == 'debug':
        s = '[%s]' % ', '.join(_render(I, 'debug', x) for x in v.fields)
    else:
        raise Unsupported('formatting %r with {%s}' % (v, kind))
    if width is not None and len(s) < width:
        s = s + ' ' * (width - len(s)) if not isinstance(v, (BV, float)) else ' ' * (width - len(s)) + s
    return s


def render_args(I, a):
    a = _deref(I, a)
    if isinstance(a, Agg) and a.kind == 'fmtstr':
        return a.fields[0]
    if not (isinstance(a, Agg) and a.kind == 'fmtargs'):
        raise Unsupported('not fmt::Arguments: %r' % (a,))
    tpl, args = a.fields
    out = []
    i = 0
    argi = 0
    while True:
        n = tpl[i]
        i += 1
        if n == 0:
            break
        if n < 0x80:
            out.append(bytes(tpl[i:i + n]).decode('utf-8'))
            i += n
        elif n == 0x80:
            ln = tpl[i] | (tpl[i + 1] << 8)
            i += 2
            out.append(bytes(tpl[i:i + ln]).decode('utf-8'))
            i += ln
        else:
            flags = width = precision = None
            if n & 1:
                flags = int.from_bytes(bytes(tpl[i:i + 4]), 'little')
                i += 4
            if n & 2:
                width = tpl[i] | (tpl[i + 1] << 8)
                i += 2
            if n & 4:
                precision = tpl[i] | (tpl[i + 1] << 8)
                i += 2
            if n & 8:
                argi = tpl[i] | (tpl[i + 1] << 8)
                i += 2
            if n & 48:
                raise Unsupported('dynamic width / precision in a format string')
            kind, val = args[argi]
            out.append(_render(I, kind, val, flags or 0, width, precision))
            argi += 1
    return ''.join(out)


@model('core::fmt::rt::Argument::new_display')
def m_arg_display(I, a, t, c):
    return Agg('fmtarg', 0, ['display', a[0]])


@model('core::fmt::rt::Argument::new_debug')
def m_arg_debug(I, a, t, c):
    return Agg('fmtarg', 0, ['debug', a[0]])


@model('std::fmt::Arguments::new')
def m_args_new(I, a, t, c):
    tv = _deref(I, a[0])
    if isinstance(tv, Agg) and tv.kind == 'array':
        tpl = [I.conc(x) for x in tv.fields]
    else:
        raise Unsupported('format template %r' % (tv,))
    av = I.load(a[1]) if isinstance(a[1], RefV) else a[1]
    args = []
    for x in av.fields:
        if not (isinstance(x, Agg) and x.kind == 'fmtarg'):
            raise Unsupported('format argument %r' % (x,))
        args.append((x.fields[0], x.fields[1]))
    return Agg('fmtargs', 0, [tpl, args])


@model('std::fmt::Arguments::from_str')
def m_args_from_str(I, a, t, c):
    return Agg('fmtstr', 0, [M._strval(I, a[0])])


@model('std::fmt::format', 'alloc::fmt::format')
def m_fmt_format(I, a, t, c):
    return StrV(list(render_args(I, a[0])))


@model('std::hint::must_use')
def m_must_use(I, a, t, c):
    return a[0]


# ------------------------------------------------------------------ output sinks
def _sink_of(I, w):
    """follow references / BufWriter / Box wrappers down to the sink cell (a 'sink' aggregate holding the text written)"""
    v = w
    hops = 0
    while hops < 8:
        hops += 1
        if isinstance(v, RefV):
            tgt = I.load(v)
            if isinstance(tgt, Agg) and tgt.kind == 'sink':
                return v
            v = tgt
            continue
        if isinstance(v, Agg) and v.kind in ('bufwriter', 'box', 'unique') and v.fields:
            v = v.fields[0]
            continue
        break
    raise Unsupported('write to %r' % (w,))


@model('std::fs::File::create')
def m_file_create(I, a, t, c):
    path = M._strval(I, a[0])
    outs = getattr(I, 'out_files', None)
    if outs is None:
        raise Unsupported('File::create(%r) without an output table' % path)
    cell = Cell(Agg('sink', 0, [path, []]), 'file:' + path)
    outs[path] = cell
    return M._ok(RefV(cell))


@model('std::io::BufWriter::new')
def m_bufwriter_new(I, a, t, c):
    return Agg('bufwriter', 0, [a[0]])


@model('std::io::Write::write_fmt')
def m_write_fmt(I, a, t, c):
    ref = _sink_of(I, a[0])
    s = I.load(ref)
    I.store(ref, Agg('sink', 0, [s.fields[0], s.fields[1] + [render_args(I, a[1])]]))
    return M._ok(UNIT)


@model('std::io::Write::write_all')
def m_write_all(I, a, t, c):
    ref = _sink_of(I, a[0])
    s = I.load(ref)
    txt = ''.join(chr(I.conc(x)) for x in M._vals(I, a[1]))
    I.store(ref, Agg('sink', 0, [s.fields[0], s.fields[1] + [txt]]))
    return M._ok(UNIT)


@model('std::io::Write::flush')
def m_flush(I, a, t, c):
    return M._ok(UNIT)


def sink_text(I, path):
    cell = I.out_files[path]
    return ''.join(cell.v.fields[1])


# ------------------------------------------------------------------ Box::new_uninit / vec![..] lowering
@model('std::boxed::Box::new_uninit')
def m_box_new_uninit(I, a, t, c):
    return Agg('box', 0, [Agg('unique', 0, [RefV(Cell(Agg('uninit', 0, []), 'box-uninit'))])])


@model('std::boxed::box_assume_init_into_vec_unsafe')
def m_box_into_vec(I, a, t, c):
    b = a[0]
    v = b
    while isinstance(v, Agg) and v.kind in ('box', 'unique'):
        v = v.fields[0]
    v = _deref(I, v)
    # MaybeUninit<[T; N]> { uninit: (), value: ManuallyDrop { value: [T; N] } }: dig to the array
    hops = 0
    while isinstance(v, Agg) and v.kind != 'array' and hops < 6:
        nxt = [x for x in v.fields if x is not None]
        if not nxt:
            break
        v = nxt[-1]
        hops += 1
    if isinstance(v, Agg) and v.kind == 'array':
        return Agg('array', 0, list(v.fields))
    raise Unsupported('box_assume_init_into_vec of %r' % (v,))


@model('std::boxed::Box::new')
def m_box_new(I, a, t, c):
    return Agg('box', 0, [Agg('unique', 0, [RefV(Cell(a[0], 'boxed'))])])


# ------------------------------------------------------------------ DashMap (a MapV mutated through shared references), Mutex, Arc
MapV = M.MapV
_mkey = M._mkey


def _map(I, v):
    v = _deref(I, v)
    if isinstance(v, MapV):
        return v
    raise Unsupported('not a map: %r' % (v,))


@model('dashmap::DashMap::new', 'dashmap::DashMap::with_capacity', 'hashbrown::HashMap::with_capacity', 'std::collections::HashMap::with_capacity')
def m_dm_new(I, a, t, c):
    return MapV()


@model('dashmap::DashMap::entry', 'std::collections::HashMap::entry')
def m_dm_entry(I, a, t, c):
    return Agg('entry', 0, [a[0], a[1]])


def _ent(I, e):
    while isinstance(e, RefV):
        e = I.load(e)
    if e.kind.startswith('adt:'):          # hashbrown::hash_map::Entry value (Occupied / Vacant around the (map, key) payload)
        e = e.fields[0]
    m = _map(I, e.fields[0])
    return m, _mkey(e.fields[1]), e.fields[1]


@model('dashmap::Entry::or_default', 'hashbrown::hash_map::Entry::or_default', 'std::collections::hash_map::Entry::or_default')
def m_entry_or_default(I, a, t, c):
    m, k, kv = _ent(I, a[0])
    if k not in m.d:
        full = c.full or ''
        dv = Agg('array', 0, [])             # Vec / String-like defaults; the only value types used with or_default here are Vec<_>
        m.d[k] = (kv, Cell(dv, 'mapval'))
    return RefV(m.d[k][1])


@model('dashmap::Entry::or_insert_with', 'std::collections::hash_map::Entry::or_insert_with')
def m_dm_or_insert_with(I, a, t, c):
    m, k, kv = _ent(I, a[0])
    if k not in m.d:
        m.d[k] = (kv, Cell(I.call_closure(a[1], []), 'mapval'))
    return RefV(m.d[k][1])


@model('dashmap::Entry::or_insert', 'std::collections::hash_map::Entry::or_insert')
def m_dm_or_insert(I, a, t, c):
    m, k, kv = _ent(I, a[0])
    if k not in m.d:
        m.d[k] = (kv, Cell(a[1], 'mapval'))
    return RefV(m.d[k][1])


@model('<dashmap::mapref::one::RefMut<K, V> as std::ops::DerefMut>::deref_mut', '<dashmap::mapref::one::RefMut<K, V> as std::ops::Deref>::deref',
       '<dashmap::mapref::one::Ref<K, V> as std::ops::Deref>::deref')
def m_dm_ref_deref(I, a, t, c):
    v = a[0]
    if isinstance(v, RefV):
        inner = I.load(v)
        if isinstance(inner, RefV):
            return inner
    return v


@model('dashmap::DashMap::contains_key')
def m_dm_contains(I, a, t, c):
    return M.bv_bool(_mkey(_deref(I, a[1])) in _map(I, a[0]).d)


@model('dashmap::DashMap::get', 'dashmap::DashMap::get_mut', 'hashbrown::HashMap::get_mut', 'std::collections::HashMap::get', 'std::collections::HashMap::get_mut')
def m_dm_get(I, a, t, c):
    m = _map(I, a[0])
    k = _mkey(_deref(I, a[1]))
    if k in m.d:
        return M.some(RefV(m.d[k][1]))
    return M.NONE


@model('dashmap::DashMap::insert', 'std::collections::HashMap::insert')
def m_dm_insert(I, a, t, c):
    m = _map(I, a[0])
    k = _mkey(a[1])
    old = m.d.get(k)
    m.d[k] = (a[1], Cell(a[2], 'mapval'))
    return M.some(old[1].v) if old else M.NONE


@model('hashbrown::HashMap::remove', 'std::collections::HashMap::remove', 'dashmap::DashMap::remove')
def m_map_remove(I, a, t, c):
    m = _map(I, a[0])
    k = _mkey(_deref(I, a[1]))
    old = m.d.pop(k, None)
    return M.some(old[1].v) if old else M.NONE


@model('hashbrown::HashMap::is_empty', 'std::collections::HashMap::is_empty', 'dashmap::DashMap::is_empty')
def m_map_is_empty(I, a, t, c):
    return M.bv_bool(len(_map(I, a[0]).d) == 0)


@model('dashmap::DashMap::len', 'std::collections::HashMap::len')
def m_dm_len(I, a, t, c):
    return BV(64, len(_map(I, a[0]).d))


@model('dashmap::DashMap::iter_mut', 'dashmap::DashMap::iter')
def m_dm_iter_mut(I, a, t, c):
    m = _map(I, a[0])
    return Agg('iter', 0, [[Agg('dmpair', 0, [RefV(Cell(kv, 'key')), RefV(cell)]) for (kv, cell) in m.d.values()], 0])


@model('dashmap::mapref::multiple::RefMutMulti::pair_mut', 'dashmap::mapref::multiple::RefMulti::pair')
def m_dm_pair_mut(I, a, t, c):
    p = _deref(I, a[0])
    return Agg('tuple', 0, [p.fields[0], p.fields[1]])


@model('<hashbrown::HashMap<K, V, S, A> as std::iter::Extend<(K, V)>>::extend')
def m_map_extend(I, a, t, c):
    m = _map(I, a[0])
    src = a[1]
    if isinstance(src, MapV):
        items = [Agg('tuple', 0, [kv, cell.v]) for (kv, cell) in src.d.values()]
    else:
        items = M._iter_items(I, src)
    for it in items:
        it = _deref(I, it)
        kx, vx = it.fields
        m.d[_mkey(kx)] = (kx, Cell(vx, 'mapval'))
    return UNIT


@model('std::sync::Mutex::new', 'std::sync::Arc::new')
def m_wrap_new(I, a, t, c):
    return Agg('wrap', 0, [RefV(Cell(a[0], 'shared'))])


@model('<std::sync::Arc<T, A> as std::ops::Deref>::deref', '<std::sync::MutexGuard<T> as std::ops::Deref>::deref',
       '<std::sync::MutexGuard<T> as std::ops::DerefMut>::deref_mut')
def m_wrap_deref(I, a, t, c):
    v = _deref(I, a[0])
    if isinstance(v, Agg) and v.kind == 'wrap':
        return v.fields[0]
    raise Unsupported('deref of %r' % (v,))


@model('std::sync::Mutex::lock')
def m_mutex_lock(I, a, t, c):
    v = _deref(I, a[0])
    if isinstance(v, Agg) and v.kind == 'wrap':
        return M._ok(Agg('wrap', 0, [v.fields[0]]))       # the guard derefs to the same cell
    raise Unsupported('lock of %r' % (v,))


@model('<std::sync::Arc<T, A> as std::clone::Clone>::clone')
def m_arc_clone(I, a, t, c):
    return _deref(I, a[0])


@model('rayon::ThreadPoolBuilder::build')
def m_tpb_build(I, a, t, c):
    return M._ok(Opaque('ThreadPool'))


@model('rayon::ThreadPool::install')
def m_pool_install(I, a, t, c):
    return I.call_closure(a[1], [])


@model('<T as rayon::iter::ParallelBridge>::par_bridge', 'rayon::iter::ParallelBridge::par_bridge')
def m_par_bridge(I, a, t, c):
    return a[0]


@model('std::process::exit')
def m_process_exit(I, a, t, c):
    raise Panic('process-exit', 'exit(%s)' % (a[0],), t.span)


# ------------------------------------------------------------------ BitSet (immutable value in its cell), String, slices, Option, orderings
bitset = M.bitset
_bs = M._bs


@model('bit_set::BitSet::with_capacity', 'bit_set::BitSet::new', '<bit_set::BitSet<B> as std::default::Default>::default')
def m_bs_new(I, a, t, c):
    return bitset([])


@model('bit_set::BitSet::clear')
def m_bs_clear(I, a, t, c):
    I.store(a[0], bitset([]))
    return UNIT


@model('bit_set::BitSet::insert')
def m_bs_insert(I, a, t, c):
    cur = _bs(I, a[0])
    x = I.conc(a[1])
    I.store(a[0], bitset(cur | {x}))
    return M.bv_bool(x not in cur)


@model('<bit_set::BitSet<B> as std::iter::Extend<usize>>::extend')
def m_bs_extend(I, a, t, c):
    cur = _bs(I, a[0])
    xs = [I.conc(_deref(I, x)) for x in M._iter_items(I, a[1])]
    I.store(a[0], bitset(cur | set(xs)))
    return UNIT


@model('<bit_set::BitSet<B> as std::clone::Clone>::clone')
def m_bs_clone(I, a, t, c):
    return _deref(I, a[0])


@model('<&bit_set::BitSet<B> as std::iter::IntoIterator>::into_iter')
def m_bs_into_iter(I, a, t, c):
    return M._bs_iter(_bs(I, a[0]))


def _str(I, v):
    v = _deref(I, v)
    if isinstance(v, StrV):
        return v
    raise Unsupported('not a string: %r' % (v,))


@model('std::string::String::len', 'core::str::<impl str>::len')
def m_str_len(I, a, t, c):
    return BV(64, len(_str(I, a[0]).chars))


@model('core::str::<impl str>::is_empty')
def m_str_is_empty(I, a, t, c):
    return M.bv_bool(len(_str(I, a[0]).chars) == 0)


@model('std::string::String::push_str')
def m_push_str(I, a, t, c):
    s = _str(I, a[0])
    I.store(a[0], StrV(list(s.chars) + list(_str(I, a[1]).chars)))
    return UNIT


@model('std::string::String::clear')
def m_str_clear(I, a, t, c):
    I.store(a[0], StrV([]))
    return UNIT


@model('<std::string::String as std::ops::Index<I>>::index', 'core::str::traits::<impl std::ops::Index<I> for str>::index')
def m_str_index(I, a, t, c):
    s = _str(I, a[0])
    r = a[1]
    n = len(s.chars)
    k = r.kind.split('::')[-1] if isinstance(r, Agg) else ''
    if k == 'Range':
        lo, hi = I.conc(r.fields[0]), I.conc(r.fields[1])
    elif k == 'RangeTo':
        lo, hi = 0, I.conc(r.fields[0])
    elif k == 'RangeFrom':
        lo, hi = I.conc(r.fields[0]), n
    elif k == 'RangeFull':
        lo, hi = 0, n
    elif k == 'RangeInclusive':
        lo, hi = I.conc(r.fields[0]), I.conc(r.fields[1]) + 1
    else:
        raise Unsupported('string index with %r' % (r,))
    if lo > hi or hi > n:
        raise Panic('str-index', 'byte range %d..%d of %d' % (lo, hi, n), t.span)
    return RefV(Cell(StrV(list(s.chars[lo:hi])), 'substr'))


@model('core::str::<impl str>::ends_with', 'core::str::<impl str>::starts_with')
def m_str_ends_with(I, a, t, c):
    s = M._strval(I, a[0])
    p = M._strval(I, a[1])
    return M.bv_bool(s.endswith(p) if c.name.endswith('ends_with') else s.startswith(p))


@model('std::slice::<impl [T]>::join', 'alloc::slice::<impl [T]>::join', 'std::slice::<impl [S]>::join')
def m_slice_join(I, a, t, c):
    parts = [M._strval(I, x) for x in M._vals(I, a[0])]
    sep = M._strval(I, a[1])
    return StrV(list(sep.join(parts)))


@model('core::slice::<impl [T]>::windows')
def m_windows(I, a, t, c):
    cell, path, s, n = M._slice(I, a[0])
    w = I.conc(a[1])
    return Agg('iter', 0, [[RefV(cell, path, (s + i, w)) for i in range(0, max(0, n - w + 1))], 0])


def _cmp_key(I, clos):
    import functools

    def cmp(x, y):
        r = I.call_closure(clos, [RefV(Cell(x, 'a')), RefV(Cell(y, 'b'))])
        return {0: -1, 1: 0, 2: 1}[r.variant]
    return functools.cmp_to_key(cmp)


@model('std::slice::<impl [T]>::sort_by', 'core::slice::<impl [T]>::sort_by', 'alloc::slice::<impl [T]>::sort_by', 'core::slice::<impl [T]>::sort_unstable_by')
def m_sort_by(I, a, t, c):
    cell, path, s, n = M._slice(I, a[0])
    v = I.load(RefV(cell, path))
    f = list(v.fields)
    f[s:s + n] = sorted(f[s:s + n], key=_cmp_key(I, a[1]))      # python's sort is stable, like slice::sort_by
    I.store(RefV(cell, path), Agg('array', 0, f))
    return UNIT


@model('std::slice::<impl [T]>::sort_by_key', 'core::slice::<impl [T]>::sort_by_key', 'alloc::slice::<impl [T]>::sort_by_key', 'core::slice::<impl [T]>::sort_unstable_by_key')
def m_sort_by_key(I, a, t, c):
    cell, path, s, n = M._slice(I, a[0])
    v = I.load(RefV(cell, path))
    f = list(v.fields)

    def key(x):
        k = I.call_closure(a[1], [RefV(Cell(x, 'a'))])
        return _ordkey(I, k)
    f[s:s + n] = sorted(f[s:s + n], key=key)
    I.store(RefV(cell, path), Agg('array', 0, f))
    return UNIT


def _ordkey(I, k):
    k = _deref(I, k)
    if isinstance(k, BV):
        return I.conc(k)
    if isinstance(k, float):
        return k
    if isinstance(k, Agg) and k.kind == 'tuple':
        return tuple(_ordkey(I, x) for x in k.fields)
    if isinstance(k, StrV):
        return tuple(k.chars)
    raise Unsupported('sort key %r' % (k,))


def _ordering(n):
    return Agg('adt:std::cmp::Ordering', {-1: 0, 0: 1, 1: 2}[n], [])


@model('std::cmp::Ord::cmp')
def m_ord_cmp(I, a, t, c):
    x, y = _ordkey(I, a[0]), _ordkey(I, a[1])
    return _ordering((x > y) - (x < y))


@model('std::cmp::impls::<impl std::cmp::PartialOrd for f64>::partial_cmp', 'std::cmp::PartialOrd::partial_cmp')
def m_partial_cmp(I, a, t, c):
    x, y = _ordkey(I, a[0]), _ordkey(I, a[1])
    if x != x or y != y:
        return M.NONE
    return M.some(_ordering((x > y) - (x < y)))


@model('std::cmp::Ordering::then_with')
def m_then_with(I, a, t, c):
    if a[0].variant != 1:
        return a[0]
    return I.call_closure(a[1], [])


@model('std::cmp::Ordering::then')
def m_then(I, a, t, c):
    return a[0] if a[0].variant != 1 else a[1]


@model('std::cmp::Ordering::reverse')
def m_ord_reverse(I, a, t, c):
    return Agg('adt:std::cmp::Ordering', {0: 2, 1: 1, 2: 0}[a[0].variant], [])


@model('std::option::Option::cloned', 'std::option::Option::<&T>::cloned', 'std::option::Option::copied', 'std::option::Option::<&T>::copied')
def m_opt_cloned(I, a, t, c):
    o = a[0]
    if o.variant == 1:
        return M.some(_deref(I, o.fields[0]))
    return M.NONE


@model('std::option::Option::as_mut', 'std::option::Option::<T>::as_mut')
def m_opt_as_mut(I, a, t, c):
    o = I.load(a[0])
    if o.variant == 1:
        return M.some(RefV(a[0].cell, a[0].path + (0,)))
    return M.NONE


@model('<std::vec::Vec<T, A> as std::iter::Extend<&T>>::extend')
def m_vec_extend_ref(I, a, t, c):
    v = I.load(a[0])
    items = [_deref(I, x) for x in M._iter_items(I, a[1])]
    I.store(a[0], Agg('array', 0, list(v.fields) + items))
    return UNIT


@model('<hashbrown::HashSet<T, S, A> as std::iter::Extend<&T>>::extend', '<hashbrown::HashSet<T, S, A> as std::iter::Extend<T>>::extend')
def m_set_extend(I, a, t, c):
    s = I.load(a[0])
    for x in M._iter_items(I, a[1]):
        x = _deref(I, x)
        s.d[M._skey(x)] = x
    return UNIT


@model('hashbrown::HashSet::iter')
def m_set_iter(I, a, t, c):
    s = _deref(I, a[0])
    return Agg('iter', 0, [[RefV(Cell(x, 'elem')) for x in s.d.values()], 0])


@model('<hashbrown::HashSet<T, S, A> as std::clone::Clone>::clone')
def m_set_clone(I, a, t, c):
    s = _deref(I, a[0])
    return M.SetV(list(s.d.values()))


@model('core::num::<impl u8>::is_ascii_whitespace')
def m_is_ws(I, a, t, c):
    return M.bv_bool(I.conc(_deref(I, a[0])) in (9, 10, 12, 13, 32))


@model('std::vec::Vec::truncate')
def m_vec_truncate2(I, a, t, c):
    v = I.load(a[0])
    n = I.conc(a[1])
    if n < len(v.fields):
        I.store(a[0], Agg('array', 0, list(v.fields)[:n]))
    return UNIT


@model('prim::ToString::to_string')
def m_prim_to_string(I, a, t, c):
    v = _deref(I, a[0])
    if isinstance(v, BV) and v.val is not None:
        full = c.full or ''
        if '<char as' in full or (v.w == 32 and 'char' in full):
            return StrV([chr(v.val)])
        n = v.val
        if v.signed and n >= 1 << (v.w - 1):
            n -= 1 << v.w
        return StrV(list(str(n)))
    if isinstance(v, StrV):
        return StrV(list(v.chars))
    raise Unsupported('to_string of %r' % (v,))


@model('std::f32::<impl f32>::round')
def m_f32_round(I, a, t, c):
    import math
    x = a[0]
    return float(math.floor(abs(x) + 0.5)) * (1 if x >= 0 else -1)


@model('std::f32::<impl f32>::floor', 'std::f32::<impl f32>::ceil')
def m_f32_floor(I, a, t, c):
    import math
    return float(math.floor(a[0]) if c.name.endswith('floor') else math.ceil(a[0]))


@model('<std::string::String as std::convert::From<&str>>::from', '<std::string::String as std::convert::From<&std::string::String>>::from',
       'std::borrow::ToOwned::to_owned', 'core::str::<impl str>::to_owned', '<str as std::borrow::ToOwned>::to_owned')
def m_string_from(I, a, t, c):
    return StrV(list(_str(I, a[0]).chars))


@model('std::fmt::Formatter::write_fmt', 'std::fmt::Write::write_fmt', 'core::fmt::Write::write_fmt')
def m_formatter_write_fmt(I, a, t, c):
    return m_write_fmt(I, a, t, c)


@model('std::fmt::Formatter::write_str', 'std::fmt::Write::write_str')
def m_formatter_write_str(I, a, t, c):
    ref = _sink_of(I, a[0])
    s = I.load(ref)
    I.store(ref, Agg('sink', 0, [s.fields[0], s.fields[1] + [M._strval(I, a[1])]]))
    return M._ok(UNIT)


@model('std::string::String::pop')
def m_string_pop(I, a, t, c):
    s = _str(I, a[0])
    if not s.chars:
        return M.NONE
    I.store(a[0], StrV(list(s.chars[:-1])))
    ch = s.chars[-1]
    return M.some(BV(32, ord(ch)) if isinstance(ch, str) else ch)


@model('simple_logger::init_with_level', 'simple_logger::init')
def m_logger_init(I, a, t, c):
    return M._ok(UNIT)


@model('std::time::Instant::now')
def m_instant_now(I, a, t, c):
    return Opaque('Instant')


@model('std::time::Instant::duration_since', 'std::time::Instant::elapsed')
def m_instant_since(I, a, t, c):
    return Opaque('Duration')


@model('std::time::Duration::as_secs')
def m_duration_secs(I, a, t, c):
    return BV(64, 0)


@model('std::io::_eprint', 'std::io::_print')
def m_eprint(I, a, t, c):
    if c.name.endswith('_print'):
        if not hasattr(I, 'stdout_text'):
            I.stdout_text = []
        I.stdout_text.append(render_args(I, a[0]))
    return UNIT


# ---- regex (used on file names only): patterns are in the common subset of the `regex` crate and python `re`
@model('regex::Regex::new')
def m_regex_new(I, a, t, c):
    import re as _re
    pat = M._strval(I, a[0])
    try:
        _re.compile(pat)
    except _re.error as e:
        raise Unsupported('regex %r: %s' % (pat, e))
    return M._ok(Agg('regex', 0, [pat]))


@model('regex::Regex::captures')
def m_regex_captures(I, a, t, c):
    import re as _re
    rx = _deref(I, a[0])
    s = M._strval(I, a[1])
    m = _re.search(rx.fields[0], s)
    if not m:
        return M.NONE
    return M.some(Agg('captures', 0, [[m.group(0)] + list(m.groups())]))


@model('regex::Regex::is_match')
def m_regex_is_match(I, a, t, c):
    import re as _re
    return M.bv_bool(_re.search(_deref(I, a[0]).fields[0], M._strval(I, a[1])) is not None)


@model('<regex::Captures<\'h> as std::ops::Index<usize>>::index', '<regex::Captures as std::ops::Index<usize>>::index')
def m_captures_index(I, a, t, c):
    cp = _deref(I, a[0])
    i = I.conc(a[1])
    g = cp.fields[0][i]
    if g is None:
        raise Panic('captures-index', 'no group %d' % i, t.span)
    return RefV(Cell(StrV(list(g)), 'capture'))


@model('std::option::Option::or', 'std::option::Option::<T>::or')
def m_opt_or(I, a, t, c):
    return a[0] if a[0].variant == 1 else a[1]


@model('std::option::Option::unwrap_or', 'std::option::Option::<T>::unwrap_or')
def m_opt_unwrap_or2(I, a, t, c):
    return a[0].fields[0] if a[0].variant == 1 else a[1]


@model('<std::option::Option<T> as std::clone::Clone>::clone')
def m_opt_clone(I, a, t, c):
    return _deref(I, a[0])


# ---- text files (names lists, build file lists): I.text_files = {path: text}
@model('std::fs::File::open')
def m_file_open(I, a, t, c):
    path = M._strval(I, a[0])
    tf = getattr(I, 'text_files', None)
    if (tf is None or path not in tf) and path in (getattr(I, 'files', None) or {}):
        return M._ok(Agg('seqio-src', 0, [path]))          # a virtual sequence file opened as a plain file (seq_io readers, `ska lo -r`)
    if tf is None or path not in tf:
        return Agg('adt:std::result::Result', 1, [Opaque(('io-error', path))])
    return M._ok(Agg('textfile', 0, [tf[path]]))


@model('std::io::BufReader::new')
def m_bufreader_new(I, a, t, c):
    return a[0]


@model('std::io::BufRead::lines')
def m_bufread_lines(I, a, t, c):
    f = _deref(I, a[0])
    if not (isinstance(f, Agg) and f.kind == 'textfile'):
        raise Unsupported('lines() of %r' % (f,))
    txt = f.fields[0]
    lines = txt.split('\n')
    if lines and lines[-1] == '':
        lines = lines[:-1]
    return Agg('iter', 0, [[M._ok(StrV(list(l.rstrip('\r')))) for l in lines], 0])


# ---- `{}` / `{:?}` of a crate type: run its own Display / Debug implementation into a temporary sink
_render_base = _render


def _render(I, kind, v, flags=0, width=None, precision=None):
    dv = _deref(I, v)
    if isinstance(dv, Agg) and dv.kind.startswith('adt:') and not dv.kind.startswith('adt:std::'):
        tr = 'Display' if kind == 'display' else 'Debug'
        path = dv.kind[4:]
        cands = [n for n in I.facts.by_name if n.startswith('<' + path) and n.endswith(' as std::fmt::%s>::fmt' % tr)]
        if len(cands) == 1:
            sink = Cell(Agg('sink', 0, ['fmt', []]), 'fmt')
            ref = v if isinstance(v, RefV) else RefV(Cell(dv, 'fmt-arg'))
            while isinstance(ref, RefV) and isinstance(I.load(ref), RefV):
                ref = I.load(ref)
            I.call_fn(cands[0], [ref, RefV(sink)])
            return ''.join(sink.v.fields[1])
    return _render_base(I, kind, v, flags, width, precision)


@model('std::string::String::as_str', 'std::string::String::as_mut_str', '<std::string::String as std::convert::AsRef<str>>::as_ref',
       '<std::string::String as std::borrow::Borrow<str>>::borrow', '<str as std::convert::AsRef<str>>::as_ref')
def m_string_as_str(I, a, t, c):
    return a[0]


# carry the monomorphic type of a formatting argument (Argument::new_display::<MergeSkaArray<u128>>) to its Display impl
@model('core::fmt::rt::Argument::new_display')
def m_arg_display2(I, a, t, c):
    return Agg('fmtarg', 0, ['display', a[0], c.full or ''])


@model('core::fmt::rt::Argument::new_debug')
def m_arg_debug2(I, a, t, c):
    return Agg('fmtarg', 0, ['debug', a[0], c.full or ''])


@model('std::fmt::Arguments::new')
def m_args_new2(I, a, t, c):
    tv = _deref(I, a[0])
    if isinstance(tv, Agg) and tv.kind == 'array':
        tpl = [I.conc(x) for x in tv.fields]
    else:
        raise Unsupported('format template %r' % (tv,))
    av = I.load(a[1]) if isinstance(a[1], RefV) else a[1]
    args = []
    for x in av.fields:
        if not (isinstance(x, Agg) and x.kind == 'fmtarg'):
            raise Unsupported('format argument %r' % (x,))
        hint = x.fields[2] if len(x.fields) > 2 else ''
        args.append((x.fields[0] + ('@u128' if '<u128>' in hint else ('@u64' if '<u64>' in hint else ('@char' if ('<char>' in hint or '<&char>' in hint) else ''))), x.fields[1]))
    return Agg('fmtargs', 0, [tpl, args])


_render_base2 = _render


def _render(I, kind, v, flags=0, width=None, precision=None):
    w = None
    if '@' in kind:
        kind, w = kind.split('@')
    if w == 'char':
        dv = _deref(I, v)
        if isinstance(dv, BV) and dv.val is not None:
            sch = chr(dv.val)
            if kind == 'debug':
                sch = "'%s'" % sch
            return sch + ' ' * max(0, (width or 0) - len(sch))
        w = None
    if w and I.subst.get('IntT') != w:
        old = (I.subst.get('IntT'), I.subst.get('Self'))
        I.subst['IntT'] = w
        I.subst['Self'] = w
        try:
            return _render_base2(I, kind, v, flags, width, precision)
        finally:
            I.subst['IntT'], I.subst['Self'] = old
    return _render_base2(I, kind, v, flags, width, precision)


# ---- f64 rendering as core::fmt does it (shortest round-trip digits; Display never switches to exponent form, an integral
#      value prints without a fraction; LowerExp prints d.ddde<exp>), and the {:e} argument constructor
def _float_digits(x):
    from decimal import Decimal
    sign, digits, exp = Decimal(repr(abs(x))).as_tuple()
    digits = list(digits)
    while len(digits) > 1 and digits[-1] == 0:
        digits.pop()
        exp += 1
    return digits, exp          # value = 0.d1d2.. * 10^(exp + len(digits))  ==  d1d2.. * 10^exp


def fmt_f64(x, kind='display', precision=None):
    import math
    if x != x:
        return 'NaN'
    if math.isinf(x):
        return 'inf' if x > 0 else '-inf'
    neg = math.copysign(1.0, x) < 0
    sgn = '-' if neg else ''
    if kind == 'lower_exp':
        if precision is not None:
            s = '%.*e' % (precision, abs(x))
            m, e = s.split('e')
            return sgn + m + 'e' + str(int(e))
        if x == 0:
            return sgn + '0e0'
        digits, exp = _float_digits(x)
        e10 = exp + len(digits) - 1
        m = str(digits[0]) + ('.' + ''.join(map(str, digits[1:])) if len(digits) > 1 else '')
        return sgn + m + 'e' + str(e10)
    if precision is not None:
        return sgn + '%.*f' % (precision, abs(x))
    if x == 0:
        return sgn + ('0' if kind == 'display' else '0.0')
    digits, exp = _float_digits(x)
    ds = ''.join(map(str, digits))
    if exp >= 0:
        s = ds + '0' * exp
        return sgn + s + ('.0' if kind == 'debug' else '')
    if -exp < len(ds):
        return sgn + ds[:exp] + '.' + ds[exp:]
    return sgn + '0.' + '0' * (-exp - len(ds)) + ds


@model('core::fmt::rt::Argument::new_lower_exp')
def m_arg_lower_exp(I, a, t, c):
    return Agg('fmtarg', 0, ['lower_exp', a[0], c.full or ''])


_render_base3 = _render


def _render(I, kind, v, flags=0, width=None, precision=None):
    base = kind.split('@')[0]
    dv = _deref(I, v)
    if isinstance(dv, float):
        s = fmt_f64(dv, base, precision)
        if width is not None and len(s) < width:
            s = ' ' * (width - len(s)) + s
        return s
    if base == 'lower_exp':
        raise Unsupported('{:e} of %r' % (dv,))
    return _render_base3(I, kind, v, flags, width, precision)
