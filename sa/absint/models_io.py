"""Models for formatting and output sinks (core::fmt, std::io::Write, File/BufWriter), DashMap / Mutex / Arc, and the
remaining library calls of the `ska lo` pipeline.  Imported by interp.py (registers into MODELS / SUFFIX_MODELS).

Formatting follows the template encoding documented in library/core/src/fmt/mod.rs of the toolchain the facts were
extracted with: literal pieces are length-prefixed, 0xC0.. bytes are placeholders with optional flags / width / precision /
arg index, a zero byte ends the template.
"""
from .values import BV, Agg, RefV, Cell, Opaque, StrV, UNIT
from . import interp as M

model = M.model
Unsupported = M.Unsupported
Panic = M.Panic


def _deref(I, v):
    while isinstance(v, RefV):
        v = I.load(v)
    return v


# ------------------------------------------------------------------ fmt
def _render(I, kind, v, flags=0, width=None, precision=None):
    v = _deref(I, v)
    if isinstance(v, StrV):
        s = ''.join(c if isinstance(c, str) else chr(I.conc(c)) for c in v.chars)
        if kind == 'debug':
            s = '"%s"' % s
    elif isinstance(v, float):
        s = ('%.*f' % (precision, v)) if precision is not None else repr(v)
    elif isinstance(v, BV):
        if v.val is None:
            raise Unsupported('formatting a symbolic integer')
        if getattr(v, 'is_char', False):
            s = chr(v.val)
        else:
            n = v.val
            if v.signed and n >= 1 << (v.w - 1):
                n -= 1 << v.w
            s = str(n)
    elif isinstance(v, Agg) and v.kind == 'char':
        s = chr(v.fields[0])
    elif isinstance(v, Agg) and v.kind == 'array' and kind == 'debug':
        s = '[%s]' % ', '.join(_render(I, 'debug', x) for x in v.fields)
    else:
        raise Unsupported('formatting %r with {%s}' % (v, kind))
    if width is not None and len(s) < width:
        s = s + ' ' * (width - len(s)) if not isinstance(v, (BV, float)) else ' ' * (width - len(s)) + s
    return s


def render_args(I, a):
    a = _deref(I, a)
    if isinstance(a, Agg) and a.kind == 'fmtstr':
        return a.fields[0]
    if not (isinstance(a, Agg) and a.kind == 'fmtargs'):
        raise Unsupported('not fmt::Arguments: %r' % (a,))
    tpl, args = a.fields
    out = []
    i = 0
    argi = 0
    while True:
        n = tpl[i]
        i += 1
        if n == 0:
            break
        if n < 0x80:
            out.append(bytes(tpl[i:i + n]).decode('utf-8'))
            i += n
        elif n == 0x80:
            ln = tpl[i] | (tpl[i + 1] << 8)
            i += 2
            out.append(bytes(tpl[i:i + ln]).decode('utf-8'))
            i += ln
        else:
            flags = width = precision = None
            if n & 1:
                flags = int.from_bytes(bytes(tpl[i:i + 4]), 'little')
                i += 4
            if n & 2:
                width = tpl[i] | (tpl[i + 1] << 8)
                i += 2
            if n & 4:
                precision = tpl[i] | (tpl[i + 1] << 8)
                i += 2
            if n & 8:
                argi = tpl[i] | (tpl[i + 1] << 8)
                i += 2
            if n & 48:
                raise Unsupported('dynamic width / precision in a format string')
            kind, val = args[argi]
            out.append(_render(I, kind, val, flags or 0, width, precision))
            argi += 1
    return ''.join(out)


@model('core::fmt::rt::Argument::new_display')
def m_arg_display(I, a, t, c):
    return Agg('fmtarg', 0, ['display', a[0]])


@model('core::fmt::rt::Argument::new_debug')
def m_arg_debug(I, a, t, c):
    return Agg('fmtarg', 0, ['debug', a[0]])


@model('std::fmt::Arguments::new')
def m_args_new(I, a, t, c):
    tv = _deref(I, a[0])
    if isinstance(tv, Agg) and tv.kind == 'array':
        tpl = [I.conc(x) for x in tv.fields]
    else:
        raise Unsupported('format template %r' % (tv,))
    av = I.load(a[1]) if isinstance(a[1], RefV) else a[1]
    args = []
    for x in av.fields:
        if not (isinstance(x, Agg) and x.kind == 'fmtarg'):
            raise Unsupported('format argument %r' % (x,))
        args.append((x.fields[0], x.fields[1]))
    return Agg('fmtargs', 0, [tpl, args])


@model('std::fmt::Arguments::from_str')
def m_args_from_str(I, a, t, c):
    return Agg('fmtstr', 0, [M._strval(I, a[0])])


@model('std::fmt::format', 'alloc::fmt::format')
def m_fmt_format(I, a, t, c):
    return StrV(list(render_args(I, a[0])))


@model('std::hint::must_use')
def m_must_use(I, a, t, c):
    return a[0]


# ------------------------------------------------------------------ output sinks
def _sink_of(I, w):
    """follow references / BufWriter / Box wrappers down to the sink cell (a 'sink' aggregate holding the text written)"""
    v = w
    hops = 0
    while hops < 8:
        hops += 1
        if isinstance(v, RefV):
            tgt = I.load(v)
            if isinstance(tgt, Agg) and tgt.kind == 'sink':
                return v
            v = tgt
            continue
        if isinstance(v, Agg) and v.kind in ('bufwriter', 'box', 'unique') and v.fields:
            v = v.fields[0]
            continue
        break
    raise Unsupported('write to %r' % (w,))


@model('std::fs::File::create')
def m_file_create(I, a, t, c):
    path = M._strval(I, a[0])
    outs = getattr(I, 'out_files', None)
    if outs is None:
        raise Unsupported('File::create(%r) without an output table' % path)
    cell = Cell(Agg('sink', 0, [path, []]), 'file:' + path)
    outs[path] = cell
    return M._ok(RefV(cell))


@model('std::io::BufWriter::new')
def m_bufwriter_new(I, a, t, c):
    return Agg('bufwriter', 0, [a[0]])


@model('std::io::Write::write_fmt')
def m_write_fmt(I, a, t, c):
    ref = _sink_of(I, a[0])
    s = I.load(ref)
    I.store(ref, Agg('sink', 0, [s.fields[0], s.fields[1] + [render_args(I, a[1])]]))
    return M._ok(UNIT)


@model('std::io::Write::write_all')
def m_write_all(I, a, t, c):
    ref = _sink_of(I, a[0])
    s = I.load(ref)
    txt = ''.join(chr(I.conc(x)) for x in M._vals(I, a[1]))
    I.store(ref, Agg('sink', 0, [s.fields[0], s.fields[1] + [txt]]))
    return M._ok(UNIT)


@model('std::io::Write::flush')
def m_flush(I, a, t, c):
    return M._ok(UNIT)


def sink_text(I, path):
    cell = I.out_files[path]
    return ''.join(cell.v.fields[1])
