"""Symbolic models for noodles_vcf: builders are recorded as constructor trees so that a rule can read off the records that
RefSka::write_vcf hands to the VCF writer (the text formatting done by noodles is trusted).

A call into noodles_vcf without a specific model returns  Agg('sym:<callee name>', 0, args).  The record builder's
`build()` returns Ok(tree); Writer::write_header / write_record append (header, record) trees to I.vcf_out.
"""
from .values import BV, Agg, RefV, Cell, Opaque, StrV, UNIT
from . import interp as M


def _deref(I, v):
    while isinstance(v, RefV):
        v = I.load(v)
    return v


def sym(name, args):
    return Agg('sym:' + name, 0, list(args))


def m_noodles(I, a, t, c):
    name = c.name or ''
    short = name.split('noodles_vcf::')[-1]
    if name.endswith('>::eq') or name.endswith('>::ne') or name in ('std::cmp::PartialEq::eq', 'std::cmp::PartialEq::ne'):
        r = _deref(I, a[0]) == _deref(I, a[1])
        return M.bv_bool(r if name.endswith('eq') else not r)
    if name.endswith('>::clone') or name == 'std::clone::Clone::clone':
        return _deref(I, a[0])
    if short.endswith('Writer::write_header') or short.endswith('Writer::<W>::write_header'):
        if not hasattr(I, 'vcf_out'):
            I.vcf_out = []
        I.vcf_header = _deref(I, a[1])
        return M._ok(UNIT)
    if 'Writer' in short and short.endswith('write_record'):
        if not hasattr(I, 'vcf_out'):
            I.vcf_out = []
        I.vcf_out.append(_deref(I, a[2]))
        return M._ok(UNIT)
    if short.endswith('record::Builder::build') or short.endswith('record::builder::Builder::build'):
        return M._ok(sym('record', [a[0]]))
    if short.endswith('try_from') or short.endswith('::parse') or short.endswith('from_str'):
        return M._ok(sym(short, a))
    return sym(short, a)


M.SUFFIX_PREFIX_MODELS['noodles_vcf::'] = m_noodles


@M.model('core::str::<impl str>::parse')
def m_str_parse(I, a, t, c):
    full = c.full or ''
    s = M._strval(I, a[0])
    if 'noodles_vcf' in full or 'Chromosome' in full or 'contig' in full.lower():
        return M._ok(sym('parse', [StrV(list(s))]))
    if '<usize>' in full or '<u64>' in full or '<u32>' in full or '<i32>' in full:
        import re as _re
        if _re.match(r'^\+?\d+$' if '<i32>' not in full else r'^[+-]?\d+$', s):      # FromStr for the unsigned types rejects a minus sign
            return M._ok(BV(64, int(s)))
        return Agg('adt:std::result::Result', 1, [Opaque('ParseIntError')])
    from . import models_std as _S
    return _S.m_str_parse_prim(I, a, t, c)


def walk(tree, name):
    """all sub-trees whose constructor name ends with `name`"""
    out = []

    def go(x):
        if isinstance(x, Agg):
            if x.kind.startswith('sym:') and x.kind.endswith(name):
                out.append(x)
            for f in x.fields:
                go(f)
        elif isinstance(x, (list, tuple)):
            for f in x:
                go(f)
    go(tree)
    return out
