"""Check bookkeeping: rule instances, violations, known findings, evidence, exit code."""
import json
import os
import re
import sys
import time

from .facts import AnchorLost

VERIF = os.path.dirname(os.path.dirname(os.path.abspath(__file__)))
KNOWN = os.path.join(VERIF, 'known_findings.txt')
EVIDENCE_DIR = os.environ.get('VERIF_EVIDENCE_DIR') or os.path.join(VERIF, 'evidence')


def load_known():
    """finding: property=<id> key=<key> <text>  -> {(id,key): text};  fixed: lines suppress nothing"""
    out = {}
    if not os.path.exists(KNOWN):
        return out
    for line in open(KNOWN):
        line = line.strip()
        m = re.match(r'^finding:\s+property=(\S+)\s+key=(\S+)\s*(.*)$', line)
        if m:
            out[(m.group(1), m.group(2))] = m.group(3)
    return out


class Check:
    def __init__(self, pid, tier, seed, level='other'):
        self.pid = pid
        self.tier = tier
        self.seed = seed
        self.level = level
        self.t0 = time.time()
        self.instances = []      # dicts: rule, key, status, where, detail
        self.violations = []
        self.known_hits = []
        self.known = load_known()
        self.evaluations = 0
        self.nontrivial = set()
        self.samples = []
        self.explanation = ''
        self.assumptions = []
        self.extra = {}
        self.obligations = 0
        self.discharged = 0
        self.trusted_base = []
        self.only = None         # replay: report only this instance key
        self.soft_twins = None   # see soften()
        self.soft_cfg = None     # property-level table (sa/soft.py): dict(twins=[rule..], floor=n, soft=[rule..])
        self.pending_soft = []   # deferred anchor-lost reports of soft shape rules

    # -------------------------------------------------------------- recording
    def ok(self, rule, key, where='', detail='', evals=1, nontrivial=True, sample=None):
        if self.only and key != self.only:
            return
        self.instances.append(dict(rule=rule, key=key, status='OK', where=where, detail=detail))
        self.evaluations += evals
        self.obligations += 1
        self.discharged += 1
        if nontrivial:
            self.nontrivial.add(key)
        if sample is not None and len(self.samples) < 40:
            self.samples.append(sample)
        print('OK rule=%s key=%s at=%s %s' % (rule, key, where, _short(detail)))

    def violation(self, rule, key, where='', detail='', kind='violation', evals=1, construct=None):
        """key: stable identifier rule:function:slot (no line numbers)"""
        if key in self.violations or key in self.known_hits:
            return      # one report per instance key
        if self.only and key != self.only:
            return
        self.evaluations += evals
        self.obligations += 1
        if self.soft_cfg and not self.only and rule.split(':')[0] in self.soft_cfg['soft'] and \
                (kind == 'anchor-lost' or (kind == 'violation' and not any(key.startswith(p) for p in self.soft_cfg.get('strong', ())))):
            self.evaluations -= evals
            self.obligations -= 1
            self.pending_soft.append(dict(rule=rule, key=key, where=where, detail=detail, evals=evals, construct=construct, kind=kind))
            return
        if kind == 'anchor-lost' and self._soft_ok():
            # a shape rule did not recognise the code, but the functional rules that decide the same clauses on bounded
            # families all passed on this tree: recorded, no alarm (see soften())
            self.instances.append(dict(rule=rule, key=key, status='UNDECIDED-SHAPE', where=where,
                                       detail='%s; clauses decided functionally by %s' % (_short(detail, 200), ', '.join(self.soft_twins))))
            print('SKIP rule=%s key=%s shape not recognised (%s); clauses decided by %s' % (rule, key, _short(detail, 120), ', '.join(self.soft_twins)))
            self.evaluations -= evals
            self.obligations -= 1
            return
        if (self.pid, key) in self.known:
            self.instances.append(dict(rule=rule, key=key, status='KNOWN-FINDING', where=where, detail=detail))
            self.known_hits.append(key)
            print('KNOWN-FINDING: property=%s key=%s at=%s %s -- %s' % (
                self.pid, key, where, _short(detail), self.known[(self.pid, key)]))
            return
        self.instances.append(dict(rule=rule, key=key, status='VIOLATION', where=where, detail=detail, kind=kind))
        rp = self._write_replay(rule, key, where, detail, kind, construct)
        self.violations.append(key)
        print('VIOLATION property=%s replay=%s rule=%s key=%s kind=%s at=%s %s' % (
            self.pid, rp, rule, key, kind, where, _short(detail, 400)))

    def anchor_lost(self, rule, key, err):
        self.violation(rule, key, where='', detail='anchor lost: %s' % err, kind='anchor-lost')

    def guard(self, rule, key, fn):
        """run fn(); AnchorLost (or any unexpected shape error) is reported as anchor-lost"""
        try:
            return fn()
        except AnchorLost as e:
            self.anchor_lost(rule, key, e)
        except Exception as e:      # fail closed: an unexpected shape is an anchor-lost report, never a silent pass
            import traceback
            tb = traceback.format_exc().strip().splitlines()
            self.anchor_lost(rule, key, '%s: %s @ %s' % (type(e).__name__, e, tb[-3].strip() if len(tb) >= 3 else ''))
        return None

    def soften(self, twins):
        """From here on, shape rules of this property are *soft*: `twins` are the keys of the functional / end-to-end rule
        instances (already run) that decide the property's clauses by interpreting the code on bounded input families,
        independently of its shape.  While every twin is OK on this tree, a shape rule that cannot find its anchors
        (kind=anchor-lost: the code was rewritten) is recorded as UNDECIDED-SHAPE instead of raising an alarm - the clause is
        still decided, by the twins.  A shape rule that recognises the code and finds it wrong reports a violation as before,
        and if any twin is missing or failed every rule fails closed as before."""
        self.soft_twins = list(twins)

    def _soft_ok(self):
        if not self.soft_twins or self.only:
            return False
        ok = {i['key'] for i in self.instances if i['status'] == 'OK'}
        return all(t in ok for t in self.soft_twins)

    def guard_soft(self, rule, key, fn, twins):
        """guard() for a shape rule whose clause is also decided functionally (by interpretation, independent of code shape) by
        the rule instances `twins`, which must have run before: when the shape is not recognised (anchor lost) and every
        twin reported OK on this tree, the instance is recorded as UNDECIDED-SHAPE (no alarm: the clause is decided by the
        twins); a recognised shape that violates the rule is still reported, and without an OK twin the rule fails closed."""
        try:
            return fn()
        except Exception as e:
            ok = {i['key'] for i in self.instances if i['status'] == 'OK'}
            if twins and all(t in ok for t in twins) and not self.only:
                self.instances.append(dict(rule=rule, key=key, status='UNDECIDED-SHAPE', where='',
                                           detail='shape not recognised (%s: %s); clause decided by %s' % (type(e).__name__, _short(str(e), 160), ', '.join(twins))))
                print('SKIP rule=%s key=%s shape not recognised; clause decided by %s' % (rule, key, ', '.join(twins)))
                return None
            if isinstance(e, AnchorLost):
                self.anchor_lost(rule, key, e)
            else:
                import traceback
                tb = traceback.format_exc().strip().splitlines()
                self.anchor_lost(rule, key, '%s: %s @ %s' % (type(e).__name__, e, tb[-3].strip() if len(tb) >= 3 else ''))
        return None

    def floor(self, rule, what, count, floor):
        key = '%s:floor:%s' % (rule, what)
        if count < floor:
            self.violation(rule, key, detail='instance count %d below floor %d for %s' % (count, floor, what),
                           kind='anchor-lost')
        else:
            self.ok(rule, key, detail='%s: %d instances (floor %d)' % (what, count, floor), nontrivial=False)

    def _write_replay(self, rule, key, where, detail, kind, construct):
        d = os.path.join(EVIDENCE_DIR, 'violations')
        os.makedirs(d, exist_ok=True)
        fn = os.path.join(d, '%s-%s.json' % (self.pid, re.sub(r'[^A-Za-z0-9_.-]+', '_', key)[:150]))
        with open(fn, 'w') as f:
            json.dump(dict(property=self.pid, rule=rule, key=key, kind=kind, where=where, detail=detail,
                           construct=construct), f, indent=1)
        return fn

    # -------------------------------------------------------------- finish
    def resolve_soft(self):
        """end of the property's run: deferred anchor-lost reports of soft shape rules (sa/soft.py)"""
        if not self.pending_soft:
            return
        cfg = self.soft_cfg
        tw = [i for i in self.instances if i['rule'].split(':')[0] in cfg['twins'] and ':floor:' not in i['key']]
        ok = len(tw) >= cfg['floor'] and all(i['status'] == 'OK' for i in tw)
        pend, self.pending_soft = self.pending_soft, []
        cfg_saved, self.soft_cfg = self.soft_cfg, None          # report for real from here on
        for p in pend:
            if ok:
                st = 'UNDECIDED-SHAPE' if p.get('kind', 'anchor-lost') == 'anchor-lost' else 'UNCONFIRMED-SHAPE'
                self.instances.append(dict(rule=p['rule'], key=p['key'], status=st, where=p['where'],
                                           detail='%s; the clause is decided functionally by the %d OK instances of %s' % (_short(p['detail'], 200), len(tw), ', '.join(cfg['twins']))))
                print('SKIP rule=%s key=%s %s (%s); clause decided functionally by %s (%d instances OK)' % (
                    p['rule'], p['key'], 'shape not recognised' if st == 'UNDECIDED-SHAPE' else 'layout rule not confirmed by any functional rule',
                    _short(p['detail'], 100), ', '.join(cfg['twins']), len(tw)))
            else:
                self.violation(p['rule'], p['key'], where=p['where'], detail=p['detail'], kind=p.get('kind', 'anchor-lost'), evals=p['evals'], construct=p['construct'])
        self.soft_cfg = cfg_saved

    def finish(self):
        self.resolve_soft()
        wall = time.time() - self.t0
        cov = dict(
            evaluations=max(self.evaluations, 0),
            distinct_nontrivial=len(self.nontrivial),
            rule='one evaluation per (rule instance x table cell / grid point / path); an instance is '
                 'non-trivial when its anchor was found in the MIR and its verdict depended on at least one '
                 'non-constant operand; distinct by instance key',
            samples=self.samples[:40] or [i for i in self.instances[:10]],
            explanation=self.explanation,
            instances=self.instances,
            known_findings_hit=self.known_hits,
            exhaustive=True,
        )
        if self.level == 'proof':
            cov.update(obligations=self.obligations, discharged=self.discharged,
                       checker_cmd='./check %s --tier %s' % (self.pid, self.tier),
                       trusted_base=self.trusted_base)
        cov.update(self.extra)
        ev = dict(property_id=self.pid, tier=self.tier, seed=self.seed, level=self.level,
                  coverage=cov, assumptions=self.assumptions, wall_s=round(wall, 3),
                  violations=len(self.violations))
        if not self.only:
            os.makedirs(EVIDENCE_DIR, exist_ok=True)
            with open(os.path.join(EVIDENCE_DIR, '%s.json' % self.pid), 'w') as f:
                json.dump(ev, f, indent=1, default=str)
        n_ok = sum(1 for i in self.instances if i['status'] == 'OK')
        print('SUMMARY property=%s tier=%s instances=%d ok=%d known=%d violations=%d evaluations=%d wall=%.1fs' % (
            self.pid, self.tier, len(self.instances), n_ok, len(self.known_hits), len(self.violations),
            self.evaluations, wall))
        return 1 if self.violations else 0


def _short(s, n=200):
    s = str(s).replace('\n', ' ')
    return s if len(s) <= n else s[:n] + '...'
