"""Expression reconstruction from MIR (engine B: used by K3/K5/K8/K9 rules).

An expression is a nested tuple:
  ('arg', i, name)            function parameter i (1-based MIR local)
  ('var', local, name)        user variable / multiply-defined local (leaf)
  ('const', value, ty)        integer/bool/char scalar (value is int); ('fconst', float)
  ('cdef', path)              named const item (unevaluated), ('str', s), ('zst', ty), ('fn', path)
  ('bin', op, a, b)  ('un', op, a)  ('cast', a, ty)
  ('field', a, i)  ('deref', a)  ('index', a, i)  ('downcast', a, v)  ('ref', a)  ('len', a)
  ('discr', a)
  ('call', callee_name, (args...), bb)       result of a call (bb identifies the site)
  ('agg', kind, (ops...))     kind: 'tuple' | 'array' | 'adt:<path>::<variant>' | 'closure:<path>'
  ('upvar', i, name)          closure capture
Checked arithmetic tuples are folded:  (AddWithOverflow(a,b)).0 -> ('bin','Add',a,b).
"""
import struct

from .facts import AnchorLost, Place

_CHECKED = {'AddWithOverflow': 'Add', 'SubWithOverflow': 'Sub', 'MulWithOverflow': 'Mul'}


class ExprBuilder:
    def __init__(self, body, through_vars=True, max_depth=60, through_mut_borrow=False):
        self.b = body
        self.through_vars = through_vars
        self.through_mut_borrow = through_mut_borrow
        self._phi_stack = set()
        self.max_depth = max_depth
        self._defs = {}
        for l in range(len(body.locals)):
            self._defs[l] = []
        for blk in body.blocks:
            if blk.idx not in body.live_blocks():
                continue
            for i, s in enumerate(blk.stmts):
                if s.k == 'assign':
                    if s.place.proj and s.place.proj[0]['k'] == 'deref':
                        continue        # a store through the pointer held in the local, not a definition of it
                    self._defs[s.place.local].append((blk.idx, i, s, bool(s.place.proj)))
            t = blk.term
            if t.k == 'call':
                self._defs[t.dest.local].append((blk.idx, 'term', t, bool(t.dest.proj)))
        # locals whose address is taken mutably (may be written through the reference)
        self._mut_borrowed = set()
        for blk in body.blocks:
            for s in blk.stmts:
                if s.k == 'assign' and s.rv.k == 'ref' and s.rv.j['bk'] == 'mut' and not _has_deref(s.rv.place):
                    self._mut_borrowed.add(s.rv.place.local)
                if s.k == 'assign' and s.rv.k == 'rawptr' and not _has_deref(s.rv.place):
                    self._mut_borrowed.add(s.rv.place.local)

    # ------------------------------------------------------------------
    def single_def(self, local):
        ds = self._defs.get(local, [])
        if len(ds) == 1 and not ds[0][3] and (local not in self._mut_borrowed or self.through_mut_borrow):
            return ds[0]
        return None

    def local_expr(self, local, depth=0):
        b = self.b
        name = b.local_names.get(local)
        if 1 <= local <= b.arg_count:
            if b.kind == 'Closure' and local == 1:
                return ('arg', 1, '<closure-env>')
            return ('arg', local, name or '_%d' % local)
        if depth > self.max_depth:
            return ('var', local, name or '_%d' % local)
        d = self.single_def(local)
        if d is None and name is None and local not in self._mut_borrowed and local not in self._phi_stack:
            ds = [x for x in self._defs.get(local, []) if not x[3]]
            if 2 <= len(ds) <= 4 and len(ds) == len(self._defs.get(local, [])):
                # compiler temporary assigned on several branches: the set of its definitions
                self._phi_stack.add(local)
                try:
                    alts = []
                    for bb, idx, node, _ in ds:
                        if idx == 'term':
                            alts.append(('call', node.callee.name or repr(node.callee),
                                         tuple(self.operand(a, depth + 1) for a in node.args), bb))
                        else:
                            alts.append(self.rvalue(node.rv, depth + 1))
                finally:
                    self._phi_stack.discard(local)
                return ('phi', tuple(sorted(alts, key=repr)))
        if d is None or (name is not None and not self.through_vars):
            return ('var', local, name or '_%d' % local)
        bb, idx, node, _ = d
        if idx == 'term':
            return ('call', node.callee.name or repr(node.callee),
                    tuple(self.operand(a, depth + 1) for a in node.args), bb)
        return self.rvalue(node.rv, depth + 1)

    def place(self, pl, depth=0):
        e = self.local_expr(pl.local, depth)
        for p in pl.proj:
            k = p['k']
            if k == 'deref':
                if e[0] == 'ref':
                    e = e[1]
                else:
                    e = ('deref', e)
            elif k == 'field':
                e = self._field(e, p['i'])
            elif k == 'index':
                e = ('index', e, self.local_expr(p['local'], depth + 1))
            elif k == 'downcast':
                e = ('downcast', e, p['variant'], p.get('name'))
            elif k == 'constidx':
                e = ('index', e, ('const', p['offset'], 'usize'))
            else:
                e = ('proj', e, k)
        return e

    def _field(self, e, i):
        if e[0] == 'bin' and e[1] in _CHECKED:
            if i == 0:
                return ('bin', _CHECKED[e[1]], e[2], e[3])
            return ('overflow', _CHECKED[e[1]], e[2], e[3])
        if e[0] == 'agg' and e[1] in ('tuple',) and i < len(e[2]):
            return e[2][i]
        if e[0] == 'arg' and e[1] == 1 and e[2] == '<closure-env>':
            caps = self.b.captures or []
            nm = caps[i]['name'] if i < len(caps) else '?'
            return ('upvar', i, nm)
        if e[0] == 'deref' and e[1][0] == 'arg' and e[1][1] == 1 and e[1][2] == '<closure-env>':
            caps = self.b.captures or []
            nm = caps[i]['name'] if i < len(caps) else '?'
            return ('upvar', i, nm)
        return ('field', e, i)

    def operand(self, op, depth=0):
        if op.k in ('copy', 'move'):
            return self.place(op.place, depth)
        if op.k == 'const':
            j = op.j
            if 'fn' in j:
                return ('fn', j['fn'])
            if 'bits' in j:
                ty = j['ty']
                v = int(j['bits'])
                if ty == 'f64':
                    return ('fconst', struct.unpack('<d', v.to_bytes(8, 'little'))[0])
                if ty == 'f32':
                    return ('fconst', struct.unpack('<f', v.to_bytes(4, 'little'))[0])
                return ('const', v, ty)
            if 'str' in j:
                return ('str', j['str'])
            if 'def' in j:
                if 'promoted' in j:
                    return ('promoted', j['def'], j['promoted'], j.get('ty'))
                return ('cdef', j['def'])
            if 'zst' in j:
                return ('zst', j['ty'])
            return ('constx', j.get('ty'), j.get('hex'))
        return ('opaque', op.j.get('dbg'))

    def rvalue(self, rv, depth=0):
        k = rv.k
        if k == 'use':
            return self.operand(rv.ops[0], depth)
        if k == 'binop':
            return ('bin', rv.op, self.operand(rv.ops[0], depth), self.operand(rv.ops[1], depth))
        if k == 'unop':
            if rv.op == 'PtrMetadata':
                return ('len', self.operand(rv.ops[0], depth))
            return ('un', rv.op, self.operand(rv.ops[0], depth))
        if k == 'cast':
            return ('cast', self.operand(rv.ops[0], depth), rv.j['ty'], rv.j['kind'])
        if k in ('ref', 'rawptr'):
            return ('ref', self.place(rv.place, depth))
        if k == 'copyforderef':
            return self.place(rv.place, depth)
        if k == 'discr':
            return ('discr', self.place(rv.place, depth))
        if k == 'aggregate':
            kd = rv.j['kind']
            if kd['k'] == 'adt':
                kind = 'adt:%s::%s' % (kd['adt'], kd['vname'])
            elif kd['k'] == 'closure':
                kind = 'closure:%s' % kd['def']
            else:
                kind = kd['k']
            return ('agg', kind, tuple(self.operand(o, depth) for o in rv.ops))
        if k == 'repeat':
            return ('repeat', self.operand(rv.ops[0], depth), rv.j['count'])
        return ('opaque', rv.j.get('dbg'))

    # ------------------------------------------------------------------
    def switch_cond(self, bb):
        """(expr, {target_bb: [values]}, otherwise_bb) of the switchInt ending block bb"""
        t = self.b.blocks[bb].term
        if t.k != 'switch':
            raise AnchorLost('%s: bb%d does not end in switchInt' % (self.b.name, bb))
        return self.operand(t.discr), t.targets, t.otherwise


def _has_deref(pl):
    return any(p['k'] == 'deref' for p in pl.proj)


# ---------------------------------------------------------------------- pretty / helpers
def show(e):
    k = e[0]
    if k == 'arg':
        return e[2]
    if k == 'var':
        return e[2]
    if k == 'upvar':
        return 'upvar:' + e[2]
    if k == 'const':
        return '%d' % e[1]
    if k == 'fconst':
        return repr(e[1])
    if k == 'cdef':
        return e[1].split('::')[-1]
    if k == 'bin':
        return '(%s %s %s)' % (show(e[2]), _OPS.get(e[1], e[1]), show(e[3]))
    if k == 'un':
        return '%s(%s)' % (e[1], show(e[2]))
    if k == 'cast':
        return '(%s as %s)' % (show(e[1]), e[2])
    if k == 'field':
        return '%s.%d' % (show(e[1]), e[2])
    if k == 'deref':
        return '*%s' % show(e[1])
    if k == 'ref':
        return '&%s' % show(e[1])
    if k == 'index':
        return '%s[%s]' % (show(e[1]), show(e[2]))
    if k == 'len':
        return 'len(%s)' % show(e[1])
    if k == 'discr':
        return 'discr(%s)' % show(e[1])
    if k == 'downcast':
        return '(%s as v%s)' % (show(e[1]), e[3] or e[2])
    if k == 'call':
        return '%s(%s)' % (e[1].split('::')[-1], ', '.join(show(a) for a in e[2]))
    if k == 'agg':
        return '%s(%s)' % (e[1], ', '.join(show(a) for a in e[2]))
    if k == 'str':
        return repr(e[1])
    if k == 'phi':
        return 'phi{%s}' % ' | '.join(show(a) for a in e[1])
    if k == 'promoted':
        return 'promoted#%s' % e[2]
    if k == 'zst':
        return '<%s>' % e[1]
    if k == 'fn':
        return 'fn:%s' % e[1]
    return '<%s>' % (k,)


_OPS = {'Add': '+', 'Sub': '-', 'Mul': '*', 'Div': '/', 'Rem': '%', 'BitAnd': '&', 'BitOr': '|', 'BitXor': '^',
        'Shl': '<<', 'Shr': '>>', 'Eq': '==', 'Ne': '!=', 'Lt': '<', 'Le': '<=', 'Gt': '>', 'Ge': '>='}


def subexprs(e):
    yield e
    for x in e[1:]:
        if isinstance(x, tuple):
            if x and isinstance(x[0], str):
                yield from subexprs(x)
            else:
                for y in x:
                    if isinstance(y, tuple) and y and isinstance(y[0], str):
                        yield from subexprs(y)


def mentions(e, pred):
    return any(pred(s) for s in subexprs(e))


def strip_refs(e):
    """drop ref/deref/cast-to-same wrappers (value provenance, ignoring borrowing)"""
    while e[0] in ('ref', 'deref'):
        e = e[1]
    return e


# ---------------------------------------------------------------------- affine forms
def affine(e, atom_of=None):
    """e -> ({atom: coeff}, const) over integers, or None when not affine.
    atoms are sub-expressions that are not +,-,* by const (canonical tuples)."""
    k = e[0]
    if k == 'const':
        return ({}, e[1])
    if k == 'cast' and e[3] in ('IntToInt',):
        return affine(e[1], atom_of)
    if k == 'bin' and e[1] in ('Add', 'Sub'):
        a = affine(e[2], atom_of)
        b = affine(e[3], atom_of)
        if a is None or b is None:
            return None
        s = 1 if e[1] == 'Add' else -1
        out = dict(a[0])
        for t, c in b[0].items():
            out[t] = out.get(t, 0) + s * c
        return ({t: c for t, c in out.items() if c}, a[1] + s * b[1])
    if k == 'bin' and e[1] == 'Mul':
        a = affine(e[2], atom_of)
        b = affine(e[3], atom_of)
        if a is None or b is None:
            return None
        if not a[0]:
            return ({t: c * a[1] for t, c in b[0].items() if c * a[1]}, a[1] * b[1])
        if not b[0]:
            return ({t: c * b[1] for t, c in a[0].items() if c * b[1]}, a[1] * b[1])
        return ({e: 1}, 0)
    atom = atom_of(e) if atom_of else e
    return ({atom: 1}, 0)
