"""Which shape rules are *soft*, per property, and which functional rules stand in for them.

A shape rule recognises constructs in the MIR (a guard, a call with a given argument, a field write ...).  When the code is
rewritten without changing behaviour it may no longer find its anchors and reports kind=anchor-lost.  That is an alarm on
code where the property holds.  For the rules listed here the same clause is also decided by *functional* rules, which
interpret the code (library functions, whole subcommands, or ska::main itself) on bounded input families and compare with
a specification written from the property text - independent of code shape.  Policy (core.Check):

  * an anchor-lost report of a rule listed under `soft` is deferred to the end of the property's run;
  * if by then every instance of the rules listed under `twins` is OK (and at least `floor` of them exist), the report is
    recorded as UNDECIDED-SHAPE in the evidence and no alarm is raised: the clause is decided by the twins on their families;
  * otherwise (a twin failed, is missing, or could not run) it is reported as before: fail closed;
  * kind=violation reports of a soft rule are kept as alarms only for the instances listed under `strong` (key prefixes): rules
    whose verdict is *computed* - a guard or table extracted from the code and evaluated on a grid / truth table / by region
    interpretation - so that "violation" means a recognised construct that evaluates wrongly.  The other soft rules are
    *layout* rules (an expected statement or call at an expected place; exact site counts): six benign rounds showed that for
    them "not found where expected" and "wrong" are not reliably distinguishable (a hoisted, folded or helper-extracted
    statement reads as missing), while over 106 seeded changes and 117 seeded variants none of them was ever the only rule to
    report a defect.  Their violation reports are therefore treated like anchor-lost: deferred, and recorded as
    UNCONFIRMED-SHAPE without an alarm when every functional twin passes.  When a functional rule fails they are reported
    alongside it (they then point at the construct);
  * rules not listed are never softened (they decide clauses no functional rule reaches: persistence stack, who-may-read
    tables, capture audits, the global pool typestate, subtraction obligations, bit-level obligations of C16, count-key
    width ...).

`floor` is the number of twin instances counted on the pinned tree (quick tier); fewer means a twin silently vanished.
"""

SOFT = {
    'C01': dict(twins=['C01.cli', 'C01.e2e', 'C01.func'], floor=6, soft=['C01.report', 'C01.guard', 'C01.args', 'C01.canon', 'C01.pal', 'C01.blocks'], strong=['C01.guard', 'C01.pal', 'C01.blocks', 'C01.canon']),
    'C02': dict(twins=['C02.func'], floor=3, soft=['C02.case', 'C02.strand', 'C02.union', 'C02.window'], strong=['C02.window', 'C02.union', 'C02.strand:palindrome-table']),
    'C03': dict(twins=['C03.cli', 'C03.func', 'C03.e2e'], floor=5, soft=['C03.gap', 'C03.fasta', 'C03.window'], strong=['C03.window', 'C03.gap']),
    'C04': dict(twins=['C04.cli', 'C04.writer', 'C04.map', 'C04.ref', 'C04.e2e'], floor=7, soft=['C04.case', 'C04.prefix', 'C04.strand', 'C04.mask', 'C04.flags', 'C04.len', 'C04.window'], strong=['C04.window']),
    'C05': dict(twins=['C05.cli', 'C05.e2e'], floor=2, soft=['C05.case', 'C05.gt', 'C05.base', 'C05.coord'], strong=['C05.gt:write_vcf:table', 'C05.base']),
    'C06': dict(twins=['C06.cli', 'C06.func'], floor=4, soft=['C06.thresh', 'C06.stale', 'C06.flags', 'C06.fasta'], strong=['C06.stale']),
    'C07': dict(twins=['C07.cli', 'C07.e2e', 'C07.func'], floor=4, soft=['C07.guard', 'C07.rows', 'C07.missing'], strong=['C07.guard', 'C07.rows', 'C07.missing']),
    'C08': dict(twins=['C08.cli', 'C08.e2e', 'C08.func'], floor=3, soft=['C08.arity', 'C08.names', 'C08.guard'], strong=[]),
    'C09': dict(twins=['C09.cli', 'C09.e2e', 'C09.func'], floor=14, soft=['C09.k'], strong=['C09.k']),
    'C11': dict(twins=['C11.func', 'C11.cli'], floor=4, soft=['C11.column', 'C11.offsets', 'C11.combine', 'C11.vote'], strong=['C11.column', 'C11.vote']),
    'C12': dict(twins=['C12.cli', 'C12.func'], floor=3, soft=['C12.qualcmp', 'C12.sibling', 'C12.middle', 'C12.life'], strong=['C12.middle']),
    'C13': dict(twins=['C13.cli', 'C13.e2e', 'C13.func'], floor=3, soft=['C13.args', 'C13.nofilter', 'C13.window'], strong=['C13.window']),
    'C14': dict(twins=['C14.cli', 'C14.e2e'], floor=3, soft=['C14.const', 'C14.pair', 'C14.enum'], strong=['C14.enum', 'C14.const', 'C14.pair']),
    'C16': dict(twins=['C16.func'], floor=2, soft=['C16.window'], strong=['C16.window']),
    'C17': dict(twins=['C17.e2e', 'C17.cli'], floor=3, soft=['C17.gate', 'C17.missing', 'C17.len', 'C17.leaf'], strong=['C17.missing', 'C17.leaf:compare_samples', 'C17.leaf:sequence-codec', 'C17.leaf:entry-func']),
    'C18': dict(twins=['C18.e2e', 'C18.cli'], floor=2, soft=['C18.gt', 'C18.gate', 'C18.dedup', 'C18.leaf'], strong=['C18.gate', 'C18.leaf:compare_samples', 'C18.leaf:sequence-codec', 'C18.leaf:entry-func']),
    'C20': dict(twins=['C20.func', 'C20.cli'], floor=4, soft=['C20.iter', 'C20.window', 'C20.index', 'C20.grad'], strong=['C20.index:writer', 'C20.window', 'C20.grad']),
}
