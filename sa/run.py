"""Entry point: extract facts from /repo's current working tree, run one property's rules."""
import argparse
import fcntl
import importlib
import json
import os
import subprocess
import sys
import time

from .core import Check, VERIF
from .facts import Facts, AnchorLost

ALL = ['C%02d' % i for i in range(1, 21)]
FLOOR_BODIES = 400   # fns+closures counted on the pinned tree: 509


def extract(repo):
    cache = os.path.join(VERIF, '.cache')
    os.makedirs(cache, exist_ok=True)
    out = os.path.join(cache, 'facts-%d.json' % os.getpid())
    t0 = time.time()
    with open(os.path.join(cache, 'lock'), 'w') as lk:
        fcntl.flock(lk, fcntl.LOCK_EX)
        r = subprocess.run([os.path.join(VERIF, 'extract.sh'), out, repo], stdout=subprocess.PIPE,
                           stderr=subprocess.PIPE, text=True)
    if r.returncode != 0 or not os.path.exists(out) or os.path.getmtime(out) < t0 - 1:
        sys.stderr.write(r.stderr[-4000:])
        return None
    return out


def selftest(pid, chk, repo):
    """thorough tier: seeded-variant self-test of this property's rules (DESIGN §9).  Each variant of
    mutants/table.py naming this property is applied to a scratch copy of the tree under test, must still compile,
    and must be reported ('break') or leave the check silent ('keep').  Variants that do not apply are skipped."""
    import tempfile
    out = tempfile.mktemp(suffix='.json', dir=os.path.join(VERIF, '.cache'))
    r = subprocess.run([sys.executable, os.path.join(VERIF, 'tools', 'mutate.py'), '--only-prop', pid, '--repo', repo,
                        '--jobs', '4', '--json', out], capture_output=True, text=True)
    try:
        res = json.load(open(out))
        os.remove(out)
    except (OSError, ValueError):
        print('SELFTEST property=%s could not run: %s' % (pid, r.stderr[-300:]))
        chk.extra['selftest'] = dict(error=r.stderr[-300:])
        return
    summ = {}
    for x in res:
        summ[x['status']] = summ.get(x['status'], 0) + 1
    weak = [x['id'] for x in res if x['status'] in ('SURVIVED', 'FALSE-ALARM')]
    for x in res:
        print('SELFTEST property=%s variant=%s status=%s %s' % (pid, x['id'], x['status'], x.get('violations') or x.get('why', '')))
    if weak:
        print('SELFTEST-WEAK property=%s variants=%s (checker self-test, not a property violation)' % (pid, weak))
    chk.extra['selftest'] = dict(summary=summ, variants=res)
    chk.evaluations += len(res)
    print('SELFTEST property=%s %s' % (pid, summ))


def main():
    ap = argparse.ArgumentParser()
    ap.add_argument('prop')
    ap.add_argument('--tier', default=os.environ.get('VERIF_TIER', 'quick'))
    ap.add_argument('--replay')
    ap.add_argument('--facts')
    ap.add_argument('--repo', default='/repo')
    ap.add_argument('--keep-facts', action='store_true')
    a = ap.parse_args()
    seed = int(os.environ.get('VERIF_SEED', '0') or 0)
    props = ALL if a.prop == 'all' else [a.prop]
    tmp = None
    fpath = a.facts
    if not fpath:
        fpath = tmp = extract(a.repo)
    rc = 0
    try:
        if fpath is None:
            # the tree does not compile (or the driver failed): nothing can be decided
            for p in props:
                print('VIOLATION property=%s replay=none kind=extraction-failed (cargo check of %s failed; '
                      'see stderr)' % (p, a.repo))
            return 1
        facts = Facts(fpath)
        nb = int(facts.manifest['fns']) + int(facts.manifest['closures'])
        for p in props:
            mod = importlib.import_module('sa.rules.%s' % p.lower())
            chk = Check(p, a.tier, seed, level=getattr(mod, 'LEVEL', 'other'))
            chk.explanation = getattr(mod, 'EXPLANATION', '')
            chk.assumptions = list(getattr(mod, 'ASSUMPTIONS', []))
            chk.trusted_base = list(getattr(mod, 'TRUSTED_BASE', []))
            chk.extra['facts'] = dict(bodies=nb, manifest=facts.manifest, repo=a.repo)
            from .soft import SOFT
            chk.soft_cfg = SOFT.get(p)
            if nb < FLOOR_BODIES:
                chk.violation('facts', 'facts:floor:bodies', detail='only %d bodies extracted' % nb,
                              kind='anchor-lost')
            if facts.unsafe_fns:
                chk.violation('facts', 'facts:unsafe', detail='unsafe fns in crate: %s' % facts.unsafe_fns,
                              kind='anchor-lost')
            only = None
            if a.replay:
                only = json.load(open(a.replay)).get('key')
                chk.only = only
            try:
                mod.run(facts, chk, a.tier, only)
            except AnchorLost as e:
                chk.anchor_lost('run', '%s:run' % p, e)
            except Exception as e:      # fail closed
                import traceback
                tb = traceback.format_exc().strip().splitlines()
                chk.anchor_lost('run', '%s:run' % p, '%s: %s @ %s' % (type(e).__name__, e, tb[-3].strip() if len(tb) >= 3 else ''))
            chk.resolve_soft()
            if a.tier == 'thorough' and not a.replay:
                selftest(p, chk, a.repo)
            rc |= chk.finish()
    finally:
        if tmp and not a.keep_facts:
            for f in (tmp, tmp + '.bin'):
                try:
                    os.remove(f)
                except OSError:
                    pass
    return rc


if __name__ == '__main__':
    sys.exit(main())
