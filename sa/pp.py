"""python3 -m sa.pp <facts.json> <fn-name-substring> : pretty-print MIR (development aid)"""
import sys
from .facts import Facts
f = Facts(sys.argv[1])
for b in f.bodies.values():
    if all(s in b.name for s in sys.argv[2:]):
        print(b.pp()); print()
