"""K5: predicate extraction.  Path conditions over switchInt edges as boolean formulas whose
atoms are reconstructed expressions; evaluation of formulas / expressions under an environment.

Formula:  True | False | ('sw', expr, frozenset(values), positive: bool)
          | ('and', f, g) | ('or', f, g) | ('not', f)
('sw', e, S, True) means value(e) in S;  positive False means value(e) not in S.
"""
from .facts import AnchorLost
from .expr import ExprBuilder


def f_and(a, b):
    if a is False or b is False:
        return False
    if a is True:
        return b
    if b is True:
        return a
    return ('and', a, b)


def f_or(a, b):
    if a is True or b is True:
        return True
    if a is False:
        return b
    if b is False:
        return a
    return ('or', a, b)


def f_not(a):
    if a is True:
        return False
    if a is False:
        return True
    if a[0] == 'not':
        return a[1]
    if a[0] == 'sw':
        return ('sw', a[1], a[2], not a[3])
    return ('not', a)


def edge_conds(body, eb, bb):
    """[(succ, formula)] for the terminator of bb (non-unwind edges)"""
    t = body.blocks[bb].term
    if t.k == 'switch':
        e = eb.operand(t.discr)
        out = []
        listed = frozenset(v for v, _ in t.targets)
        by_t = {}
        for v, tg in t.targets:
            by_t.setdefault(tg, set()).add(v)
        for tg, vs in by_t.items():
            out.append((tg, ('sw', e, frozenset(vs), True)))
        # otherwise edge (may coincide with a listed target)
        ow = ('sw', e, listed, False)
        merged = []
        seen_ow = False
        for tg, f in out:
            if tg == t.otherwise:
                merged.append((tg, f_or(f, ow)))
                seen_ow = True
            else:
                merged.append((tg, f))
        if not seen_ow:
            merged.append((t.otherwise, ow))
        return merged
    return [(s, True) for s in t.succs()]


def reach_formula(body, eb, src, dst, stop=(), back_edges_ok=False):
    """formula under which control starting at the top of `src` reaches the top of `dst`
    without passing through `stop` blocks.  The explored region must be acyclic unless
    back_edges_ok (back edges are then cut)."""
    memo = {}
    onstack = set()
    stop = set(stop)

    def go(b):
        if b == dst:
            return True
        if b in stop:
            return False
        if b in memo:
            return memo[b]
        if b in onstack:
            if back_edges_ok:
                return False
            raise AnchorLost('%s: cycle through bb%d while extracting a path condition' % (body.name, b))
        onstack.add(b)
        f = False
        for s, c in edge_conds(body, eb, b):
            sub = go(s)
            f = f_or(f, f_and(c, sub))
        onstack.discard(b)
        memo[b] = f
        return f

    return go(src)


def atoms(f, out=None):
    if out is None:
        out = []
    if f is True or f is False:
        return out
    if f[0] == 'sw':
        if f[1] not in out:
            out.append(f[1])
        return out
    for x in f[1:]:
        atoms(x, out)
    return out


def eval_formula(f, val):
    """val(expr) -> int"""
    if f is True or f is False:
        return f
    k = f[0]
    if k == 'sw':
        v = val(f[1])
        return (v in f[2]) == f[3]
    if k == 'and':
        return eval_formula(f[1], val) and eval_formula(f[2], val)
    if k == 'or':
        return eval_formula(f[1], val) or eval_formula(f[2], val)
    if k == 'not':
        return not eval_formula(f[1], val)
    raise AnchorLost('bad formula node %r' % (k,))


class Unevaluable(Exception):
    pass


def eval_expr(e, leaf):
    """evaluate an expression tree over python ints; leaf(e) returns a value for leaves / opaque
    sub-expressions or raises Unevaluable.  Booleans are 0/1."""
    try:
        return leaf(e)
    except Unevaluable:
        pass
    k = e[0]
    if k == 'const':
        return e[1]
    if k == 'fconst':
        return e[1]
    if k == 'bin':
        a = eval_expr(e[2], leaf)
        b = eval_expr(e[3], leaf)
        op = e[1]
        if op == 'Add': return a + b
        if op == 'Sub': return a - b
        if op == 'Mul': return a * b
        if op == 'Div': return a / b if isinstance(a, float) or isinstance(b, float) else a // b
        if op == 'Rem': return a % b
        if op == 'BitAnd': return a & b
        if op == 'BitOr': return a | b
        if op == 'BitXor': return a ^ b
        if op == 'Shl': return a << b
        if op == 'Shr': return a >> b
        if op == 'Eq': return int(a == b)
        if op == 'Ne': return int(a != b)
        if op == 'Lt': return int(a < b)
        if op == 'Le': return int(a <= b)
        if op == 'Gt': return int(a > b)
        if op == 'Ge': return int(a >= b)
        raise Unevaluable('binop %s' % op)
    if k == 'un':
        a = eval_expr(e[2], leaf)
        if e[1] == 'Not':
            return 1 - a if a in (0, 1) else ~a
        if e[1] == 'Neg':
            return -a
    if k == 'cast':
        return eval_expr(e[1], leaf)
    if k == 'overflow':
        return 0
    raise Unevaluable('cannot evaluate %r' % (e[:2],))


def show_formula(f, show):
    if f is True or f is False:
        return str(f)
    k = f[0]
    if k == 'sw':
        return '%s %s {%s}' % (show(f[1]), 'in' if f[3] else 'not in', ','.join(map(str, sorted(f[2]))))
    if k == 'not':
        return '!(%s)' % show_formula(f[1], show)
    return '(%s %s %s)' % (show_formula(f[1], show), '&&' if k == 'and' else '||', show_formula(f[2], show))
