"""End-to-end small-scope check of `ska map -f vcf` (C05.e2e): build_and_merge -> MergeSkaArray::new -> to_dict ->
RefSka::new -> map -> write_vcf, with noodles_vcf builders recorded symbolically (models_vcf).  The records handed to the VCF
writer are compared with the property statement evaluated from the mapped alignment specification of C04 (e2e.spec_map):

  a record at contig c, 1-based position p  <=>  some sample's aligned character differs from the upper-case reference base;
  REF = reference base (N if not A/C/G/T); every genotype decodes through REF / ALT to the aligned base ('.' for '-',
  N for ambiguity codes); header contigs / samples and record order follow the inputs.
"""
from ..facts import AnchorLost
from ..absint.interp import Interp, Panic, NONE, StrV
from ..absint.values import BV, Agg, RefV, Cell, Opaque
from ..absint import models_vcf as V
from . import e2e

RS = 'ska_ref::RefSka'
MSA = 'merge_ska_array::MergeSkaArray'


def _s(x):
    if isinstance(x, StrV):
        return ''.join(c if isinstance(c, str) else chr(c.val) for c in x.chars)
    return None


def base_name(facts, agg):
    """variant name of a noodles Base value (A, C, G, T, N)"""
    if isinstance(agg, Agg) and agg.kind.startswith('adt:') and agg.kind.endswith('Base'):
        adt = facts.adts.get(agg.kind[4:])
        if adt:
            return adt['variants'][agg.variant]['name']
        return 'ACGTN'[agg.variant] if agg.variant < 5 else '?'
    return None


def decode_record(facts, I, rec):
    """record tree -> (chrom, pos, ref, [alts], [gt strings])"""
    out = dict(chrom=None, pos=None, ref=None, alts=[], gts=[])

    def first(name):
        xs = V.walk(rec, name)
        return xs[0] if xs else None
    c = first('set_chromosome')
    if c is not None:
        ps = V.walk(c.fields[1], 'parse')
        if ps:
            out['chrom'] = _s(ps[0].fields[0])
    p = first('set_position')
    if p is not None:
        v = p.fields[1]
        while isinstance(v, Agg) and v.kind.startswith('sym:') and v.fields:
            v = v.fields[-1]
        out['pos'] = v.val if isinstance(v, BV) else None
    r = first('add_reference_base')
    if r is not None:
        out['ref'] = base_name(facts, r.fields[1])
    a = first('set_alternate_bases')
    if a is not None:
        def bases(x):
            if isinstance(x, Agg):
                n = base_name(facts, x)
                if n is not None:
                    yield n
                    return
                for f in x.fields:
                    yield from bases(f)
        out['alts'] = list(bases(a.fields[1]))
    g = first('set_genotypes')
    if g is not None:
        def strs(x):
            if isinstance(x, StrV):
                yield _s(x)
            elif isinstance(x, Agg):
                for f in x.fields:
                    yield from strs(f)
        gs = list(strs(g.fields[1]))
        out['gts'] = [s for s in gs if s not in ('GT',)]
    return out


def run_vcf(facts, ref, samples, k, rc, ambig_mask=0, repeat_mask=0, threads=1, names=None):
    I = Interp(facts, {'IntT': 'u64'})
    I.files = {'ref': ('fasta', [((names[i] if names else 'c%d' % i), s, None) for i, s in enumerate(ref)])}
    arr = e2e.build_array(facts, I, samples, k, rc)
    d2 = I.call_fn(MSA + '::to_dict', [RefV(arr)])
    r = Cell(I.call_fn(RS + '::new', [BV(64, k), RefV(Cell(StrV(list('ref')), 'fn')), BV(1, rc), BV(1, ambig_mask), BV(1, repeat_mask)]), 'ref')
    I.call_fn(RS + '::map', [RefV(r), RefV(Cell(d2, 'd2'))])
    I.vcf_out = []
    I.vcf_header = None
    I.call_fn(RS + '::write_vcf', [RefV(r), RefV(Cell(Opaque('writer'), 'w')), BV(64, threads)])
    recs = [decode_record(facts, I, x) for x in I.vcf_out]
    hdr = I.vcf_header
    contigs, snames = [], []
    x = hdr
    # the header is a builder chain  build(add_sample_name(.. add_contig(.. builder() ..)))  : unroll from the outside, then reverse
    while isinstance(x, Agg) and x.kind.startswith('sym:') and x.fields:
        if x.kind.endswith('add_sample_name'):
            v = x.fields[1]
            while isinstance(v, RefV):
                v = I.load(v)
            snames.append(_s(v))
        elif x.kind.endswith('add_contig'):
            ps = V.walk(x.fields[1], 'parse')
            contigs.append(_s(ps[0].fields[0]) if ps else None)
        x = x.fields[0]
    contigs.reverse()
    snames.reverse()
    return recs, contigs, snames


def spec_vcf(ref, samples, k, rc, ambig_mask=0, repeat_mask=0, names=None):
    aln = e2e.spec_map(ref, samples, k, rc, ambig_mask, repeat_mask)
    out = []
    off = 0
    for c, s in enumerate(ref):
        for p, rb in enumerate(s.upper()):
            col = [a[1][off + p] for a in aln]
            if any(ch != rb for ch in col):
                refb = rb if rb in 'ACGT' else 'N'
                alts = []
                gts = []
                for ch in col:
                    if ch == rb:
                        gts.append('0')
                    elif ch == '-':
                        gts.append('.')
                    else:
                        b = ch if ch in 'ACGT' else 'N'
                        if b not in alts:
                            alts.append(b)
                        gts.append(str(alts.index(b) + 1))
                out.append(dict(chrom=(names[c] if names else 'c%d' % c), pos=p + 1, ref=refb, alts=alts, gts=gts))
        off += len(s)
    return out


def check_vcf_e2e(facts, chk, rule, tier):
    key = rule + ':vcf'
    bad = []
    n = 0
    k = 5
    cases = e2e.map_cases(tier)
    # three contigs with variation late in the third; reference N and lower case; multi-allelic site with a recurring ALT
    cases = cases + [
        (['ACCAGTTGAC', 'GGTACCATT', 'TTGACCAGTAAC'], [('s0', ['ACCAGTTGAC', 'GGTACCATT', 'TTGACCAGTAAC']), ('s1', ['ACCAGATGAC', 'GGTACCATT', 'TTGACCTGTAAC']), ('s2', ['TTGACCAGGAAC'])]),
        (['ACCAGTTGACCAT'], [('a', ['ACCAGCTGACCAT']), ('b', ['ACCAGGTGACCAT']), ('c', ['ACCAGCTGACCAT']), ('d', ['ACCAGTTGACCAT'])]),
        (['ACCAGNTGACCAT', 'ggtaccatg'], [('a', ['ACCAGTTGACCAT', 'GGTACCATG']), ('b', ['GGTTCCATG'])]),
    ]
    for ci, (ref, samples) in enumerate(cases):
        # contig names: c0, c1, .. for most cases; for every third case names whose lexicographic order differs from the file order
        cnames = None if ci % 3 else ['contig_8', 'contig_10', 'b', 'a'][:len(ref)] if len(ref) <= 4 else None
        for rc in (1, 0):
            for am, rm in ((0, 0), (1, 0), (0, 1)):
                n += 1
                want = spec_vcf(ref, samples, k, rc, am, rm, names=cnames)
                try:
                    got, contigs, snames = run_vcf(facts, ref, samples, k, rc, am, rm, names=cnames)
                except Panic as p:
                    bad.append((ref, samples, rc, am, rm, 'panic: %s' % p.kind, None))
                    continue
                if contigs != (cnames or ['c%d' % i for i in range(len(ref))]) or snames != [x[0] for x in samples]:
                    bad.append((ref, samples, rc, am, rm, 'header contigs %s samples %s' % (contigs, snames), None))
                elif got != want:
                    gk = {(r['chrom'], r['pos']) for r in got}
                    wk = {(r['chrom'], r['pos']) for r in want}
                    if gk != wk:
                        why = 'records at %s, the alignment differs from the reference at %s (missing %s, extra %s)' % (sorted(gk)[:6], sorted(wk)[:6], sorted(wk - gk)[:4], sorted(gk - wk)[:4])
                    else:
                        d = [(g, w) for g, w in zip(got, want) if g != w][0]
                        why = 'record %s, the property requires %s' % d
                    bad.append((ref, samples, rc, am, rm, why, None))
    if bad:
        ref, samples, rc, am, rm, why, _ = bad[0]
        chk.violation(rule, key, where='ska map -f vcf (… / RefSka::write_vcf)', evals=n,
                      detail='%d of %d cases differ; first: %s; reference %s samples %s rc=%d ambig_mask=%d repeat_mask=%d' % (len(bad), n, why, ref, samples, rc, am, rm))
    else:
        chk.ok(rule, key, 'ska map -f vcf pipeline', 'records exactly where the mapped alignment differs from the upper-case reference; REF / ALT numbering / genotypes decode to the aligned characters; header and record order follow the inputs '
               '(%d reference x sample set x strand x mask cases incl. 3 contigs, N and lower case in the reference, multi-allelic sites)' % n, evals=n)
