"""CLI-level end-to-end interpretation: `ska::main()` itself, with `cli::cli_args()` replaced by a constructed `Args` value.

Everything between the parsed command line and the output is the crate's own MIR: the subcommand arm of main, the width
dispatch (try u64, then u128), generic_modes::*, the library.  Replaced: the argument parser (clap), the logger, the clock,
sequence files (virtual table, needletail parser trusted), .skf persistence (virtual table: save records, load looks up and
refuses the other integer width - the check C09.width decides), output streams (captured), rayon (sequential).

So a wrong hand-over in an arm of main (a flag passed to the wrong parameter, a value taken from the wrong file, a
divergence between the 64- and 128-bit branches) changes what these rules compare with the property model.
"""
import copy
from ..facts import AnchorLost
from ..absint.interp import Interp, Panic, NONE, some, StrV
from ..absint.values import BV, Agg, RefV, Cell, Opaque
from . import tableops

MSA = 'merge_ska_array::MergeSkaArray'


def S(x):
    return StrV(list(x))


def _deref(I, v):
    while isinstance(v, RefV):
        v = I.load(v)
    return v


def _txt(I, v):
    v = _deref(I, v)
    return ''.join(ch if isinstance(ch, str) else chr(ch.val) for ch in v.chars)


class World:
    """virtual environment of one or more `ska` invocations: sequence files, .skf files, text files, captured outputs"""

    def __init__(self, facts):
        self.facts = facts
        self.seq = {}          # path -> (fmt, records)
        self.skf = {}          # path -> (array value, 'u64' | 'u128')
        self.text = {}         # path -> str (names files etc.)
        self.stdout = []       # captured stdout of the last run
        self.outfiles = {}     # path -> text written through set_ostream / File::create
        self.fasta = []        # records written with needletail write_fasta in the last run

    def enum(self, path, name):
        return Agg('adt:' + path, self.facts.variant_index(path, name), [])

    def command(self, variant, **kw):
        adt = self.facts.adt('cli::Commands')
        vi = self.facts.variant_index('cli::Commands', variant)
        fields = []
        for f in adt['variants'][vi]['fields']:
            if f['name'] not in kw:
                raise AnchorLost('Commands::%s has a field %s the harness does not set' % (variant, f['name']))
            fields.append(kw.pop(f['name']))
        if kw:
            raise AnchorLost('Commands::%s lacks fields %s' % (variant, sorted(kw)))
        return Agg('adt:cli::Commands', vi, fields)

    def run(self, command, verbose=False, max_steps=600_000_000):
        facts = self.facts
        I = Interp(facts, {'IntT': 'u64'})
        I.max_steps = max_steps
        I.files = self.seq
        I.out_files = {}
        I.fasta_out = []
        self.stdout = []
        world = self
        an = [f['name'] for f in facts.adt('cli::Args')['variants'][0]['fields']]
        args = Agg('adt:cli::Args', 0, [dict(command=command, verbose=BV(1, int(verbose)))[n] for n in an])
        I.overrides['cli::cli_args'] = lambda I_, a, t, c: args
        I.overrides['cli::check_threads'] = lambda I_, a, t, c: Agg('tuple', 0, [])

        def load(I_, a, t, c):
            path = _txt(I_, a[0])
            full = c.full or ''
            width = 'u128' if 'u128' in full else ('u64' if 'u64' in full else I_.subst.get('IntT', 'u64'))
            if path not in world.skf or world.skf[path][1] != width:
                return Agg('adt:std::result::Result', 1, [Opaque(('load-error', path))])
            return Agg('adt:std::result::Result', 0, [copy.deepcopy(world.skf[path][0])])

        def save(I_, a, t, c):
            path = _txt(I_, a[1])
            arr = copy.deepcopy(_deref(I_, a[0]))
            names = [f['name'] for f in facts.adt(MSA)['variants'][0]['fields']]
            kb = dict(zip(names, arr.fields))['k_bits']
            world.skf[path] = (arr, 'u128' if kb.val == 128 else 'u64')
            return Agg('adt:std::result::Result', 0, [Agg('tuple', 0, [])])

        def ostream(I_, a, t, c):
            o = _deref(I_, a[0])
            path = '<stdout>' if o.variant == 0 else _txt(I_, o.fields[0])
            cell = Cell(Agg('sink', 0, [path, []]), 'ostream:' + path)
            I_.out_files[path] = cell
            return Agg('bufwriter', 0, [RefV(cell)])
        I.overrides[MSA + '::load'] = load
        I.overrides[MSA + '::save'] = save
        I.overrides['io_utils::set_ostream'] = ostream
        I.text_files = self.text
        for name, fn in getattr(self, 'extra_overrides', {}).items():       # recorders standing in for a library entry point (cli_more.py)
            I.overrides[name] = fn
        try:
            I.call_fn('main', [])
            status = 0
        except Panic as p:
            status = ('panic', p.kind, str(p)[:200])
        self.outfiles = {p: ''.join(c.v.fields[1]) for p, c in I.out_files.items()}
        self.fasta = [(''.join(chr(x.val) for x in nm), ''.join(chr(x.val) for x in sq)) for nm, sq in getattr(I, 'fasta_out', [])]
        self.vcf = list(getattr(I, 'vcf_out', []))
        self.I = I
        return status

    # ---- convenience constructors for argument values
    def strings(self, xs):
        return Agg('array', 0, [S(x) for x in xs])

    def table(self, path):
        arr, w = self.skf[path]
        names, kmers, rows, counts, ncols = tableops.read_array(self.facts, Cell(arr, 'a'))
        return names, sorted(zip(kmers, rows)), w


# ====================================================================== scenarios
from . import e2e, skiter, vcf_e2e, lo_e2e       # noqa: E402
import itertools                                 # noqa: E402

SAMPLES = [('s0', ['ACCAGTTGACCAT', 'GGTACCA']), ('s1', ['ACCAGATGACC', 'TGGTACC']), ('s2', ['GGTACCAGTT', 'ACCAGCTGACC'])]


def _qualfilter(facts, name):
    return Agg('adt:QualFilter', facts.variant_index('QualFilter', name), [])


def world_with_build(facts, samples, k, single_strand=0, out='all', threads=1, via_list=False):
    """run `ska build` through main() on virtual FASTA files named <sample>.fa"""
    W = World(facts)
    for nm, recs in samples:
        W.seq[nm + '.fa'] = ('fasta', [('r%d' % i, s, None) for i, s in enumerate(recs)])
    if via_list:
        W.text['list.txt'] = ''.join('%s\t%s.fa\n' % (nm, nm) for nm, _ in samples)
    cmd = W.command('Build', seq_files=NONE if via_list else some(W.strings([nm + '.fa' for nm, _ in samples])),
                    file_list=some(S('list.txt')) if via_list else NONE, output=S(out), k=BV(64, k), proportion_reads=NONE,
                    single_strand=BV(1, single_strand), min_count=NONE, min_qual=BV(8, 20), qual_filter=_qualfilter(facts, 'Strict'), threads=BV(64, threads))
    st = W.run(cmd)
    return W, st


def spec_table(samples, k, rc):
    dicts = [skiter.spec_dict([(s, None) for s in recs], k, rc) for _, recs in samples]
    keys = set()
    for d in dicts:
        keys |= set(d)
    return [nm for nm, _ in samples], sorted((v, ''.join(d.get(v, '-') for d in dicts)) for v in keys)


def _report(chk, rule, key, where, bad, n, okmsg):
    if bad:
        chk.violation(rule, key, where=where, evals=n, detail='%d of %d runs differ; first: %s' % (len(bad), n, str(bad[0])[:700]))
    else:
        chk.ok(rule, key, where, okmsg % n, evals=n)


def check_build(facts, chk, rule, tier):
    """`ska build` through main(): names = file stems (or the names of the file list), table = IUPAC-merged windows; --single-strand honoured;
    k > 31 stored with 128-bit k-mers"""
    bad = []
    n = 0
    for k, ss, via_list in ((5, 0, False), (5, 1, False), (7, 0, True)):
        n += 1
        W, st = world_with_build(facts, SAMPLES, k, ss, via_list=via_list)
        want = spec_table(SAMPLES, k, 0 if ss else 1)
        if st != 0 or 'all.skf' not in W.skf:
            bad.append(((k, ss, via_list), 'status %s' % (st,)))
            continue
        names, rows, w = W.table('all.skf')
        if (names, rows, w) != (want[0], want[1], 'u64'):
            bad.append(((k, ss, via_list), 'saved table names %s width %s differs from the specification (names %s); rows only saved %s' % (names, w, want[0], [r for r in rows if r not in want[1]][:3])))
    # a file list mixing two-file lines (name, file, second file) and single-file lines, in both orders: each sample is built from
    # exactly the files named on its own line
    extra = {'s0': ['TTGACCAGGA', 'CATTG'], 's2': ['GGTACCTTGA']}
    for order in ((0, 1, 2), (1, 0, 2), (2, 1, 0)):
        for k, ss in ((5, 0), (7, 1)):
            W = World(facts)
            lines = []
            want_samples = []
            for i in order:
                nm, recs = SAMPLES[i % len(SAMPLES)]
                W.seq[nm + '.fa'] = ('fasta', [('r%d' % j, sq, None) for j, sq in enumerate(recs)])
                if nm in extra:
                    W.seq[nm + '_2.fa'] = ('fasta', [('x%d' % j, sq, None) for j, sq in enumerate(extra[nm])])
                    lines.append('%s\t%s.fa\t%s_2.fa\n' % (nm, nm, nm))
                    want_samples.append((nm, list(recs) + extra[nm]))
                else:
                    lines.append('%s\t%s.fa\n' % (nm, nm))
                    want_samples.append((nm, list(recs)))
            W.text['list.txt'] = ''.join(lines)
            n += 1
            st = W.run(W.command('Build', seq_files=NONE, file_list=some(S('list.txt')), output=S('all'), k=BV(64, k), proportion_reads=NONE, single_strand=BV(1, ss),
                                 min_count=NONE, min_qual=BV(8, 20), qual_filter=_qualfilter(facts, 'Strict'), threads=BV(64, 1)))
            want = spec_table(want_samples, k, 0 if ss else 1)
            if st != 0 or 'all.skf' not in W.skf:
                bad.append(((k, ss, 'file list', lines), 'status %s' % (st,)))
            elif W.table('all.skf')[:2] != (want[0], want[1]):
                names, rows, _w = W.table('all.skf')
                bad.append(((k, ss, 'file list', lines), 'saved table (names %s) differs from the build of each line\'s own files; rows only saved %s, only specified %s' %
                            (names, [r for r in rows if r not in want[1]][:3], [r for r in want[1] if r not in rows][:3])))
    # positional sequence files in different directories with the same file name: every file is a sample (all named alike), in input order
    n += 1
    W = World(facts)
    paths = []
    for i, (nm, recs) in enumerate(SAMPLES):
        pth = 'run_%d/contigs.fa' % i
        W.seq[pth] = ('fasta', [('r%d' % j, sq, None) for j, sq in enumerate(recs)])
        paths.append(pth)
    st = W.run(W.command('Build', seq_files=some(W.strings(paths)), file_list=NONE, output=S('all'), k=BV(64, 5), proportion_reads=NONE, single_strand=BV(1, 0),
                         min_count=NONE, min_qual=BV(8, 20), qual_filter=_qualfilter(facts, 'Strict'), threads=BV(64, 1)))
    want = spec_table([('contigs', recs) for _, recs in SAMPLES], 5, 1)
    if st != 0 or 'all.skf' not in W.skf or W.table('all.skf')[:2] != (want[0], want[1]):
        got = W.table('all.skf')[0] if 'all.skf' in W.skf else None
        bad.append(((5, 0, 'same file name in different directories', paths), 'status %s; samples %s, expected one per input file %s' % (st, got, want[0])))
    # both sides of the integer-width boundary: k = 31 is stored with 64-bit, k = 33 with 128-bit split k-mers
    long = [('l0', ['ACCAGTTGACCATGGTACCAGATTACAGGCATCCAAGT']), ('l1', ['ACCAGTTGACCATGGTACGAGATTACAGGCATCCAAGT'])]
    for kk, ww in ((31, 'u64'), (33, 'u128')):
        n += 1
        W, st = world_with_build(facts, long, kk, 0)
        want = spec_table(long, kk, 1)
        if st != 0 or 'all.skf' not in W.skf or W.table('all.skf') != (want[0], want[1], ww):
            bad.append(((kk, 0, False), 'k=%d build: status %s, width %s (expected %s)' % (kk, st, W.skf.get('all.skf', (None, None))[1], ww)))
    _report(chk, rule, rule + ':build', 'main: Commands::Build', bad, n, 'ska build through main(): sample names, strand mode, k and the saved table == specification (%d runs)')


LONG = [('l0', ['ACCAGTTGACCATGGTACCAGATTACAGGCATCCAAGT']), ('l1', ['ACCAGTTGACCATGGTACGAGATTACAGGCATCCAAGT', 'ACCAGTTGACCATGGTACTAGATTACAGGCATCCAAGT']),
        ('l2', ['CCAGTTGACCATGGTACCAGATTACAGGCATCCAAGTA'])]


def check_align(facts, chk, rule, tier):
    """`ska align` through main(): the FASTA written == filter model applied to the built table, transposed, names in order;
    for a 64-bit (k=5) and a 128-bit (k=33) file, so both branches of the width dispatch are exercised"""
    import math
    bad = []
    n = 0
    combos = [(0.9, 'NoConst', 0, 0, 0), (0.0, 'NoFilter', 0, 0, 0), (0.5, 'NoAmbigOrConst', 1, 0, 1), (0.0, 'NoConst', 0, 1, 0), (0.0, 'NoFilter', 0, 0, 1),
              (1.0, 'NoAmbig', 0, 0, 1), (0.34, 'NoConst', 1, 1, 0), (0.0, 'NoFilter', 1, 0, 0), (0.0, 'NoConst', 0, 0, 1), (0.5, 'NoConst', 1, 0, 1)]
    # a sample with two copies of one locus differing in the middle base: sites that are variable only through an ambiguity code
    amb = [SAMPLES[0], (SAMPLES[1][0], SAMPLES[1][1] + ['ACCAGTTGACC', 'GGTACGA']), SAMPLES[2], ('s3', ['ACCAGTTGACCAT', 'GGTACCA', 'GGTACGAGTT'])]
    # .. and a site whose only symbols are two different ambiguity codes (masking must come after the site filter)
    amb2 = [('a', ['AGCTC', 'AGGTC', 'GATTACA']), ('b', ['AGATC', 'AGGTC', 'GATCACA'])]
    for samples, k in ((amb, 5), (amb2, 5), (LONG, 33)):
        W0, st = world_with_build(facts, samples, k)
        names, rows = spec_table(samples, k, 1)
        t = tableops.Table(names, rows)
        for mf, ft, faam, icg, mask in (combos if (tier == 'thorough' or k == 33) else combos[:5] + combos[8:]):
            n += 1
            cmd = W0.command('Align', input=W0.strings(['all.skf']), output=NONE, min_freq=float(mf), filter_ambig_as_missing=BV(1, faam),
                             filter=W0.enum('cli::FilterType', ft), ambig_mask=BV(1, mask), no_gap_only_sites=BV(1, icg), threads=BV(64, 1))
            st = W0.run(cmd)
            want_t, _, _ = tableops.spec_filter(t, math.ceil(len(names) * mf), faam, ft, mask, icg)
            want = [(nm, ''.join(b[i] for _, b in want_t.rows)) for i, nm in enumerate(names)]
            cols = lambda recs: sorted(''.join(sq[i] for _, sq in recs) for i in range(len(recs[0][1]))) if recs and recs[0][1] else []
            if st != 0 or [x[0] for x in W0.fasta] != names or cols(W0.fasta) != cols(want):
                bad.append(((k, mf, ft, faam, icg, mask), 'status %s names %s columns %s, specified %s' % (st, [x[0] for x in W0.fasta], cols(W0.fasta)[:6], cols(want)[:6])))
    _report(chk, rule, rule + ':align', 'main: Commands::Align', bad, n, 'ska align through main() on a 64-bit and a 128-bit file: every option reaches the filter it names; columns == table model (%d option sets)')


FAMS = None


def fams():
    """(samples, k, reference contigs, weed sequences): a 64-bit and a 128-bit family, so that both branches of every width dispatch run"""
    return [(SAMPLES, 5, ['ACCAGTTGACCAT', 'GGTACCA', 'ttgaccagtaac'], ['CAGTTGAC', 'GGTNACCA']),
            (LONG, 33, ['ACCAGTTGACCATGGTACCAGATTACAGGCATCCAAGTAC', 'acc'], ['CCAGTTGACCATGGTACCAGATTACAGGCATCCAAGT', 'ACCAGTTGACCATGGTACTAGATTACAGGCATCCAAGTNN'])]


def check_map(facts, chk, rule, tier, fmt='Aln'):
    bad = []
    n = 0
    for samples, k, ref, _w in fams():
        for ss in (0, 1):
            W, st = world_with_build(facts, samples, k, ss)
            W.seq['ref.fa'] = ('fasta', [('c%d' % i, s, None) for i, s in enumerate(ref)])
            for am, rm in ((0, 0), (1, 0), (0, 1)):
                n += 1
                cmd = W.command('Map', reference=S('ref.fa'), input=W.strings(['all.skf']), output=NONE, format=W.enum('cli::FileType', fmt),
                                ambig_mask=BV(1, am), repeat_mask=BV(1, rm), threads=BV(64, 1))
                st = W.run(cmd)
                rc = 0 if ss else 1
                if fmt == 'Aln':
                    want = e2e.spec_map(ref, samples, k, rc, am, rm)
                    if st != 0 or W.fasta != want:
                        bad.append(((k, ss, am, rm), 'status %s output %s, specified %s' % (st, W.fasta, want)))
                else:
                    want = vcf_e2e.spec_vcf(ref, samples, k, rc, am, rm)
                    got = [vcf_e2e.decode_record(facts, W.I, x) for x in W.vcf]
                    if st != 0 or got != want:
                        d = [(g, w) for g, w in zip(got, want) if g != w][:1]
                        bad.append(((k, ss, am, rm), 'status %s: %d records, %d specified; first difference %s' % (st, len(got), len(want), d)))
    _report(chk, rule, rule + ':map-' + fmt.lower(), 'main: Commands::Map', bad, n,
            'ska map -f ' + fmt.lower() + ' through main() on a 64-bit and a 128-bit file: k and strand mode of the file and the mask options reach RefSka::new; output == property model (%d runs)')


def check_merge_delete(facts, chk, rule, tier, what):
    bad = []
    n = 0
    for samples, k, _r, _w in fams():
        if what == 'merge':
            for ss in (0, 1):
                Wa, _ = world_with_build(facts, samples[:1], k, ss, out='a')
                Wb, _ = world_with_build(facts, samples[1:], k, ss, out='b')
                W = World(facts)
                W.skf.update(Wa.skf)
                W.skf.update(Wb.skf)
                n += 1
                st = W.run(W.command('Merge', skf_files=W.strings(['a.skf', 'b.skf']), output=S('m')))
                want = spec_table(samples, k, 0 if ss else 1)
                if st != 0 or 'm.skf' not in W.skf or W.table('m.skf')[:2] != (want[0], want[1]):
                    bad.append(((k, ss), 'status %s' % (st,)))
            Wa, _ = world_with_build(facts, samples[:1], k, 0, out='a')
            Wb, _ = world_with_build(facts, samples[1:], k, 1, out='b')
            W = World(facts)
            W.skf.update(Wa.skf)
            W.skf.update(Wb.skf)
            n += 1
            st = W.run(W.command('Merge', skf_files=W.strings(['a.skf', 'b.skf']), output=S('m')))
            if st == 0 or 'm.skf' in W.skf:
                bad.append(((k, 'strand mismatch'), 'accepted / wrote output (status %s)' % (st,)))
        else:
            for route in ('names', 'file'):
                for dels in ([samples[1][0]], [samples[2][0], samples[0][0]]):
                    W, _ = world_with_build(facts, samples, k)
                    W.text['del.txt'] = ''.join(d + '\n' for d in dels)
                    n += 1
                    cmd = W.command('Delete', skf_file=S('all.skf'), output=NONE, file_list=some(S('del.txt')) if route == 'file' else NONE,
                                    names=NONE if route == 'file' else some(W.strings(dels)))
                    st = W.run(cmd)
                    rest = [x for x in samples if x[0] not in dels]
                    want = spec_table(rest, k, 1)
                    if st != 0 or W.table('all.skf')[:2] != (want[0], want[1]):
                        bad.append(((k, route, dels), 'status %s table names %s' % (st, W.table('all.skf')[0])))
    if what == 'merge':
        # widths differ (k=5 file and k=33 file): refused, nothing written
        Wa, _ = world_with_build(facts, SAMPLES[:1], 5, 0, out='a')
        Wb, _ = world_with_build(facts, LONG[:1], 33, 0, out='b')
        for order in (['a.skf', 'b.skf'], ['b.skf', 'a.skf']):
            W = World(facts)
            W.skf.update(Wa.skf)
            W.skf.update(Wb.skf)
            n += 1
            st = W.run(W.command('Merge', skf_files=W.strings(order), output=S('m')))
            if st == 0 or 'm.skf' in W.skf:
                bad.append((('k 5 + k 33', order), 'accepted / wrote output (status %s)' % (st,)))
        _report(chk, rule, rule + ':merge', 'main: Commands::Merge', bad, n, 'ska merge through main() (64- and 128-bit files): == joint build; strand / k / width mismatch refused with nothing written (%d runs)')
    else:
        W, _ = world_with_build(facts, [('x.fa', ['ACCAGTTGAC']), ('x', ['ACCAGATGAC']), ('y', ['GGTACCA'])], 5, via_list=True)
        if 'all.skf' in W.skf:
            W.text['del.txt'] = 'x.fa\n'
            n += 1
            st = W.run(W.command('Delete', skf_file=S('all.skf'), output=NONE, file_list=some(S('del.txt')), names=NONE))
            if st != 0 or W.table('all.skf')[0] != ['x', 'y']:
                bad.append((('file', ['x.fa']), 'status %s names %s (the sample called x.fa must be the one deleted)' % (st, W.table('all.skf')[0])))
        _report(chk, rule, rule + ':delete', 'main: Commands::Delete', bad, n, 'ska delete through main() (64- and 128-bit files), names on the command line or in a names file, in place: == build of the remaining samples (%d runs)')


def check_weed(facts, chk, rule, tier):
    bad = []
    n = 0
    for samples, k, _r, weed in fams():
        for ss in (0, 1):
            for reverse in (0, 1):
                # the file to weed under its built name and under a name without the .skf suffix (weeding in place must rewrite that very file)
                for inname, outopt in (('all.skf', None), ('all.skf', 'w'), ('plain', None), ('plain', 'w.skf')):
                    W, _ = world_with_build(facts, samples, k, ss)
                    if inname != 'all.skf':
                        W.skf[inname] = W.skf.pop('all.skf')
                    W.seq['weed.fa'] = ('fasta', [('w%d' % i, s, None) for i, s in enumerate(weed)])
                    n += 1
                    cmd = W.command('Weed', skf_file=S(inname), weed_file=some(S('weed.fa')), output=some(S(outopt)) if outopt else NONE, reverse=BV(1, reverse),
                                    min_freq=0.0, filter_ambig_as_missing=BV(1, 0), filter=W.enum('cli::FilterType', 'NoFilter'), ambig_mask=BV(1, 0), no_gap_only_sites=BV(1, 0))
                    before = W.table(inname)
                    st = W.run(cmd)
                    rc = 0 if ss else 1
                    wk = set()
                    for sq in weed:
                        for (v, m, flag, pos) in skiter.spec(sq, k, rc):
                            wk.add(v)
                    want_rows = [(v, b) for v, b in before[1] if (v in wk) == bool(reverse)]
                    if outopt is None:
                        cand = [inname]                      # in place: the input file itself is rewritten
                    else:
                        cand = [p for p in W.skf if p in (outopt, outopt + '.skf')]
                    if st != 0 or not cand or W.table(cand[0])[:2] != (before[0], want_rows):
                        bad.append(((k, ss, reverse, inname, outopt), 'status %s; the weeded table is not in %s (files now: %s)' % (st, cand[0] if cand else 'the --output file', sorted(W.skf))))
                    elif outopt and W.table(inname) != before:
                        bad.append(((k, ss, reverse, inname, outopt), 'the input file was modified although --output was given'))
    # the filter options of ska weed, one at a time and in pairs, for the 64- and the 128-bit file: each reaches the parameter it names
    import math
    amb = [SAMPLES[0], (SAMPLES[1][0], SAMPLES[1][1] + ['ACCAGTTGACC', 'GGTACGA']), SAMPLES[2]]
    ambL = [LONG[0], (LONG[1][0], LONG[1][1] + [LONG[1][1][0][:18] + 'A' + LONG[1][1][0][19:]]), LONG[2]]
    for samples, k in ((amb, 5), (ambL, 33)):
        for ft, faam, mask, icg, mf in (('NoFilter', 0, 1, 0, 0.0), ('NoConst', 0, 0, 1, 0.0), ('NoConst', 0, 1, 0, 0.0), ('NoFilter', 1, 0, 0, 0.67), ('NoAmbigOrConst', 0, 0, 1, 0.34)):
            W, _ = world_with_build(facts, samples, k, 0)
            n += 1
            before = W.table('all.skf')
            st = W.run(W.command('Weed', skf_file=S('all.skf'), weed_file=NONE, output=some(S('f.skf')), reverse=BV(1, 0), min_freq=float(mf), filter_ambig_as_missing=BV(1, faam),
                                 filter=W.enum('cli::FilterType', ft), ambig_mask=BV(1, mask), no_gap_only_sites=BV(1, icg)))
            t = tableops.Table(before[0], [(v, ''.join(b) if not isinstance(b, str) else b) for v, b in before[1]])
            thr = int(math.floor(len(before[0]) * mf))
            want_t = tableops.spec_filter(t, thr, faam, ft, mask, icg)[0] if (thr > 0 or ft != 'NoFilter' or mask or icg) else t
            if st != 0 or 'f.skf' not in W.skf:
                bad.append(((k, ft, faam, mask, icg, mf), 'status %s' % (st,)))
                continue
            got = W.table('f.skf')
            grows = sorted((v, ''.join(b) if not isinstance(b, str) else b) for v, b in got[1])
            if got[0] != before[0] or grows != sorted(want_t.rows):
                bad.append(((k, ft, faam, mask, icg, mf), 'ska weed --filter %s%s%s%s --min-freq %s: saved rows differ from the documented effect; only saved %s, only specified %s' % (
                    ft, ' --filter-ambig-as-missing' if faam else '', ' --ambig-mask' if mask else '', ' --no-gap-only-sites' if icg else '', mf,
                    [r for r in grows if r not in want_t.rows][:3], [r for r in sorted(want_t.rows) if r not in grows][:3])))
    _report(chk, rule, rule + ':weed', 'main: Commands::Weed', bad, n, 'ska weed through main() (64- and 128-bit files): strand mode and k of the file reach the weed set; result written in place or to --output only (%d runs)')


def check_nk_distance(facts, chk, rule, tier, what):
    bad = []
    n = 0
    from .nk_e2e import arms
    for samples, k, _r, _w in fams():
        W, _ = world_with_build(facts, samples, k)
        names, rows = spec_table(samples, k, 1)
        if what == 'nk':
            n += 1
            st = W.run(W.command('Nk', skf_file=S('all.skf'), full_info=BV(1, 1)))
            txt = ''.join(getattr(W.I, 'stdout_text', []))
            want_lines = sorted('%s\t%s\t%s' % (arms(v, k) + (','.join(b),)) for v, b in rows)
            got_lines = sorted(l for l in txt.splitlines() if '\t' in l)
            hdr_ok = ('k-mers=%d' % len(rows)) in txt and ('sample_names=%s' % str(names).replace("'", '"')) in txt and ('k=%d\n' % k) in txt and ('k_bits=%d' % (64 if k <= 31 else 128)) in txt
            if st != 0 or got_lines != want_lines or not hdr_ok:
                bad.append(((k, 'nk --full-info'), 'status %s; header ok %s; lines only printed %s' % (st, hdr_ok, [l for l in got_lines if l not in want_lines][:3])))
        else:
            for mf, allow in ((0.0, 0), (0.67, 0), (0.0, 1)):
                n += 1
                st = W.run(W.command('Distance', skf_file=S('all.skf'), output=NONE, min_freq=float(mf), allow_ambiguous=BV(1, allow), threads=BV(64, 1)))
                txt = W.outfiles.get('<stdout>', '')
                got = {}
                for ln in txt.splitlines()[1:]:
                    a, b, d, m = ln.split('\t')
                    got[(a, b)] = (float(d), float(m))
                pairs = {(names[i], names[j]) for i in range(len(names)) for j in range(i + 1, len(names))}
                if st != 0 or set(got) != pairs:
                    bad.append(((k, mf, allow), 'status %s pairs %s' % (st, sorted(got))))
                    continue
                # default mode drops ambiguous sites: compare on the unambiguous rows after the documented filters
                import math
                if not allow:
                    t = tableops.Table(names, rows)
                    kept, _, _ = tableops.spec_filter(t, math.ceil(len(names) * mf), 1, 'NoAmbigOrConst', 1, 0)
                    full, _, _ = tableops.spec_filter(t, math.ceil(len(names) * mf), 0, 'NoFilter', 0, 0)
                    const = [b for _, b in full.rows if len(set(b)) == 1 and '-' not in b]
                    use = [b for _, b in kept.rows] + const
                    want = e2e.spec_distance(use, len(names), 0.0)
                    for (i, j), (sn, mm) in want.items():
                        g = got[(names[i], names[j])]
                        if abs(g[0] - sn) > 0.006 or abs(g[1] - mm) > 0.00001:
                            bad.append(((k, mf, allow), 'pair %s %s: printed %s, model %s' % (names[i], names[j], g, (round(sn, 2), round(mm, 5)))))
    if what == 'nk':
        _report(chk, rule, rule + ':nk', 'main: Commands::Nk', bad, n, 'ska nk --full-info through main() (64- and 128-bit files): printed summary and table == saved table (%d runs)')
    else:
        _report(chk, rule, rule + ':distance', 'main: Commands::Distance', bad, n, 'ska distance through main() (64- and 128-bit files): every pair once under its own names; min-freq / allow-ambiguous handed over (%d runs)')


def check_build_reads(facts, chk, rule, tier):
    """`ska build` of read pairs through main() (C12.cli): --min-count, --min-qual and --qual-filter as given on the command line reach
    the dictionary of every sample, for a 64-bit (k=5) and a 128-bit (k=33) build: a split k-mer is stored iff its counted
    observations (middle base, or under strict the whole window, at or above --min-qual; both files, both strands) reach --min-count"""
    bad = []
    n = 0
    x = 12345
    g = ''
    for _ in range(96):                      # a fixed pseudo-random genome (linear congruential generator)
        x = (x * 1103515245 + 12345) % (1 << 31)
        g += 'ACGT'[(x >> 16) & 3]
    comp = {'A': 'T', 'C': 'G', 'G': 'C', 'T': 'A', 'N': 'N'}
    rcs = lambda t: ''.join(comp[c] for c in reversed(t))
    r5 = ([g[:16], g[4:21], 'GNTTGACCACAGTT', g[8:22], g[1:15]], [rcs(g[2:19]), g[2:17], 'ACNACAGTTGAC', rcs(g[6:22])])
    r33 = ([g[:52], g[6:60], g[20:75], g[30:84], g[40:96]], [rcs(g[2:55]), rcs(g[10:66]), g[24:80], rcs(g[36:92]), g[4:50]])
    combos = [(1, 20, 'Strict'), (2, 30, 'Middle'), (1, 30, 'Strict'), (2, 20, 'NoFilter'), (1, 26, 'Middle')]
    if tier == 'thorough':
        combos += [(3, 20, 'Middle'), (1, 40, 'Strict'), (2, 26, 'Strict'), (1, 30, 'NoFilter')]
    for k, (ra, rb) in ((5, r5), (33, r33)):
        for mc, mq, qf in combos:
            for ss in (0, 1):
                W = World(facts)
                # qualities: one position per read just below the requested threshold, another just below 20, the rest high
                def qual(i, s):
                    q = [33 + 41] * len(s)
                    if i % 3 == 0:
                        q[len(s) // 2] = 33 + mq - 1          # central base just below the requested threshold
                    elif i % 3 == 1:
                        q[1] = 33 + mq - 1                    # near the ends: strict loses the outer windows only
                        q[len(s) - 2] = 33 + 19
                    elif mq > 21:
                        q[len(s) // 2 + 1] = 33 + 21          # passes the default threshold of 20, fails the requested one
                    return q
                samples = []
                lines = []
                for sname, shift in (('p0', 0), ('p1', 1)):
                    f1 = [('r%d' % i, s, qual(i + shift, s)) for i, s in enumerate(ra)]
                    f2 = [('m%d' % i, s, qual(i + 1 + shift, s)) for i, s in enumerate(rb)]
                    W.seq[sname + '_1.fq'] = ('fastq', f1)
                    W.seq[sname + '_2.fq'] = ('fastq', f2)
                    lines.append('%s\t%s_1.fq\t%s_2.fq\n' % (sname, sname, sname))
                    samples.append((sname, [(s, q) for _, s, q in f1 + f2]))
                W.text['list.txt'] = ''.join(lines)
                n += 1
                mcv = some(Agg('adt:cli::ValidMinKmer', facts.variant_index('cli::ValidMinKmer', 'Val'), [BV(16, mc)]))
                st = W.run(W.command('Build', seq_files=NONE, file_list=some(S('list.txt')), output=S('reads'), k=BV(64, k), proportion_reads=NONE, single_strand=BV(1, ss),
                                     min_count=mcv, min_qual=BV(8, mq), qual_filter=_qualfilter(facts, qf), threads=BV(64, 1)))
                rc = 0 if ss else 1
                dicts = [skiter.spec_dict(recs, k, rc, min_count=mc, qual_filter=qf, min_qual=mq) for _, recs in samples]
                keys = set()
                for d in dicts:
                    keys |= set(d)
                want_rows = sorted((v, ''.join(d.get(v, '-') for d in dicts)) for v in keys)
                if not all(dicts):
                    continue        # nothing passes for a sample: the build refuses it (not this rule's subject)
                if st != 0 or 'reads.skf' not in W.skf:
                    bad.append(((k, mc, mq, qf, ss), 'status %s' % (st,)))
                    continue
                names, rows, w = W.table('reads.skf')
                if names != ['p0', 'p1'] or rows != want_rows:
                    bad.append(((k, mc, mq, qf, ss), '--min-count %d --min-qual %d --qual-filter %s: %d split k-mers saved, %d specified; only saved %s, only specified %s' %
                                (mc, mq, qf, len(rows), len(want_rows), [r for r in rows if r not in want_rows][:3], [r for r in want_rows if r not in rows][:3])))
    _report(chk, rule, rule + ':build-reads', 'main: Commands::Build (read pairs)', bad, n,
            'ska build of read pairs through main() with k=5 (64-bit) and k=33 (128-bit): the given --min-count / --min-qual / --qual-filter decide which split k-mers are stored (%d runs)')
