"""C07 - merging .skf files equals building all their samples together.

Decided clauses:
  C07.guard   in extend / merge / append the k and strand comparisons each branch to a diverging block and
              dominate every write to self; in generic_modes::merge every extend precedes save_skf (a refused
              merge writes nothing)
  C07.rows    MergeSkaDict::extend, abstractly interpreted for all three classes of k-mers (only in self, in both,
              only in other) and sample counts (n_self, n_other) in 1..3 with opaque cell symbols:
              rows = [self cells | zeros(n_self)] ++ [other cells | zeros(n_other)], names = self ++ other,
              n_samples = n_self + n_other
  C07.missing = C03.gap (to_dict produces '-' which MergeSkaArray::new must count as missing)
Not decided: equality with a joint build for all partitions (follows from the clauses + C01 + HashMap semantics).
"""
import itertools

from ..facts import AnchorLost
from ..expr import ExprBuilder, show, subexprs
from ..cond import edge_conds, eval_formula, eval_expr, Unevaluable
from ..absint.interp import Interp, Panic, MapV
from ..absint.values import BV, Agg, RefV, Cell, Opaque
from .util import reachable_without, can_return_from
from . import c03

EXPLANATION = ('Dominance of compatibility guards over all writes; abstract interpretation of the row concatenation with opaque '
               'cell symbols over the exhaustive k-mer classes and small sample counts.')
ASSUMPTIONS = ['hashbrown entry/and_modify/or_insert_with semantics (modelled)', 'sample counts 1..3 on each side stand for all counts (the code is size-generic)']
MSD = 'merge_ska_dict::MergeSkaDict'


def run(facts, chk, tier, only=None):
    from . import cli_e2e
    # the subcommand through ska::main() itself (argument parser replaced by a constructed Args value): hand-over of CLI values, width dispatch
    chk.guard('C07.cli', 'C07.cli:run0', lambda: cli_e2e.check_merge_delete(facts, chk, 'C07.cli', tier, 'merge'))
    from . import e2e2
    chk.guard('C07.e2e', 'C07.e2e:run', lambda: e2e2.check_merge_e2e(facts, chk, 'C07.e2e', tier))
    def bridge():
        from ..facts import _strip_generics
        out = []
        for b in facts.bodies.values():
            if b.kind == 'Promoted':
                continue
            for bb, t in b.calls():
                if (t.callee.name or '').endswith('par_bridge'):
                    own = _strip_generics(b.parent) if b.kind == 'Closure' else b.name
                    if not own.startswith('skalo::'):
                        out.append((own, t.span))
        return out
    r = chk.guard('C07.order', 'C07.order:par_bridge', bridge)
    if r is not None:
        if r:
            chk.violation('C07.order', 'C07.order:par_bridge', where=r[0][1], detail='inputs are traversed through an unordered parallel bridge (par_bridge) in %s: samples need not come out in argument order (the sequential model of rayon used by the functional rules cannot see this)' % r[0][0])
        else:
            chk.ok('C07.order', 'C07.order:par_bridge', 'crate', 'no unordered parallel bridge outside skalo', nontrivial=False)
    chk.guard('C07.e2e', 'C07.e2e:run-empty', lambda: e2e2.check_merge_empty(facts, chk, 'C07.e2e', tier))
    kf = facts.field_index(MSD, 'k')
    rf = facts.field_index(MSD, 'rc')

    def guards(fn):
        b = facts.fn(fn)
        eb = ExprBuilder(b)
        res = {}
        for blk in b.blocks:
            if blk.idx not in b.live_blocks() or blk.term.k != 'switch':
                continue
            e = eb.operand(blk.term.discr)
            if e[0] != 'bin' or e[1] not in ('Ne', 'Eq'):
                continue
            s = show(e)
            which = None
            flds = [x for x in subexprs(e) if x[0] == 'field']
            calls = [x[1].split('::')[-1] for x in subexprs(e) if x[0] == 'call']
            if (any(x[2] == kf for x in flds) or 'kmer_len' in calls) and ('self' in s) and ('other' in s):
                if all(x[2] == kf for x in flds) and all(c in ('kmer_len',) for c in calls):
                    which = 'k'
            if which is None and (any(x[2] == rf for x in flds) or 'rc' in calls) and 'self' in s and 'other' in s:
                if all(x[2] == rf for x in flds) and all(c in ('rc',) for c in calls):
                    which = 'rc'
            if which is None:
                continue
            t = blk.term
            ne_edge = t.otherwise if e[1] == 'Ne' else next(tg for v, tg in t.targets if v == 0)
            eq_edge = next(tg for v, tg in t.targets if v == 0) if e[1] == 'Ne' else t.otherwise
            res[which] = (blk.idx, ne_edge, eq_edge, t.span)
        # writes to self: assignments through (*_1) and calls receiving &mut (*_1).x / &mut *_1
        writes = []
        for blk in b.blocks:
            if blk.idx not in b.live_blocks():
                continue
            for s in blk.stmts:
                if s.k == 'assign' and s.place.local == 1 and s.place.proj:
                    writes.append(blk.idx)
                if s.k == 'assign' and s.rv.k == 'ref' and s.rv.j['bk'] == 'mut' and s.rv.place.local == 1:
                    writes.append(blk.idx)
        out = []
        if not res:
            # the comparisons may live in a helper called before any write: analyse it with the actual arguments
            hres = helper_guards(b, eb, writes)
            if hres is not None:
                return hres
        for which in ('k', 'rc'):
            if which not in res:
                out.append((which, False, 'comparison of %s not found' % which))
                continue
            g, ne, eq, sp = res[which]
            div = not can_return_from(b, ne)
            dom = all(b.dominates(g, w) and w not in reachable_without(b, ne) for w in writes)
            out.append((which, div and dom and bool(writes), 'mismatch edge diverges=%s; dominates all %d writes to self=%s' % (div, len(writes), dom)))
        return out
    def helper_guards(b, eb, writes):
        """compatibility checks factored into a crate helper `h(&self, x, y)`: inside h each parameter compared with a
        self field must diverge on mismatch; at the call site the actual for that parameter must be the *other*
        dictionary's value of the same field"""
        cands = [(bb, t) for bb, t in b.calls() if t.callee.krate == 'ska' and facts.has_fn(t.callee.name or '') and
                 all(b.dominates(bb, w) for w in writes) and t.args and show(eb.operand(t.args[0])).lstrip('&*') == 'self']
        for bb, t in cands:
            h = facts.fn(t.callee.name)
            ebh = ExprBuilder(h)
            found = {}
            for blk in h.blocks:
                if blk.idx not in h.live_blocks() or blk.term.k != 'switch':
                    continue
                e = ebh.operand(blk.term.discr)
                if e[0] != 'bin' or e[1] not in ('Ne', 'Eq'):
                    continue
                flds = [x for x in subexprs(e) if x[0] == 'field' and x[1] == ('deref', ('arg', 1, 'self'))]
                args = [x for x in subexprs(e) if x[0] == 'arg' and x[1] >= 2]
                if len(flds) != 1 or len(args) != 1:
                    continue
                which = 'k' if flds[0][2] == kf else ('rc' if flds[0][2] == rf else None)
                if which is None:
                    continue
                tt = blk.term
                ne_edge = tt.otherwise if e[1] == 'Ne' else next(tg for v, tg in tt.targets if v == 0)
                found[which] = (args[0][1], not can_return_from(h, ne_edge))
            if not found:
                continue
            out = []
            for which, fld in (('k', kf), ('rc', rf)):
                if which not in found:
                    out.append((which, False, 'helper %s does not compare %s' % (h.name, which)))
                    continue
                pi, div = found[which]
                actual = eb.operand(t.args[pi - 1])
                sa = show(actual)
                from_other = 'other' in sa and 'self' not in sa
                right_field = any(x[0] == 'field' and x[2] == fld for x in subexprs(actual)) or \
                    any(x[0] == 'call' and x[1].split('::')[-1] == ('kmer_len' if which == 'k' else 'rc') for x in subexprs(actual))
                out.append((which, div and from_other and right_field,
                            'helper %s(%s): diverges on mismatch=%s; actual argument is the other dictionary\'s %s=%s (%s)' % (h.name.split('::')[-1], which, div, which, from_other and right_field, sa)))
            return out
        return None

    for fn in ('extend', 'merge', 'append'):
        r = chk.guard('C07.guard', 'C07.guard:%s' % fn, lambda fn=fn: guards(MSD + '::' + fn))
        if r is None:
            continue
        for which, ok, why in r:
            key = 'C07.guard:%s:%s' % (fn, which)
            if ok:
                chk.ok('C07.guard', key, MSD + '::' + fn, why)
            else:
                chk.violation('C07.guard', key, where=MSD + '::' + fn, detail='%s check in %s: %s' % (which, fn, why))

    def order():
        g = facts.fn('generic_modes::merge')
        ex = [bb for bb, t in g.calls() if (t.callee.name or '') == MSD + '::extend']
        sv = [(bb, t) for bb, t in g.calls() if (t.callee.name or '') == 'generic_modes::save_skf']
        if not ex or len(sv) != 1:
            raise AnchorLost('generic_modes::merge: %d extend, %d save_skf' % (len(ex), len(sv)))
        after = reachable_without(g, sv[0][1].target) if sv[0][1].target is not None else set()
        return not any(e in after for e in ex) and not g.in_cycle(sv[0][0]), sv[0][1].span
    r = chk.guard_soft('C07.guard', 'C07.guard:merge:order', order, twins=['C07.e2e:merge'])
    if r is not None:
        ok, sp = r
        if ok:
            chk.ok('C07.guard', 'C07.guard:merge:order', sp, 'every extend precedes the single save_skf (a refused merge creates no file)')
        else:
            chk.violation('C07.guard', 'C07.guard:merge:order', where=sp, detail='save_skf can run before / between extend calls')

    # ---------------------------------------------------------------- rows
    def rows():
        names = [f['name'] for f in facts.adt(MSD)['variants'][0]['fields']]
        if names != ['k', 'rc', 'n_samples', 'names', 'split_kmers']:
            raise AnchorLost('MergeSkaDict fields are %s' % names)
        bad = []
        n = 0
        sizes = (1, 2, 3, 4, 5) if tier == 'thorough' else (1, 2, 3)
        for ns, no in itertools.product(sizes, repeat=2):
            I = Interp(facts, {'IntT': 'u64'})

            def mk(tag, nn, keys):
                m = MapV()
                for kname in keys:
                    kv = BV(64, {'kA': 1, 'kB': 2, 'kC': 3}[kname])
                    m.d[('bv', 64, kv.val)] = (kv, Cell(Agg('array', 0, [Opaque('%s:%s:%d' % (tag, kname, i)) for i in range(nn)]), 'row'))
                nm = Agg('array', 0, [Opaque('%s:name:%d' % (tag, i)) for i in range(nn)])
                return Cell(Agg('adt:' + MSD, 0, [BV(64, 31), BV(1, 1), BV(64, nn), nm, m]), tag), m
            sc, sm = mk('self', ns, ['kA', 'kB'])
            oc, om = mk('other', no, ['kB', 'kC'])
            try:
                I.call_fn(MSD + '::extend', [RefV(sc), RefV(oc)])
            except Panic as p:
                bad.append(((ns, no), 'panic: %s' % p))
                continue
            got = {k[2]: c.v.fields for k, (kv, c) in sm.d.items()}
            Z = BV(8, 0)
            want = {1: [Opaque('self:kA:%d' % i) for i in range(ns)] + [Z] * no,
                    2: [Opaque('self:kB:%d' % i) for i in range(ns)] + [Opaque('other:kB:%d' % i) for i in range(no)],
                    3: [Z] * ns + [Opaque('other:kC:%d' % i) for i in range(no)]}
            n += 3
            for k in want:
                if got.get(k) != want[k]:
                    bad.append(((ns, no, 'k-mer class %s' % {1: 'self only', 2: 'both', 3: 'other only'}[k]), 'row %r, expected %r' % (got.get(k), want[k])))
            st = sc.v.fields
            wn = [Opaque('self:name:%d' % i) for i in range(ns)] + [Opaque('other:name:%d' % i) for i in range(no)]
            n += 2
            if st[3].fields != wn:
                bad.append(((ns, no, 'names'), 'names %r, expected %r' % (st[3].fields, wn)))
            if st[2] != BV(64, ns + no):
                bad.append(((ns, no, 'n_samples'), 'n_samples %r, expected %d' % (st[2], ns + no)))
        return n, bad
    r = chk.guard('C07.rows', 'C07.rows:extend', rows)
    if r is not None:
        n, bad = r
        if bad:
            chk.violation('C07.rows', 'C07.rows:extend', where=MSD + '::extend', evals=n, detail='%s: %s' % bad[0])
        else:
            chk.ok('C07.rows', 'C07.rows:extend', MSD + '::extend',
                   'rows = [self | zeros] ++ [other | zeros] for the 3 k-mer classes, names = self ++ other, n_samples = n_s + n_o; (n_s, n_o) in 1..%d' % (5 if tier == 'thorough' else 3), evals=n,
                   sample=dict(classes=['self only', 'both', 'other only'], sizes='1..3 x 1..3'))

    # to_dict: rows keep their cells, names cloned in order, built with (k, n_samples, rc)
    def todict():
        td = facts.fn('merge_ska_array::MergeSkaArray::to_dict')
        eb = ExprBuilder(td)
        nw = [(bb, t) for bb, t in td.calls() if (t.callee.name or '') == MSD + '::new']
        if len(nw) != 1:
            raise AnchorLost('to_dict: %d MergeSkaDict::new calls' % len(nw))
        a = [show(eb.operand(x)) for x in nw[0][1].args]
        MSA = 'merge_ska_array::MergeSkaArray'
        ki, ri, ni = facts.field_index(MSA, 'k'), facts.field_index(MSA, 'rc'), facts.field_index(MSA, 'names')
        ok = ('.%d' % ki) in a[0] and ('.%d' % ri) in a[2] and 'len(' in a[1] and ('.%d' % ni) in a[1]
        bf = [(bb, t) for bb, t in td.calls() if (t.callee.name or '') == MSD + '::build_from_array']
        return ok and len(bf) == 1, 'MergeSkaDict::new(%s)' % ', '.join(a)
    r = chk.guard('C07.rows', 'C07.rows:to_dict', todict)
    if r is not None:
        ok, why = r
        if ok:
            chk.ok('C07.rows', 'C07.rows:to_dict', 'merge_ska_array::MergeSkaArray::to_dict', why)
        else:
            chk.violation('C07.rows', 'C07.rows:to_dict', where='merge_ska_array::MergeSkaArray::to_dict', detail='to_dict builds the dictionary with %s' % why)

    # an input that cannot be loaded (other integer width = other k range, damaged) must stop the merge, not be skipped
    from . import c19
    chk.guard('C07.guard', 'C07.guard:callers:run', lambda: c19.check_callers(facts, chk, 'C07.guard:load'))
    from . import tableops
    chk.guard('C07.func', 'C07.func:pipeline', lambda: tableops.check_merge_pipeline(facts, chk, 'C07.func', tier))
    chk.guard('C07.missing', 'C07.missing:run', lambda: c03.check_gap(facts, chk, 'C07.missing'))
