"""C03 - reference-free alignment recovers exactly the true SNP columns.

The recovery statement quantifies over genomes (sequence content, uniqueness of k-mers) and is NOT
decided by static analysis.  Claimed only for three structural necessary conditions of its mechanisms:
  C03.column  a sample's base and name land in that sample's column (append: names[i], vec[i] with i = other.idx())
  C03.gap     MergeSkaArray::new turns 0 into '-' and fixes every other stored byte; the count predicate treats
              both encodings of "missing" (0 from build, '-' from to_dict) as missing
  C03.fasta   write_fasta zips names with the rows of the transpose of `variants`, in field order
"""
from ..facts import AnchorLost
from ..expr import ExprBuilder, show, subexprs
from ..absint.interp import Interp
from ..absint.values import BV, Agg, RefV, Cell

EXPLANATION = ('Structural necessary conditions only (column provenance, missing-value normalisation table, transpose on the '
               'way to the writer); the end-to-end recovery claim over genomes is not decidable here.')
ASSUMPTIONS = ['exact matching of split k-mers is C01/C16; filters are C06']
MSA = 'merge_ska_array::MergeSkaArray'
MSD = 'merge_ska_dict::MergeSkaDict'


def check_column(facts, chk, rule='C03.column'):
    def go():
        ap = facts.fn(MSD + '::append')
        eb = ExprBuilder(ap)
        names_idx = facts.field_index(MSD, 'names')
        res = []
        # names[other.idx()] = other.name().clone()
        nm = [(bb, t) for bb, t in ap.calls() if (t.callee.name or '').endswith('index_mut') and
              any(x[0] == 'field' and x[2] == names_idx for x in subexprs(eb.operand(t.args[0])))]
        ok_n = len(nm) == 1 and eb.operand(nm[0][1].args[1])[0] == 'call' and eb.operand(nm[0][1].args[1])[1].endswith('SkaDict::idx')
        res.append(('name-index', ok_n, 'names[%s]' % (show(eb.operand(nm[0][1].args[1])) if nm else '?')))
        # base vectors: every index_mut on a base vector uses other.idx()
        sites = []
        for b in [ap] + facts.closures_of(MSD + '::append'):
            ebb = ExprBuilder(b)
            for bb, t in b.calls():
                if (t.callee.name or '').endswith('index_mut') and 'Vec<u8>' in (t.callee.full or ''):
                    sites.append((b.name, show(ebb.operand(t.args[1])), t.span))
        ok_b = len(sites) == 3 and all(s[1] in ('idx(&*other)', 'idx(&*upvar:*other)', 'idx(&*upvar:other)', 'idx(other)') for s in sites)
        res.append(('base-index', ok_b, '%d base-vector writes, all at other.idx(): %s' % (len(sites), [s[1] for s in sites])))
        # vectors are created with n_samples zeros
        fe = []
        ns_idx = facts.field_index(MSD, 'n_samples')
        for b in [ap] + facts.closures_of(MSD + '::append'):
            ebb = ExprBuilder(b)
            for bb, t in b.calls():
                if (t.callee.name or '') == 'std::vec::from_elem':
                    fe.append((ebb.operand(t.args[0]), ebb.operand(t.args[1])))
        ok_z = len(fe) == 2 and all(a == ('const', 0, 'u8') and ('n_samples' in show(n) or any(x[0] == 'field' and x[2] == ns_idx for x in subexprs(n))) for a, n in fe)
        res.append(('zero-rows', ok_z, 'new rows are vec![0; n_samples] (%d sites)' % len(fe)))
        return res
    r = chk.guard(rule, rule + ':append', go)
    if r is not None:
        for nm, ok, why in r:
            if ok:
                chk.ok(rule, '%s:append:%s' % (rule, nm), MSD + '::append', why)
            else:
                chk.violation(rule, '%s:append:%s' % (rule, nm), where=MSD + '::append', detail='violated: ' + why)


def check_gap(facts, chk, rule='C03.gap'):
    def go():
        new = facts.fn(MSA + '::new')
        eb = ExprBuilder(new)
        cl = facts.closures_of(MSA + '::new')
        I = Interp(facts, {'IntT': 'u64'})
        res = {}
        for c in cl:
            calls = [t.callee.name or '' for _, t in c.calls()]
            nargs = c.arg_count
            ret = c.local_ty(0)
            if ret == 'u8':
                bad = []
                for x in range(256):
                    env = Agg('closure:' + c.path, 0, [])
                    envv = RefV(Cell(env, 'env')) if c.local_ty(1).startswith('&') else env
                    r = I.exec_body(c, [envv, BV(8, x)])
                    want = 45 if x < 45 else x
                    if r.val != want:
                        bad.append((x, r.val, want))
                # all stored symbols (IUPAC letters, '-') are fixed and 0 -> '-'
                stored_ok = all(I.exec_body(c, [RefV(Cell(Agg('closure:' + c.path, 0, []), 'env')) if c.local_ty(1).startswith('&') else Agg('closure:' + c.path, 0, []), BV(8, x)]).val == (45 if x == 0 else x)
                                for x in [0, 45] + [ord(ch) for ch in 'ACGTRYSWKMBDHVN'])
                res['map'] = (stored_ok, bad[:3])
            elif ret == 'bool':
                bad = []
                for x in range(256):
                    env = Agg('closure:' + c.path, 0, [])
                    envv = RefV(Cell(env, 'env')) if c.local_ty(1).startswith('&') else env
                    xc = Cell(BV(8, x), 'b')
                    r = I.exec_body(c, [envv, RefV(Cell(RefV(xc), 'bb'))])
                    want = 0 if x in (0, 45) else 1
                    if r.val != want:
                        bad.append((x, r.val, want))
                res['count'] = (not bad, bad[:3])
        mv = [(bb, t) for bb, t in new.calls() if 'mapv_inplace' in (t.callee.name or '')]
        return res, len(mv)
    r = chk.guard(rule, rule + ':MergeSkaArray::new', go)
    if r is not None:
        res, nmv = r
        if 'map' in res and res['map'][0] and nmv == 1:
            chk.ok(rule, rule + ':new:normalise', MSA + '::new', "0 -> '-'; '-' and every IUPAC letter fixed (mapv_inplace closure over the stored alphabet)", evals=17)
        else:
            chk.violation(rule, rule + ':new:normalise', where=MSA + '::new', detail='missing-value normalisation closure: %s (mapv_inplace calls: %d)' % (res.get('map'), nmv))
        if 'count' in res and res['count'][0]:
            chk.ok(rule, rule + ':new:count', MSA + '::new', "a base counts as present iff it is neither 0 nor '-' (256 cells)", evals=256)
        else:
            chk.violation(rule, rule + ':new:count', where=MSA + '::new', detail='count predicate differs from b not in {0, \'-\'}: %s' % (res.get('count'),))


def check_fasta(facts, chk, rule='C03.fasta'):
    """write_fasta interpreted on small tables: record i = (names[i], column i).  (Was a shape rule on zip/outer_iter/t().)"""
    from . import tableops
    tableops.check_write_fasta(facts, chk, rule)


def run(facts, chk, tier, only=None):
    from . import buildops
    # the parallel build, functionally: sample i owns name i and column i for every recursion depth
    chk.guard('C03.func', 'C03.func:parallel_append', lambda: buildops.check_parallel_append(facts, chk, 'C03.func', tier))
    # samples may also reach `ska align` through `ska merge`: names and columns must stay paired through to_dict / extend / new
    from . import tableops
    chk.guard('C03.func', 'C03.func:pipeline', lambda: tableops.check_merge_pipeline(facts, chk, 'C03.func', tier))
    from . import e2e
    chk.guard('C03.e2e', 'C03.e2e:run', lambda: e2e.check_align_e2e(facts, chk, 'C03.e2e', tier))
    chk.guard('C03.column', 'C03.column:run', lambda: check_column(facts, chk))
    chk.guard('C03.gap', 'C03.gap:run', lambda: check_gap(facts, chk))
    chk.guard('C03.fasta', 'C03.fasta:run', lambda: check_fasta(facts, chk))
    # every sample is built with the shared SplitKmer iterator: windows at record ends / short contigs (C01.guard)
    from . import c01
    chk.guard('C03.window', 'C03.window:run', lambda: c01.check_guards(facts, chk, 'C03.window'))
