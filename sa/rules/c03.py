"""C03 - reference-free alignment recovers exactly the true SNP columns.

Decided by interpretation on bounded families (C03.cli / C03.e2e: ska align end to end; C03.func: which column and name
each sample owns through the parallel build and through merge) plus table rules for its mechanisms:
  C03.gap     MergeSkaArray::new turns 0 into '-' and fixes every other stored byte; the count predicate treats
              both encodings of "missing" (0 from build, '-' from to_dict) as missing
  C03.fasta   write_fasta zips names with the rows of the transpose of `variants`, in field order
"""
from ..facts import AnchorLost
from ..expr import ExprBuilder, show, subexprs
from ..absint.interp import Interp
from ..absint.values import BV, Agg, RefV, Cell

EXPLANATION = ('Structural necessary conditions only (column provenance, missing-value normalisation table, transpose on the '
               'way to the writer); the end-to-end recovery claim over genomes is not decidable here.')
ASSUMPTIONS = ['exact matching of split k-mers is C01/C16; filters are C06']
MSA = 'merge_ska_array::MergeSkaArray'
MSD = 'merge_ska_dict::MergeSkaDict'


def check_gap(facts, chk, rule='C03.gap'):
    def go():
        new = facts.fn(MSA + '::new')
        eb = ExprBuilder(new)
        cl = facts.closures_of(MSA + '::new')
        I = Interp(facts, {'IntT': 'u64'})
        res = {}
        for c in cl:
            calls = [t.callee.name or '' for _, t in c.calls()]
            nargs = c.arg_count
            ret = c.local_ty(0)
            if ret == 'u8':
                bad = []
                for x in range(256):
                    env = Agg('closure:' + c.path, 0, [])
                    envv = RefV(Cell(env, 'env')) if c.local_ty(1).startswith('&') else env
                    r = I.exec_body(c, [envv, BV(8, x)])
                    want = 45 if x < 45 else x
                    if r.val != want:
                        bad.append((x, r.val, want))
                # all stored symbols (IUPAC letters, '-') are fixed and 0 -> '-'
                stored_ok = all(I.exec_body(c, [RefV(Cell(Agg('closure:' + c.path, 0, []), 'env')) if c.local_ty(1).startswith('&') else Agg('closure:' + c.path, 0, []), BV(8, x)]).val == (45 if x == 0 else x)
                                for x in [0, 45] + [ord(ch) for ch in 'ACGTRYSWKMBDHVN'])
                res['map'] = (stored_ok, bad[:3])
            elif ret == 'bool':
                bad = []
                for x in range(256):
                    env = Agg('closure:' + c.path, 0, [])
                    envv = RefV(Cell(env, 'env')) if c.local_ty(1).startswith('&') else env
                    xc = Cell(BV(8, x), 'b')
                    r = I.exec_body(c, [envv, RefV(Cell(RefV(xc), 'bb'))])
                    want = 0 if x in (0, 45) else 1
                    if r.val != want:
                        bad.append((x, r.val, want))
                res['count'] = (not bad, bad[:3])
        mv = [(bb, t) for bb, t in new.calls() if 'mapv_inplace' in (t.callee.name or '')]
        return res, len(mv)
    r = chk.guard(rule, rule + ':MergeSkaArray::new', go)
    if r is not None:
        res, nmv = r
        if 'map' in res and res['map'][0] and nmv == 1:
            chk.ok(rule, rule + ':new:normalise', MSA + '::new', "0 -> '-'; '-' and every IUPAC letter fixed (mapv_inplace closure over the stored alphabet)", evals=17)
        else:
            chk.violation(rule, rule + ':new:normalise', where=MSA + '::new', detail='missing-value normalisation closure: %s (mapv_inplace calls: %d)' % (res.get('map'), nmv))
        if 'count' in res and res['count'][0]:
            chk.ok(rule, rule + ':new:count', MSA + '::new', "a base counts as present iff it is neither 0 nor '-' (256 cells)", evals=256)
        else:
            chk.violation(rule, rule + ':new:count', where=MSA + '::new', detail='count predicate differs from b not in {0, \'-\'}: %s' % (res.get('count'),))


def check_fasta(facts, chk, rule='C03.fasta'):
    """write_fasta interpreted on small tables: record i = (names[i], column i).  (Was a shape rule on zip/outer_iter/t().)"""
    from . import tableops
    tableops.check_write_fasta(facts, chk, rule)


def run(facts, chk, tier, only=None):
    from . import cli_e2e
    # the subcommand through ska::main() itself (argument parser replaced by a constructed Args value): hand-over of CLI values, width dispatch
    chk.guard('C03.cli', 'C03.cli:run0', lambda: cli_e2e.check_align(facts, chk, 'C03.cli', tier))
    from . import cli_more
    # .. and given sequence files instead of an .skf (built on the fly with the documented defaults)
    chk.guard('C03.cli', 'C03.cli:run1', lambda: cli_more.check_seq_inputs(facts, chk, 'C03.cli', tier, 'align'))
    from . import buildops
    # the parallel build, functionally: sample i owns name i and column i for every recursion depth
    chk.guard('C03.func', 'C03.func:parallel_append', lambda: buildops.check_parallel_append(facts, chk, 'C03.func', tier))
    # samples may also reach `ska align` through `ska merge`: names and columns must stay paired through to_dict / extend / new
    from . import tableops
    chk.guard('C03.func', 'C03.func:pipeline', lambda: tableops.check_merge_pipeline(facts, chk, 'C03.func', tier))
    from . import e2e
    chk.guard('C03.e2e', 'C03.e2e:run', lambda: e2e.check_align_e2e(facts, chk, 'C03.e2e', tier))
    chk.guard('C03.gap', 'C03.gap:run', lambda: check_gap(facts, chk))
    chk.guard('C03.fasta', 'C03.fasta:run', lambda: check_fasta(facts, chk))
    # every sample is built with the shared SplitKmer iterator: windows at record ends / short contigs (C01.guard)
    from . import c01
    chk.guard('C03.window', 'C03.window:run', lambda: c01.check_guards(facts, chk, 'C03.window'))
