"""C10 - results depend only on the logical content of an .skf, not on its history.

Decided (structural necessary conditions): derived / metadata state that is serialised with the
table is never trusted across operations.
  C10.recount  every decision that reads `variant_count` is dominated, inside the same call, by a
               recount in the counting mode that decision needs (typestate: load -> unknown mode)
  C10.readers  who-may-read table for the three non-content fields (variant_count, ska_version, k_bits)
  C10.struct   a structural change of the column set is followed by a recount before return
  C10.fields   (informational) the serialised field set, classified
Not decided: equality with the plain-table model over all operation histories.
"""
from ..facts import AnchorLost
from ..expr import ExprBuilder, show
from .util import calls_named, reachable_without, field_writes

EXPLANATION = ('Typestate/dominance rule for the serialised derived field variant_count (count mode unknown after load), '
               'who-may-read tables for non-content fields, recount-after-restructure.')
ASSUMPTIONS = ['operations are functions of (k, rc, names, k-mers, bases) apart from the fields audited here']
MSA = 'merge_ska_array::MergeSkaArray'
CONTENT = {'k': 'content', 'rc': 'content', 'names': 'content', 'split_kmers': 'content', 'variants': 'content',
           'variant_count': 'derived', 'ska_version': 'metadata', 'k_bits': 'metadata'}


def msa_field_accesses(facts, fidx):
    """[(body, bb, stmt|term, kind)] for every place mentioning field fidx of a MergeSkaArray value"""
    out = []
    for b in facts.bodies.values():
        if b.kind == 'Promoted':
            continue
        for blk in b.blocks:
            if blk.idx not in b.live_blocks():
                continue
            items = [(s, [s.place] + ([s.rv.place] if s.rv is not None and s.rv.place is not None else []) +
                      ([o.place for o in s.rv.ops if o.place is not None] if s.rv is not None else []), s)
                     for s in blk.stmts if s.k == 'assign']
            t = blk.term
            tp = []
            if t.k == 'call':
                tp = [a.place for a in t.args if a.place is not None] + [t.dest]
            elif t.k == 'drop':
                tp = [t.place]
            elif t.k == 'switch' and t.discr.place is not None:
                tp = [t.discr.place]
            items.append((t, tp, t))
            for node, places, _ in items:
                for i, pl in enumerate(places):
                    if pl is None:
                        continue
                    ty = b.local_ty(pl.local)
                    if 'MergeSkaArray<' not in ty:
                        continue
                    pr = [p for p in pl.proj if p['k'] != 'deref']
                    if pr and pr[0]['k'] == 'field' and pr[0]['i'] == fidx:
                        is_write = (node.k == 'assign' and i == 0) or node.k == 'drop'
                        out.append((b, blk.idx, node, 'write' if is_write else 'read'))
    return out


def run(facts, chk, tier, only=None):
    adt = facts.adt(MSA)
    fields = [f['name'] for f in adt['variants'][0]['fields']]
    unknown = [f for f in fields if f not in CONTENT]
    if unknown:
        chk.violation('C10.fields', 'C10.fields:new-field', where=MSA,
                      detail='MergeSkaArray has serialised field(s) %s that are not classified content/derived/metadata; '
                             'a new derived field carried across operations must be audited' % unknown, kind='anchor-lost')
    else:
        chk.ok('C10.fields', 'C10.fields:classified', MSA, ', '.join('%s=%s' % (f, CONTENT[f]) for f in fields), nontrivial=False,
               sample=dict(fields={f: CONTENT[f] for f in fields}))
    vc = facts.field_index(MSA, 'variant_count')

    # ---------------------------------------------------------------- readers table
    allowed = {
        'variant_count': {MSA + '::update_counts': 'capacity hint only (len)', MSA + '::weed': 'row-aligned copy (C06.rows)',
                          MSA + '::filter': 'decision; must be recounted first (C10.recount)'},
        'ska_version': {'<' + MSA + '<IntT> as std::fmt::Display>::fmt': 'printed by nk'},
        'k_bits': {'<' + MSA + '<IntT> as std::fmt::Display>::fmt': 'printed by nk', MSA + '::load': 'width check (C09.width)'},
    }
    for fname, table in allowed.items():
        fi = facts.field_index(MSA, fname)
        acc = [a for a in msa_field_accesses(facts, fi) if a[3] == 'read']
        readers = {}
        for b, bb, node, _ in acc:
            nm = b.name if b.kind != 'Closure' else (b.parent and __import__('sa.facts', fromlist=['x'])._strip_generics(b.parent))
            if nm.startswith('merge_ska_array::_::'):
                continue        # serde-derived (de)serialisation
            readers.setdefault(nm, []).append(node.span)
        for nm, spans in sorted(readers.items()):
            key = 'C10.readers:%s:%s' % (fname, nm)
            if nm in table:
                chk.ok('C10.readers', key, spans[0], '%s reads %s: %s' % (nm, fname, table[nm]), nontrivial=False)
            else:
                chk.violation('C10.readers', key, where=spans[0],
                              detail='%s reads the non-content field `%s`, which is carried through save/load; allowed readers: %s'
                                     % (nm, fname, sorted(table)))
    # update_counts may use variant_count only through len()
    def uc_len_only():
        b = facts.fn(MSA + '::update_counts')
        eb = ExprBuilder(b)
        bad = []
        for bb, t in b.calls():
            for a in t.args:
                e = eb.operand(a)
                while e[0] in ('ref', 'deref'):
                    e = e[1]
                if e[0] == 'field' and e[2] == vc and not (t.callee.name or '').endswith('::len'):
                    bad.append((t.callee.name, t.span))
        return bad
    r = chk.guard('C10.readers', 'C10.readers:update_counts-len', uc_len_only)
    if r is not None:
        if r:
            chk.violation('C10.readers', 'C10.readers:update_counts-len', where=r[0][1],
                          detail='update_counts passes the stale variant_count to %s' % r[0][0])
        else:
            chk.ok('C10.readers', 'C10.readers:update_counts-len', '', 'old counts used only for a capacity hint')

    check_recount(facts, chk, 'C10.recount')
    check_struct(facts, chk)


def check_recount(facts, chk, rule):
    vc = facts.field_index(MSA, 'variant_count')

    # ---------------------------------------------------------------- recount typestate in filter
    def recount():
        f = facts.fn(MSA + '::filter')
        eb = ExprBuilder(f)
        flag = None
        for i in range(1, f.arg_count + 1):
            if f.local_names.get(i) == 'filter_ambig_as_missing':
                flag = i
        if flag is None:
            raise AnchorLost('filter: parameter filter_ambig_as_missing not found')
        reads = [(bb, node) for b, bb, node, k in msa_field_accesses(facts, vc) if b is f and k == 'read']
        if not reads:
            raise AnchorLost('filter does not read variant_count any more')
        ucalls = [(bb, t) for bb, t in f.calls() if (t.callee.name or '') == MSA + '::update_counts']
        res = []
        for v in (0, 1):
            # prune switches decided by the flag
            dead = set()
            for blk in f.blocks:
                t = blk.term
                if blk.idx in f.live_blocks() and t.k == 'switch':
                    e = eb.operand(t.discr)
                    if e == ('arg', flag, 'filter_ambig_as_missing'):
                        taken = next((tg for val, tg in t.targets if val == v), t.otherwise)
                        for s in set(t.succs()):
                            if s != taken:
                                dead.add((blk.idx, s))
            # recount sites valid for this mode: argument equals the flag, or the constant v
            good_sites = set()
            bad_sites = []
            for bb, t in ucalls:
                a = eb.operand(t.args[1])
                if a == ('arg', flag, 'filter_ambig_as_missing') or (a[0] == 'const' and a[1] == v):
                    good_sites.add(bb)
                else:
                    bad_sites.append((bb, t, a))
            for rb, node in reads:
                reach = reachable_without(f, 0, avoid_blocks=good_sites, avoid_edges=dead)
                # read block reachable without passing a valid recount?
                unguarded = rb in reach
                # a recount in the wrong mode between the valid recount and the read also breaks it
                wrong_between = False
                for bb, t, a in bad_sites:
                    if bb in reachable_without(f, 0, avoid_edges=dead) and rb in reachable_without(f, t.target, avoid_edges=dead) \
                            and not any(g in reachable_without(f, t.target, avoid_edges=dead) and
                                        rb in reachable_without(f, f.blocks[g].term.target, avoid_edges=dead) for g in good_sites):
                        wrong_between = True
                res.append((v, rb, node.span, unguarded, wrong_between))
        return res, [t.span for _, t in ucalls]
    r = chk.guard(rule, rule + ':filter', recount)
    if r is not None:
        res, sites = r
        bad = [x for x in res if x[3] or x[4]]
        if bad:
            v, rb, sp, ung, wb = bad[0]
            chk.violation(rule, rule + ':filter', where=sp,
                          detail='MergeSkaArray::filter reads variant_count (decides `count >= min_count`) with filter_ambig_as_missing=%s '
                                 'without a preceding update_counts(%s) on some path: the counts then come from the file (or an earlier '
                                 'operation) in an unknown counting mode' % (bool(v), 'true' if v else 'false'),
                          construct=dict(function=MSA + '::filter', read=sp, mode=v, recount_sites=sites))
        else:
            chk.ok(rule, rule + ':filter', res[0][2], 'both modes: every read of variant_count is dominated by update_counts(mode)',
                   evals=len(res), sample=dict(function='filter', reads=[x[2] for x in res], recounts=sites))



def check_struct(facts, chk):
    # ---------------------------------------------------------------- recount after restructuring
    def struct():
        out = []
        vi = facts.field_index(MSA, 'variants')
        for fn in (MSA + '::delete_samples',):
            b = facts.fn(fn)
            w = field_writes(b, 1, vi)
            if not w:
                raise AnchorLost('%s no longer assigns self.variants' % fn)
            uc = [bb for bb, t in b.calls() if (t.callee.name or '') == MSA + '::update_counts']
            for wb, s in w:
                ok = all(rb not in reachable_without(b, wb, avoid_blocks=uc) for rb in b.return_blocks())
                out.append((fn, s.span, ok))
        return out
    r = chk.guard('C10.struct', 'C10.struct:delete_samples', struct)
    if r is not None:
        for fn, sp, ok in r:
            if ok:
                chk.ok('C10.struct', 'C10.struct:%s' % fn, sp, 'every path from `self.variants = ..` to return passes update_counts',
                       sample=dict(function=fn, assign=sp))
            else:
                chk.violation('C10.struct', 'C10.struct:%s' % fn, where=sp,
                              detail='%s replaces the column set and can return without update_counts: stale counts / empty rows persist' % fn)
