"""C10 - results depend only on the logical content of an .skf, not on its history.

Decided (structural necessary conditions): derived / metadata state that is serialised with the
table is never trusted across operations.
  C10.func     small-scope abstract interpretation: every sequence (length <= 3, thorough 4) of delete / weed / reverse weed /
               frequency, constant, ambiguity, ambiguity-as-missing and masking filters applied to an abstract array equals
               the same sequence on the plain table after every step; single operations are also run with arbitrary
               stored counts (a loaded file's counts carry an unknown counting mode) and must not depend on them
  C10.readers  who-may-read table for the three non-content fields (variant_count, ska_version, k_bits)
  C10.fields   (informational) the serialised field set, classified
Not decided: histories longer than the bound / tables wider than 3 samples; save/reload is serde (trusted).
"""
from ..facts import AnchorLost
from ..expr import ExprBuilder, show
from .util import calls_named, reachable_without, field_writes

EXPLANATION = ('Bounded operation histories interpreted abstractly against the plain-table model; arbitrary stored counts; '
               'who-may-read tables for non-content fields.')
ASSUMPTIONS = ['operations are functions of (k, rc, names, k-mers, bases) apart from the fields audited here']
MSA = 'merge_ska_array::MergeSkaArray'
CONTENT = {'k': 'content', 'rc': 'content', 'names': 'content', 'split_kmers': 'content', 'variants': 'content',
           'variant_count': 'derived', 'ska_version': 'metadata', 'k_bits': 'metadata'}


def msa_field_accesses(facts, fidx):
    """[(body, bb, stmt|term, kind)] for every place mentioning field fidx of a MergeSkaArray value"""
    out = []
    for b in facts.bodies.values():
        if b.kind == 'Promoted':
            continue
        for blk in b.blocks:
            if blk.idx not in b.live_blocks():
                continue
            items = [(s, [s.place] + ([s.rv.place] if s.rv is not None and s.rv.place is not None else []) +
                      ([o.place for o in s.rv.ops if o.place is not None] if s.rv is not None else []), s)
                     for s in blk.stmts if s.k == 'assign']
            t = blk.term
            tp = []
            if t.k == 'call':
                tp = [a.place for a in t.args if a.place is not None] + [t.dest]
            elif t.k == 'drop':
                tp = [t.place]
            elif t.k == 'switch' and t.discr.place is not None:
                tp = [t.discr.place]
            items.append((t, tp, t))
            for node, places, _ in items:
                for i, pl in enumerate(places):
                    if pl is None:
                        continue
                    ty = b.local_ty(pl.local)
                    if 'MergeSkaArray<' not in ty:
                        continue
                    pr = [p for p in pl.proj if p['k'] != 'deref']
                    if pr and pr[0]['k'] == 'field' and pr[0]['i'] == fidx:
                        is_write = (node.k == 'assign' and i == 0) or node.k == 'drop'
                        out.append((b, blk.idx, node, 'write' if is_write else 'read'))
    return out


def run(facts, chk, tier, only=None):
    adt = facts.adt(MSA)
    fields = [f['name'] for f in adt['variants'][0]['fields']]
    unknown = [f for f in fields if f not in CONTENT]
    if unknown:
        chk.violation('C10.fields', 'C10.fields:new-field', where=MSA,
                      detail='MergeSkaArray has serialised field(s) %s that are not classified content/derived/metadata; '
                             'a new derived field carried across operations must be audited' % unknown, kind='anchor-lost')
    else:
        chk.ok('C10.fields', 'C10.fields:classified', MSA, ', '.join('%s=%s' % (f, CONTENT[f]) for f in fields), nontrivial=False,
               sample=dict(fields={f: CONTENT[f] for f in fields}))
    vc = facts.field_index(MSA, 'variant_count')

    # ---------------------------------------------------------------- readers table
    allowed = {
        'variant_count': {MSA + '::update_counts': 'capacity hint only (len)', MSA + '::weed': 'row-aligned copy (C06.rows)',
                          MSA + '::filter': 'decision; must be recounted first (C10.recount)'},
        'ska_version': {'<' + MSA + '<IntT> as std::fmt::Display>::fmt': 'printed by nk'},
        'k_bits': {'<' + MSA + '<IntT> as std::fmt::Display>::fmt': 'printed by nk', MSA + '::load': 'width check (C09.width)'},
    }
    for fname, table in allowed.items():
        fi = facts.field_index(MSA, fname)
        acc = [a for a in msa_field_accesses(facts, fi) if a[3] == 'read']
        readers = {}
        for b, bb, node, _ in acc:
            nm = b.name if b.kind != 'Closure' else (b.parent and __import__('sa.facts', fromlist=['x'])._strip_generics(b.parent))
            if nm.startswith('merge_ska_array::_::'):
                continue        # serde-derived (de)serialisation
            readers.setdefault(nm, []).append(node.span)
        for nm, spans in sorted(readers.items()):
            key = 'C10.readers:%s:%s' % (fname, nm)
            if nm in table:
                chk.ok('C10.readers', key, spans[0], '%s reads %s: %s' % (nm, fname, table[nm]), nontrivial=False)
            else:
                chk.violation('C10.readers', key, where=spans[0],
                              detail='%s reads the non-content field `%s`, which is carried through save/load; allowed readers: %s'
                                     % (nm, fname, sorted(table)))
    # update_counts may use variant_count only through len()
    def uc_len_only():
        b = facts.fn(MSA + '::update_counts')
        eb = ExprBuilder(b)
        bad = []
        for bb, t in b.calls():
            for a in t.args:
                e = eb.operand(a)
                while e[0] in ('ref', 'deref'):
                    e = e[1]
                if e[0] == 'field' and e[2] == vc and not (t.callee.name or '').endswith('::len'):
                    bad.append((t.callee.name, t.span))
        return bad
    r = chk.guard('C10.readers', 'C10.readers:update_counts-len', uc_len_only)
    if r is not None:
        if r:
            chk.violation('C10.readers', 'C10.readers:update_counts-len', where=r[0][1],
                          detail='update_counts passes the stale variant_count to %s' % r[0][0])
        else:
            chk.ok('C10.readers', 'C10.readers:update_counts-len', '', 'old counts used only for a capacity hint')

    # ---------------------------------------------------------------- histories against the plain-table model
    from . import tableops
    chk.guard('C10.func', 'C10.func:histories', lambda: tableops.check_histories(facts, chk, 'C10.func', tier))
    # single operations with arbitrary stored counts (what a loaded file may carry)
    chk.guard('C10.func', 'C10.func:filter', lambda: tableops.check_filter(facts, chk, 'C10.func', 'quick'))
    chk.guard('C10.func', 'C10.func:delete_samples', lambda: tableops.check_delete(facts, chk, 'C10.func', 'quick'))
    chk.guard('C10.func', 'C10.func:weed', lambda: tableops.check_weed(facts, chk, 'C10.func', 'quick'))
    chk.guard('C10.func', 'C10.func:merge', lambda: tableops.check_merge_pipeline(facts, chk, 'C10.func', 'quick'))
    # ska weed's own filter step (generic_modes::weed without a weed file) against its documented effect, thresholds at every boundary
    chk.guard('C10.func', 'C10.func:weed-filter:run', lambda: tableops.check_weed_filter(facts, chk, 'C10.func', tier))
    # .. and through ska::main() for a 64- and a 128-bit file (each filter option of ska weed reaches the parameter it names)
    from . import cli_e2e
    chk.guard('C10.func', 'C10.func:wide:run', lambda: tableops.check_wide(facts, chk, 'C10.func', tier))
    chk.guard('C10.cli', 'C10.cli:run0', lambda: cli_e2e.check_weed(facts, chk, 'C10.cli', tier))
    # a sequence through saved files: build -> weed (everything removed) -> merge, with the real generic_modes::merge over virtual .skf files
    from . import e2e2
    chk.guard('C10.func', 'C10.func:merge-empty:run', lambda: e2e2.check_merge_empty(facts, chk, 'C10.func', tier))
    chk.guard('C10.func', 'C10.func:merge-files:run', lambda: e2e2.check_merge_e2e(facts, chk, 'C10.func', 'quick'))
