"""Further CLI-level rules over `ska::main()` (see cli_e2e.py for the environment):

  check_lo_arm      `ska lo`: the file named on the command line is loaded (64- or 128-bit arm) and handed to generic_modes::skalo
                    together with a Config carrying every command-line value in the field it belongs to (the library-level rule
                    C17.e2e / C18.e2e interprets skalo itself; here skalo is replaced by a recorder)
  check_cov_arm     `ska cov`: CoverageHistogram::new receives the two read files in order, k, rc = !single_strand; the model is
                    fitted before the table is printed (new / fit_histogram / plot_hist replaced by recorders)
  check_seq_inputs  `ska align` / `ska map` given sequence files instead of an .skf (load_array builds with the documented
                    defaults k=17, both strands): the output equals the specification for the files as named, for several
                    --threads values
  check_distance_output  `ska distance -o file` writes the same table to the file that it prints without -o
"""
import copy
import math
from ..facts import AnchorLost
from ..absint.interp import Interp, Panic, NONE, some, StrV
from ..absint.values import BV, Agg, RefV, Cell, Opaque
from . import tableops, e2e, skiter
from .cli_e2e import World, S, _deref, _txt, world_with_build, spec_table, _report, SAMPLES, LONG

UNIT = Agg('tuple', 0, [])


def _width(I, c):
    """integer width a generic crate function is called with (explicit or inferred type argument of the call)"""
    full = (c.full or '') + ' ' + ' '.join(str(I.resolve_ty(g)) for g in (getattr(c, 'gargs', None) or []))
    if 'u128' in full:
        return 'u128'
    if 'u64' in full:
        return 'u64'
    return I.subst.get('IntT')


def _cfg(facts, I, v):
    v = _deref(I, v)
    names = [x['name'] for x in facts.adt('skalo::utils::Config')['variants'][0]['fields']]
    return dict(zip(names, v.fields))


def check_lo_arm(facts, chk, rule, tier):
    bad = []
    n = 0
    for samples, k, width in ((SAMPLES, 5, 'u64'), (LONG, 33, 'u128')):
        for missing, depth, indel, threads, ref in ((0.37, 7, 5, 3, None), (0.0, 2, 9, 1, 'ref.fa')):
            W, st = world_with_build(facts, samples, k)
            if st != 0:
                raise AnchorLost('harness: build failed: %s' % (st,))
            W.skf['other.skf'] = copy.deepcopy(W.skf['all.skf'])          # a second file that must not be the one analysed
            got = []

            def rec(I_, a, t, c):
                got.append((copy.deepcopy(_deref(I_, a[0])), _cfg(facts, I_, a[1]), _width(I_, c)))
                return UNIT
            W.extra_overrides = {'generic_modes::skalo': rec}
            n += 1
            st = W.run(W.command('Lo', input_skf=S('all.skf'), reference=some(S(ref)) if ref else NONE, output=S('lo_out'), missing=float(missing),
                                 depth=BV(64, depth), indel_kmers=BV(64, indel), threads=BV(64, threads)))
            if st != 0 or len(got) != 1:
                bad.append(((k, missing, depth, indel, threads, ref), 'status %s; skalo called %d times' % (st, len(got))))
                continue
            arr, cfg, w = got[0]
            names, kmers, rows, counts, ncols = tableops.read_array(facts, Cell(arr, 'a'))
            want = W.table('all.skf')
            problems = []
            if (names, sorted(zip(kmers, rows))) != want[:2]:
                problems.append('the array handed to skalo is not the content of the input file')
            if w != width:
                problems.append('analysed with %s k-mers, the file holds %s' % (w, width))
            exp = dict(input_file='all.skf', output_name='lo_out', max_missing=float(missing), max_depth=depth, max_indel_kmers=indel, nb_threads=threads,
                       reference_genome=ref)
            for f, wv in exp.items():
                if f not in cfg:
                    raise AnchorLost('skalo Config has no field %s' % f)
                v = cfg[f]
                if isinstance(v, StrV):
                    gv = ''.join(v.chars)
                elif isinstance(v, Agg) and v.kind == 'adt:std::option::Option':
                    gv = None if v.variant == 0 else _txt(W.I, v.fields[0])
                elif isinstance(v, BV):
                    gv = v.val
                else:
                    gv = v
                if gv != wv:
                    problems.append('Config.%s = %r, the command line gave %r' % (f, gv, wv))
            if problems:
                bad.append(((k, missing, depth, indel, threads, ref), '; '.join(problems)))
    _report(chk, rule, rule + ':lo-arm', 'main: Commands::Lo', bad, n,
            'ska lo through main() (64- and 128-bit files): the named file is loaded in its own width and skalo receives every command-line value in its Config field (%d runs)')


def check_cov_arm(facts, chk, rule, tier):
    CH = 'coverage::CoverageHistogram'
    bad = []
    n = 0
    for k, ss in ((31, 0), (33, 1), (9, 1)):
        W = World(facts)
        W.seq['fwd.fq'] = ('fastq', [('r0', 'ACGTACGTACGTACGTACGTACGTACGTACGTACGTACGT', [70] * 40)])
        W.seq['rev.fq'] = ('fastq', [('r0', 'TTGTACGTACGAACGTACGTACGTTCGTACGTACGTACGG', [70] * 40)])
        calls = []

        def new(I_, a, t, c):
            calls.append(('new', _txt(I_, a[0]), _txt(I_, a[1]), I_.conc(a[2]), I_.conc(a[3]), _width(I_, c)))
            return Opaque('cov')

        def fit(I_, a, t, c):
            calls.append(('fit',))
            return Agg('adt:std::result::Result', 0, [BV(64, 7)])

        def plot(I_, a, t, c):
            calls.append(('plot',))
            return UNIT
        W.extra_overrides = {CH + '::new': new, CH + '::fit_histogram': fit, CH + '::plot_hist': plot}
        n += 1
        st = W.run(W.command('Cov', fastq_fwd=S('fwd.fq'), fastq_rev=S('rev.fq'), k=BV(64, k), single_strand=BV(1, ss)))
        want_new = ('new', 'fwd.fq', 'rev.fq', k, 0 if ss else 1, 'u64' if k <= 31 else 'u128')
        if st != 0:
            bad.append(((k, ss), 'status %s' % (st,)))
        elif [c[0] for c in calls] != ['new', 'fit', 'plot']:
            bad.append(((k, ss), 'call sequence %s, expected new, fit_histogram, plot_hist' % [c[0] for c in calls]))
        elif calls[0] != want_new:
            bad.append(((k, ss), 'CoverageHistogram::new called with (fwd, rev, k, rc, width) = %s, the command line gives %s' % (calls[0][1:], want_new[1:])))
    _report(chk, rule, rule + ':cov-arm', 'main: Commands::Cov', bad, n,
            'ska cov through main(): the two read files in order, k, rc = !single_strand and the integer width reach CoverageHistogram::new; fitted before printing (%d runs)')


def _long_samples():
    x = 4242
    g = ''
    for _ in range(70):
        x = (x * 1103515245 + 12345) % (1 << 31)
        g += 'ACGT'[(x >> 16) & 3]
    alt = lambda s, i, b: s[:i] + (b if s[i] != b else {'A': 'C', 'C': 'G', 'G': 'T', 'T': 'A'}[b]) + s[i + 1:]
    comp = {'A': 'T', 'C': 'G', 'G': 'C', 'T': 'A'}
    rcs = lambda t: ''.join(comp[c] for c in reversed(t))
    # the second sample is given on the other strand: input built single-stranded would not match the reference / the others
    return g, [('q0', [g]), ('q1', [rcs(alt(g, 30, 'A'))]), ('q2', [alt(alt(g, 30, 'C'), 50, 'G')])]


def check_seq_inputs(facts, chk, rule, tier, what):
    """what = 'align' | 'map'"""
    bad = []
    n = 0
    k = 17          # DEFAULT_KMER: the documented default of `ska build`, used when sequence files are given directly
    g, samples = _long_samples()
    names, rows = spec_table(samples, k, 1)
    # second layout: every sample in its own directory under the same file name (samples are then all named alike, one per file, in input order)
    for threads, same_name in [(th, False) for th in ((1, 2) if tier != 'thorough' else (1, 2, 3, 4))] + [(1, True)]:
        W = World(facts)
        paths = []
        for i, (nm, recs) in enumerate(samples):
            pth = ('run_%d/contigs.fa' % i) if same_name else nm + '.fa'
            W.seq[pth] = ('fasta', [('r%d' % j, s, None) for j, s in enumerate(recs)])
            paths.append(pth)
        files = W.strings(paths)
        if same_name:
            names = ['contigs'] * len(samples)
        else:
            names = [nm for nm, _ in samples]
        n += 1
        if what == 'align':
            st = W.run(W.command('Align', input=files, output=NONE, min_freq=0.0, filter_ambig_as_missing=BV(1, 0), filter=W.enum('cli::FilterType', 'NoConst'),
                                 ambig_mask=BV(1, 0), no_gap_only_sites=BV(1, 0), threads=BV(64, threads)))
            t = tableops.Table(names, rows)
            want_t, _, _ = tableops.spec_filter(t, 0, 0, 'NoConst', 0, 0)
            want_cols = sorted(b for _, b in want_t.rows)
            got_cols = sorted(''.join(sq[i] for _, sq in W.fasta) for i in range(len(W.fasta[0][1]))) if W.fasta and W.fasta[0][1] else []
            if st != 0 or [x[0] for x in W.fasta] != names or got_cols != want_cols:
                bad.append(((what, threads), 'status %s names %s; %d columns, specified %d; only written %s' % (st, [x[0] for x in W.fasta], len(got_cols), len(want_cols),
                                                                                                                    [c for c in got_cols if c not in want_cols][:3])))
        else:
            W.seq['ref.fa'] = ('fasta', [('chr', g, None)])
            st = W.run(W.command('Map', reference=S('ref.fa'), input=files, output=NONE, format=W.enum('cli::FileType', 'Aln'), ambig_mask=BV(1, 0), repeat_mask=BV(1, 0),
                                 threads=BV(64, threads)))
            want = e2e.spec_map([g], samples, k, 1, 0, 0)
            if same_name:
                want = [('contigs', sq) for _, sq in want]
            got = [(nm, sq) for nm, sq in W.fasta]
            if st != 0 or got != [(nm, sq) for nm, sq in want]:
                diff = [(a, b) for a, b in zip(got, want) if tuple(a) != tuple(b)][:1]
                bad.append(((what, threads), 'status %s; %d records; first difference %s' % (st, len(got), str(diff)[:300])))
    _report(chk, rule, rule + ':%s-seqfiles' % what, 'main: Commands::%s (sequence-file input)' % what.capitalize(), bad, n,
            'ska ' + what + ' given FASTA files directly (built with the default k=17, both strands) == specification, for several --threads values (%d runs)')


def check_distance_output(facts, chk, rule, tier):
    bad = []
    n = 0
    for samples, k in ((SAMPLES, 5), (LONG, 33)):
        W, st = world_with_build(facts, samples, k)
        outs = []
        for outopt in (None, 'dist.txt'):
            n += 1
            st = W.run(W.command('Distance', skf_file=S('all.skf'), output=some(S(outopt)) if outopt else NONE, min_freq=0.0, allow_ambiguous=BV(1, 0), threads=BV(64, 1)))
            txt = W.outfiles.get(outopt or '<stdout>', '')
            if st != 0 or not txt.strip():
                bad.append(((k, outopt), 'status %s; nothing written to %s (targets: %s)' % (st, outopt or 'stdout', sorted(W.outfiles))))
            outs.append(txt)
        if len(outs) == 2 and outs[0] != outs[1] and not bad:
            bad.append(((k,), 'the table written with -o differs from the one printed without'))
    _report(chk, rule, rule + ':distance-output', 'main: Commands::Distance', bad, n, 'ska distance writes the same table to --output as to stdout (%d runs)')
