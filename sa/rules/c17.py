"""C17 - ska lo SNP calls are real, complete for isolated SNPs, and well formed.

Completeness / reality over all genomes (graph enumeration over hash-ordered maps) is NOT decided.
Claimed only for the well-formedness gate, which holds "in every run":
  C17.gate     every column that reaches the output was inserted into found_snp_pos, and that insertion is dominated
               by new_snp && true_variant && ratio_missing <= max_missing
  C17.missing  check_missing_data over all columns of length <= 3 over {A,T,G,C,-,N,X}: valid iff >= 2 distinct
               A/C/G/T present; ratio = (#non-ACGT) / nb_total; complement_snp is a bijection on {A,C,G,T} fixing - and N
  C17.len      each column is vec!['-'; n_samples]; create_fasta_and_vcf pushes one symbol per sample per SNP
"""
import itertools

from ..facts import AnchorLost
from ..expr import ExprBuilder, show, subexprs
from ..cond import reach_formula, eval_formula, eval_expr, Unevaluable
from ..absint.interp import Interp, Panic
from ..absint.values import BV, Agg, RefV, Cell
from .util import reachable_without
from .c12 import _region_head

EXPLANATION = 'Dominance / path-condition rules for the output gate, finite-domain abstract interpretation of the missing-data classifier.'
ASSUMPTIONS = ['SNP reality/completeness over genomes not decided', 'HashMap iteration yields each inserted column once']
PV = 'skalo::process_variants::'


def run(facts, chk, tier, only=None):
    from . import subs
    # the run must not abort / wrap on an unsigned subtraction of path or sequence lengths (necessary for any output at all)
    chk.guard('C17.sub', 'C17.sub:run', lambda: subs.check(facts, chk, 'C17.sub'))
    from . import lo_e2e
    chk.guard('C17.e2e', 'C17.e2e:run', lambda: lo_e2e.check_snps(facts, chk, 'C17.e2e', tier))
    # reference mode (-r): coordinates, REF / ALT / genotypes of the SNP VCF and the pseudo-genomes
    chk.guard('C17.e2e', 'C17.e2e:run-wide', lambda: lo_e2e.check_wide(facts, chk, 'C17.e2e', tier, 'snp'))        # thorough tier only
    chk.guard('C17.e2e', 'C17.e2e:run-ref', lambda: lo_e2e.check_snps_ref(facts, chk, 'C17.e2e', tier))
    # the Lo arm of main: the named file, in its own width, and every command-line value reach skalo
    from . import cli_more
    chk.guard('C17.cli', 'C17.cli:run0', lambda: cli_more.check_lo_arm(facts, chk, 'C17.cli', tier))
    from . import c18
    chk.guard('C17.leaf', 'C17.leaf:run', lambda: c18.check_graph_leaves(facts, chk, 'C17.leaf'))
    av = facts.fn(PV + 'analyse_variant_groups')

    def gate():
        eb = ExprBuilder(av, through_vars=False)
        ins = [(bb, t) for bb, t in av.calls() if (t.callee.name or '').endswith('HashMap::insert')]
        found = [(bb, t) for bb, t in ins if 'usize, std::vec::Vec<char>' in (t.callee.full or '')]
        final = [(bb, t) for bb, t in ins if 'u32, std::vec::Vec<char>' in (t.callee.full or '')]
        if len(found) != 1 or len(final) < 1:
            raise AnchorLost('analyse_variant_groups: %d found_snp_pos.insert, %d final_snps.insert' % (len(found), len(final)))
        fb = found[0][0]
        cm = [(bb, t) for bb, t in av.calls() if (t.callee.name or '') == PV + 'check_missing_data']
        if len(cm) != 1:
            raise AnchorLost('analyse_variant_groups: %d check_missing_data calls' % len(cm))
        # from the return of check_missing_data to the insertion: formula over (true_variant, ratio <= max)
        f = reach_formula(av, eb, av.blocks[cm[0][0]].term.target, _region_head(av, fb), back_edges_ok=True)
        bad = []
        for tv in (0, 1):
            for le in (0, 1):
                def leaf(x, tv=tv, le=le):
                    if x[0] == 'var' and x[2] == 'true_variant':
                        return tv
                    if x[0] == 'bin' and x[1] in ('Le', 'Lt', 'Ge', 'Gt') and 'ratio_missing' in show(x) and 'max_missing' in show(x) or \
                            (x[0] == 'bin' and x[1] in ('Le', 'Lt', 'Ge', 'Gt') and 'ratio_missing' in show(x)):
                        if x[1] == 'Le':
                            return le
                        raise Unevaluable('comparison is %s' % x[1])
                    raise Unevaluable()
                if bool(eval_formula(f, lambda ex: eval_expr(ex, leaf))) != bool(tv and le):
                    bad.append((tv, le))
        # the comparison's right operand is config.max_missing
        cmp_ok = any(x[0] == 'bin' and x[1] == 'Le' and 'ratio_missing' in show(x[2]) for blk in av.blocks if blk.idx in av.live_blocks() and blk.term.k == 'switch'
                     for x in [eb.operand(blk.term.discr)])
        # new_snp switch dominates check_missing_data with its false edge not reaching it
        ns = [b.idx for b in av.blocks if b.idx in av.live_blocks() and b.term.k == 'switch' and eb.operand(b.term.discr)[0] == 'var' and eb.operand(b.term.discr)[2] == 'new_snp']
        new_ok = False
        for s in ns:
            t = av.blocks[s].term
            fe = next((tg for v, tg in t.targets if v == 0), None)
            heads = [bb for bb, c in av.calls() if (c.callee.name or '').endswith('::next') and av.in_cycle(bb)]
            if av.dominates(s, cm[0][0]) and fe is not None and cm[0][0] not in reachable_without(av, fe, avoid_blocks=heads):
                new_ok = True
        # arguments of check_missing_data: (sample_names.len(), &snp_column) and the inserted column is that snp_column
        a0 = show(eb.operand(cm[0][1].args[0]))
        a1 = show(eb.operand(cm[0][1].args[1]))
        col = show(eb.operand(found[0][1].args[2]))
        args_ok = 'len(' in a0 and 'snp_column' in a1 and col == 'snp_column'
        # final_snps columns come from the found_snp_pos iteration
        ebt = ExprBuilder(av)
        prov = []
        for bb, t in final:
            e = ebt.operand(t.args[2])
            s = show(e)
            prov.append(('found_snp_pos' in s or 'into_iter(' in s and 'next(' in s, s[:80]))
        its = [show(ebt.operand(t.args[0])) for bb, t in av.calls() if (t.callee.name or '').endswith('into_iter') and 'HashMap<usize, std::vec::Vec<char>>' in (t.callee.full or '')]
        return bad, cmp_ok, new_ok, args_ok, prov, its, found[0][1].span
    r = chk.guard('C17.gate', 'C17.gate:analyse_variant_groups', gate)
    if r is not None:
        bad, cmp_ok, new_ok, args_ok, prov, its, sp = r
        if bad or not cmp_ok:
            chk.violation('C17.gate', 'C17.gate:insert-condition', where=sp, evals=4,
                          detail='found_snp_pos.insert is reached under a condition other than true_variant && ratio_missing <= max_missing: rows %s, `<=` present: %s' % (bad, cmp_ok))
        else:
            chk.ok('C17.gate', 'C17.gate:insert-condition', sp, 'insert iff true_variant && ratio_missing <= max_missing (4 rows)', evals=4)
        if new_ok and args_ok:
            chk.ok('C17.gate', 'C17.gate:new-snp', sp, 'the check runs only for new SNPs, on (n_samples, the column that is inserted)')
        else:
            chk.violation('C17.gate', 'C17.gate:new-snp', where=sp, detail='new_snp gate=%s, check_missing_data(sample count, inserted column)=%s' % (new_ok, args_ok))
        if len(its) >= 1 and len(prov) == len([p for p in prov if True]):
            chk.ok('C17.gate', 'C17.gate:final-from-found', sp, '%d final_snps.insert sites fed by %d iterations over found_snp_pos' % (len(prov), len(its)))
        else:
            chk.violation('C17.gate', 'C17.gate:final-from-found', where=sp, detail='final_snps columns do not come from found_snp_pos')

    def final_prov():
        """each final_snps.insert is inside a loop over found_snp_pos.into_iter()"""
        eb = ExprBuilder(av)
        final = [(bb, t) for bb, t in av.calls() if (t.callee.name or '').endswith('HashMap::insert') and 'u32, std::vec::Vec<char>' in (t.callee.full or '')]
        its = [(bb, t) for bb, t in av.calls() if (t.callee.name or '').endswith('into_iter') and 'HashMap<usize, std::vec::Vec<char>>' in (t.callee.full or '')]
        bad = []
        for bb, t in final:
            if not any(av.dominates(ib, bb) for ib, _ in its):
                bad.append(t.span)
        return bad, len(final)
    r = chk.guard('C17.gate', 'C17.gate:final-loop', final_prov)
    if r is not None:
        bad, n = r
        if bad or n < 2:
            chk.violation('C17.gate', 'C17.gate:final-loop', where=(bad or [''])[0], detail='a final_snps.insert is not inside an iteration over found_snp_pos (%d sites)' % n)
        else:
            chk.ok('C17.gate', 'C17.gate:final-loop', PV + 'analyse_variant_groups', 'all %d final_snps.insert sites are dominated by found_snp_pos.into_iter()' % n)

    # ---------------------------------------------------------------- missing-data classifier
    def missing():
        I = Interp(facts)
        bad = []
        n = 0
        alpha = 'ATGC-NX'
        for L in ((1, 2, 3, 4) if tier == 'thorough' else (1, 2, 3)):
            for col in itertools.product(alpha, repeat=L):
                for nb in (L, L + 1):
                    cell = Cell(Agg('array', 0, [BV(32, ord(c)) for c in col]), 'col')
                    r = I.call_fn(PV + 'check_missing_data', [BV(64, nb), RefV(cell, (), (0, L))])
                    valid = len(set(c for c in col if c in 'ATGC')) >= 2
                    miss = sum(1 for c in col if c not in 'ATGC')
                    n += 1
                    if r.fields[0].val != int(valid) or abs(r.fields[1] - miss / nb) > 1e-6:
                        bad.append((''.join(col), nb, (r.fields[0].val, r.fields[1]), (valid, miss / nb)))
        # complement_snp closure
        cl = facts.closures_of(PV + 'complement_snp')
        if len(cl) != 1:
            raise AnchorLost('complement_snp: %d closures' % len(cl))
        c = cl[0]
        comp = {}
        for ch in 'ACGT-N':
            env = Agg('closure:' + c.path, 0, [])
            envv = RefV(Cell(env, 'env')) if c.local_ty(1).startswith('&') else env
            r = I.exec_body(c, [envv, RefV(Cell(BV(32, ord(ch)), 'c'))])
            comp[ch] = chr(r.val)
        cbad = comp != {'A': 'T', 'T': 'A', 'C': 'G', 'G': 'C', '-': '-', 'N': 'N'}
        return n, bad, comp, cbad
    r = chk.guard('C17.missing', 'C17.missing:check_missing_data', missing)
    if r is not None:
        n, bad, comp, cbad = r
        if bad:
            chk.violation('C17.missing', 'C17.missing:check_missing_data', where=PV + 'check_missing_data', evals=n,
                          detail='(column, n, got, expected) = %s' % (bad[0],))
        else:
            chk.ok('C17.missing', 'C17.missing:check_missing_data', PV + 'check_missing_data',
                   'valid iff >= 2 distinct A/C/G/T; ratio = #non-ACGT / n: %d columns (length <= %d over A,T,G,C,-,N,X)' % (n, 4 if tier == 'thorough' else 3), evals=n)
        if cbad:
            chk.violation('C17.missing', 'C17.missing:complement_snp', where=PV + 'complement_snp', detail='complement table %s' % comp)
        else:
            chk.ok('C17.missing', 'C17.missing:complement_snp', PV + 'complement_snp', 'A<->T, C<->G, - and N fixed (verdict of the gate survives strand correction)', evals=6)

    # ---------------------------------------------------------------- lengths
    def lens():
        eb = ExprBuilder(av)
        fe = [(bb, t) for bb, t in av.calls() if (t.callee.name or '') == 'std::vec::from_elem' and 'char' in (t.callee.full or '')]
        ok1 = len(fe) == 1 and eb.operand(fe[0][1].args[0]) == ('const', 45, 'char') and 'sample_names' in show(ExprBuilder(av, through_vars=True).operand(fe[0][1].args[1])) or \
            (len(fe) == 1 and eb.operand(fe[0][1].args[0])[1] == 45 and 'len(' in show(eb.operand(fe[0][1].args[1])))
        out = facts.fn('skalo::output_snps::create_fasta_and_vcf')
        ebo = ExprBuilder(out, through_vars=False)
        fe2 = [(bb, t) for bb, t in out.calls() if (t.callee.name or '') == 'std::vec::from_elem']
        ok2 = len(fe2) >= 1 and all('sample_names' in show(ebo.operand(t.args[1])) for _, t in fe2)
        pushes = [(bb, t) for bb, t in out.calls() if (t.callee.name or '') == 'std::string::String::push']
        # the SNP-sequence push: target is sequences[i] with i from enumerate over vec_chars
        seq_push = [(bb, t) for bb, t in pushes if 'sequences' in show(ebo.operand(t.args[0]))]
        ok3 = len(seq_push) == 1
        if ok3:
            bb, t = seq_push[0]
            e = ExprBuilder(out, through_mut_borrow=True).operand(t.args[0])
            se = show(e)
            ok3 = 'enumerate(' in se and 'current_snp_index' in se
            # no extra condition between the loop's Some edge and the push
            nx = [b2 for b2, c in out.calls() if (c.callee.name or '').endswith('::next') and out.dominates(b2, bb) and out.in_cycle(b2)]
            inner = max(nx)
            body = next(tg for v, tg in out.blocks[out.blocks[inner].term.target].term.targets if v == 1)
            sw_between = [b2 for b2 in reachable_without(out, body, avoid_blocks=[inner]) if out.blocks[b2].term.k == 'switch' and out.dominates(b2, bb) and b2 != out.blocks[inner].term.target]
            ok3 = ok3 and not sw_between
        return ok1, ok2, ok3
    r = chk.guard('C17.len', 'C17.len:columns', lens)
    if r is not None:
        ok1, ok2, ok3 = r
        for nm, ok, why in (('column-init', ok1, "snp_column = vec!['-'; sample_names.len()]"),
                            ('sequence-init', ok2, 'one output string per sample name'),
                            ('one-symbol-per-sample', ok3, 'sequences[i].push(char) for every (i, char) of the column, unconditionally')):
            if ok:
                chk.ok('C17.len', 'C17.len:%s' % nm, 'skalo', why)
            else:
                chk.violation('C17.len', 'C17.len:%s' % nm, where='skalo', detail='violated: ' + why)
