"""Shared helpers for rule modules (CFG queries over facts.Body)."""
from ..facts import AnchorLost


def callee_matches(t, *parts):
    n = (t.callee.name or '') + ' ' + (t.callee.defname or '')
    return all(p in n for p in parts)


def calls_named(body, *parts):
    return [(bb, t) for bb, t in body.calls() if callee_matches(t, *parts)]


def one_call(body, *parts):
    c = calls_named(body, *parts)
    if len(c) != 1:
        raise AnchorLost('%s: expected exactly one call matching %r, found %d' % (body.name, parts, len(c)))
    return c[0]


def reachable_without(body, start, avoid_blocks=(), avoid_edges=()):
    """blocks reachable from `start` not entering avoid_blocks and not using avoid_edges"""
    seen = set()
    st = [start]
    av = set(avoid_blocks)
    ae = set(avoid_edges)
    while st:
        b = st.pop()
        if b in seen or b in av:
            continue
        seen.add(b)
        for s in body.succs(b):
            if (b, s) not in ae:
                st.append(s)
    return seen


def must_pass(body, src, dst, through):
    """every path src ->* dst passes through one of the blocks `through` (dst itself excluded)"""
    if src in through:
        return True
    return dst not in reachable_without(body, src, avoid_blocks=set(through) - {dst})


def blocks_where(body, pred):
    return [b.idx for b in body.blocks if b.idx in body.live_blocks() and pred(b)]


def assigns_variant(blk, local, adt_suffix, vname):
    for s in blk.stmts:
        if (s.k == 'assign' and s.place.local == local and not s.place.proj and s.rv.k == 'aggregate'
                and s.rv.j['kind'].get('k') == 'adt' and s.rv.j['kind']['adt'].endswith(adt_suffix)
                and s.rv.j['kind']['vname'] == vname):
            return True
    return False


def field_writes(body, base_local, field_idx):
    """[(bb, stmt)] assigning (*base).field or base.field"""
    out = []
    for b in body.blocks:
        if b.idx not in body.live_blocks():
            continue
        for s in b.stmts:
            if s.k == 'assign' and s.place.local == base_local:
                pr = [p for p in s.place.proj if p['k'] != 'deref']
                if pr and pr[0]['k'] == 'field' and pr[0]['i'] == field_idx and len(pr) == 1:
                    out.append((b.idx, s))
    return out


def can_return_from(body, bb):
    """does any path from bb reach a normal return?"""
    r = body.reachable_from(bb)
    return any(x in r for x in body.return_blocks())
