"""C04 - mapped alignment equals the union of matched k-mer windows on the reference.

Decided clauses:
  C04.case    reference bytes reach the alignment (and the VCF comparison) only upper-cased (taint:
              SequenceRecord::seq() -> RefSka.seq -> AlnWriter.seq_out / write_vcf ref_base)
  C04.prefix  "absolute offset of contig c = sum of the lengths before it": every accumulator
              off += len(seq[idx]) advances idx by exactly one per addition (three sibling implementations)
  C04.strand  RefKmer{kmer, base, rc} come from the same get_curr/next_kmer tuple, pos = get_middle_pos();
              strand correction closure = C15.use:map
  C04.mask    stored middle base is 'N' iff is_ambiguous(base) && mask_ambig; finalise order:
              fill contigs, then middle bases, then repeat mask under `!= '-'`
  C04.flags   no call passes two same-typed flags swapped relative to their names
  C04.len     seq_out = vec!['-'; sum of contig lengths], one writer per mapped sample
Not decided: the incremental writer's catch-up / flank geometry for arbitrary gap lengths.
"""
from ..facts import AnchorLost, _strip_generics
from ..expr import ExprBuilder, show, subexprs, affine
from ..cond import reach_formula, eval_formula, eval_expr, Unevaluable, edge_conds
from .util import reachable_without

EXPLANATION = ('Container-level taint with sanitizers, accumulator/index discipline (inductive prefix-sum invariant), provenance '
               'of aggregate fields and call arguments, path-condition truth tables and ordering by reachability.')
ASSUMPTIONS = ['AlnWriter gap geometry (next_pos/last_mapped/last_written) is not decided', 'ASCII to_ascii_uppercase semantics']
RS = 'ska_ref::RefSka'
AW = 'ska_ref::aln_writer::AlnWriter'
SAN = ('to_ascii_uppercase', 'make_ascii_uppercase')


def _has_san(e):
    return any(x[0] == 'call' and x[1].split('::')[-1] in SAN for x in subexprs(e))


def check_case(facts, chk, pid='C04'):
    def go():
        new = facts.fn(RS + '::new')
        eb = ExprBuilder(new)
        # source -> store
        stores = []
        for bb, t in new.calls():
            n = t.callee.name or ''
            if n.endswith('Vec::push') and 'std::vec::Vec<u8>' in (t.callee.full or ''):
                e = eb.operand(t.args[1])
                if any(x[0] == 'call' and x[1].endswith('SequenceRecord::seq') for x in subexprs(e)):
                    stores.append((t, e))
        if len(stores) != 1:
            raise AnchorLost('RefSka::new: %d stores of the record sequence' % len(stores))
        st, se = stores[0]
        store_clean = _has_san(se)
        # wholesale sanitizer on `seq` before the struct is built
        wholesale = False
        for bb, t in new.calls():
            if (t.callee.name or '').split('::')[-1] in SAN and 'seq' in show(eb.operand(t.args[0])):
                wholesale = True
        for c in facts.closures_of(RS + '::new'):
            for bb, t in c.calls():
                if (t.callee.name or '').split('::')[-1] in SAN:
                    wholesale = True
        # AlnWriter gets &self.seq
        pa = facts.fn(RS + '::pseudoalignment')
        ebp = ExprBuilder(pa)
        seq_idx = facts.field_index(RS, 'seq')
        awn = [(bb, t) for bb, t in pa.calls() if (t.callee.name or '') == AW + '::new']
        if len(awn) != 1:
            raise AnchorLost('pseudoalignment: %d AlnWriter::new calls' % len(awn))
        a0 = ebp.operand(awn[0][1].args[0])
        passes_seq = any(x[0] == 'field' and x[2] == seq_idx for x in subexprs(a0))
        # sink (a): copies from ref_seq into seq_out
        copies = []
        sink_a_clean = True
        for fn in (AW + '::fill_fwd_bases', AW + '::write_split_kmer', AW + '::fill_contig', AW + '::finalise', AW + '::get_seq'):
            b = facts.fn(fn)
            ebb = ExprBuilder(b)
            for bb, t in b.calls():
                if (t.callee.name or '').endswith('copy_from_slice'):
                    src = ebb.operand(t.args[1])
                    clean = _has_san(src)
                    # or the destination range is upper-cased right after
                    after = reachable_without(b, t.target) if t.target is not None else set()
                    post = [1 for bb2, t2 in b.calls() if bb2 in after and (t2.callee.name or '').split('::')[-1] in SAN]
                    copies.append((fn, t.span, clean or bool(post)))
        gs = facts.fn(AW + '::get_seq')
        fin = facts.fn(AW + '::finalise')
        whole_out = any((t.callee.name or '').split('::')[-1] in SAN for b in (gs, fin) for _, t in b.calls())
        sink_a_clean = whole_out or (bool(copies) and all(c[2] for c in copies))
        # sink (b): ref_base in write_vcf
        wv = facts.fn(RS + '::write_vcf')
        ebv = ExprBuilder(wv)
        rb = wv.locals_named('ref_base')
        if len(rb) != 1:
            raise AnchorLost('write_vcf: local ref_base not found')
        rbe = ebv.local_expr(rb[0])
        reads_seq = any(x[0] == 'field' and x[2] == seq_idx for x in subexprs(rbe))
        sink_b_clean = _has_san(rbe)
        return dict(store=st.span, store_expr=show(se), store_clean=store_clean or wholesale, passes_seq=passes_seq, copies=copies,
                    sink_a_clean=sink_a_clean, sink_b_clean=sink_b_clean, reads_seq=reads_seq, ref_base=show(rbe))
    # soft: the observable clause (a lower-case reference gives an upper-case alignment / no spurious VCF records) is decided by the
    # end-to-end rules on references with lower-case stretches; this provenance rule adds "for every reference" when it recognises the code
    twin = {'C04': ['C04.e2e:map'], 'C05': ['C05.e2e:vcf']}.get(pid, [])

    def go_checked():
        r = go()
        if len(r['copies']) < 2:
            raise AnchorLost('%d reference copy sites found in AlnWriter (2 on the pinned tree)' % len(r['copies']))
        if not r['passes_seq'] or not r['reads_seq']:
            raise AnchorLost('AlnWriter::new no longer receives self.seq / write_vcf no longer reads self.seq')
        return r
    r = chk.guard_soft(pid + '.case', pid + '.case:RefSka::new->seq', go_checked, twins=twin)
    if r is None:
        return
    ok = r['store_clean'] or (r['sink_a_clean'] and r['sink_b_clean'])
    if ok:
        chk.ok(pid + '.case', pid + '.case:RefSka::new->seq', r['store'],
               'reference bytes are upper-cased %s' % ('at the store: ' + r['store_expr'][:120] if r['store_clean'] else 'at both sinks'),
               evals=1 + len(r['copies']) + 1, sample=dict(store=r['store_expr'][:200], copies=[c[1] for c in r['copies']], ref_base=r['ref_base'][:120]))
    else:
        chk.violation(pid + '.case', pid + '.case:RefSka::new->seq', where=r['store'],
                      detail='reference bytes from SequenceRecord::seq() are stored un-normalised (%s) and reach %s without '
                             'to_ascii_uppercase: a lower-case reference gives mixed-case output and spurious VCF records'
                             % (r['store_expr'][:160], ', '.join(([] if r['sink_a_clean'] else ['AlnWriter::seq_out via copy_from_slice at ' + ', '.join(c[1] for c in r['copies'] if not c[2])]) +
                                                                  ([] if r['sink_b_clean'] else ['the ref_base comparison in write_vcf']))),
                      construct=dict(source=RS + '::new', store=r['store'], sinks=r['copies']))


def _is_plus_one(e, var_show):
    return e[0] == 'bin' and e[1] == 'Add' and show(e[2]) == var_show and e[3][0] == 'const' and e[3][1] == 1


def check_prefix(facts, chk):
    """accumulator discipline at the three sibling implementations"""
    def scan(fn):
        from ..facts import fn_with_private_helpers
        b = fn_with_private_helpers(facts, fn)      # an accumulator loop moved into a private helper stays visible
        eb = ExprBuilder(b, through_vars=False)
        accs = []
        for blk in b.blocks:
            if blk.idx not in b.live_blocks():
                continue
            for si, s in enumerate(blk.stmts):
                if s.k != 'assign' or s.rv.k != 'use':
                    continue
                e = eb.operand(s.rv.ops[0])
                tgt = show(eb.place(s.place))
                if e[0] == 'bin' and e[1] == 'Add' and show(e[2]) == tgt:
                    L = e[3]
                    lens = [x for x in subexprs(L) if x[0] == 'call' and x[1].endswith('::len')]
                    if not lens and L[0] in ('var',):
                        # length held in a local (fill_contig: chrom_length)
                        d = ExprBuilder(b, through_vars=True).local_expr(L[1])
                        lens = [x for x in subexprs(d) if x[0] == 'call' and x[1].endswith('::len')]
                        L = d
                    if not lens:
                        continue
                    idxs = [x[2] for x in subexprs(L) if x[0] == 'index'] + \
                           [x[2][1] for x in subexprs(L) if x[0] == 'call' and x[1].endswith('::index') and len(x[2]) == 2]
                    accs.append(dict(bb=blk.idx, si=si, acc=tgt, idx=[show(i) for i in idxs], span=s.span, L=show(L)))
        return b, eb, accs

    def idx_assigns(b, eb, idx_show):
        out = []
        for blk in b.blocks:
            if blk.idx not in b.live_blocks():
                continue
            for si, s in enumerate(blk.stmts):
                if s.k == 'assign' and show(eb.place(s.place)) == idx_show:
                    rhs = eb.rvalue(s.rv)
                    out.append((blk.idx, si, rhs, s.span))
        return out

    inst = 0
    for fn in (RS + '::new', AW + '::fill_contig'):
        key = 'C04.prefix:%s' % fn

        def go(fn=fn):
            b, eb, accs = scan(fn)
            accs = [a for a in accs if a['idx']]
            if len(accs) != 1:
                raise AnchorLost('%s: %d indexed prefix accumulators' % (fn, len(accs)))
            a = accs[0]
            idx = a['idx'][0]
            assigns = idx_assigns(b, eb, idx)
            # walk forward from the accumulation: assignments to idx before control returns to it / function end
            A = a['bb']
            problems = []
            incs_after = []
            seen = set()
            work = [(A, a['si'] + 1)]
            while work:
                bb, start = work.pop()
                if (bb, start) in seen:
                    continue
                seen.add((bb, start))
                stop_here = False
                for (abb, asi, rhs, sp) in sorted(assigns):
                    if abb == bb and asi >= start:
                        if _is_plus_one(rhs, idx):
                            incs_after.append(sp)
                        else:
                            # accepted idiom: re-synchronisation `idx = X` after a `while X > idx` loop that contains A
                            guard_ok = False
                            for g in b.dominators()[A]:
                                t = b.blocks[g].term
                                if t.k == 'switch':
                                    ge = eb.operand(t.discr)
                                    if ge[0] == 'bin' and ge[1] in ('Gt', 'Lt') and show(rhs) in (show(ge[2]), show(ge[3])) and \
                                            idx in (show(ge[2]), show(ge[3])) and g in reachable_without(b, b.blocks[A].term.succs()[0] if b.blocks[A].term.succs() else A, avoid_blocks=_outer_heads(b, g)):
                                        guard_ok = True
                            if not (guard_ok and incs_after):
                                problems.append((sp, show(rhs)))
                        stop_here = True
                        break
                if stop_here:
                    continue
                for s in b.succs(bb):
                    if s == A:
                        if not incs_after:
                            problems.append((a['span'], 'control returns to the accumulation without idx += 1'))
                        continue
                    work.append((s, 0))
            if not incs_after and not problems:
                problems.append((a['span'], 'no `%s += 1` follows the accumulation' % idx))
            return a, idx, problems
        r = chk.guard('C04.prefix', key, go)
        if r is None:
            continue
        inst += 1
        a, idx, problems = r
        if problems:
            chk.violation('C04.prefix', key + ':' + a['acc'].replace(' ', ''), where=problems[0][0],
                          detail='prefix accumulator `%s += %s` is followed by `%s = %s` instead of `%s += 1`: when the index jumps by more '
                                 'than one (a contig without k-mers) the offset misses the skipped contigs' % (a['acc'], a['L'], idx, problems[0][1], idx),
                          construct=dict(function=fn, accumulation=a['span'], index=idx))
        else:
            chk.ok('C04.prefix', key + ':' + a['acc'].replace(' ', ''), a['span'], '`%s += %s` advances `%s` by exactly one' % (a['acc'], a['L'], idx),
                   sample=dict(function=fn, accumulator=a['acc'], index=idx))

    def go_idx():
        # third sibling, decided semantically (it is a pure function of the contig lengths): IdxCheck::new interpreted on
        # every vector of <= 4 contig lengths in 0..3 gives end_coor = running sums.  (Was a shape rule on the accumulator
        # statement; an iterator-chain rewrite of the same sum raised a false alarm.)
        import itertools
        from ..absint.interp import Interp
        from ..absint.values import BV, Agg, RefV, Cell
        fn = 'ska_ref::idx_check::IdxCheck::new'
        bad = []
        n = 0
        for nc in range(0, 5):
            for lens in itertools.product(range(0, 4), repeat=nc):
                I = Interp(facts)
                seqs = Cell(Agg('array', 0, [Agg('array', 0, [BV(8, 65)] * L) for L in lens]), 'ref')
                r = I.call_fn(fn, [RefV(seqs, (), (0, nc))])
                got = [x.val for x in r.fields[0].fields]
                want = list(itertools.accumulate(lens))
                n += 1
                if got != want:
                    bad.append((lens, got, want))
        return n, bad
    r = chk.guard('C04.prefix', 'C04.prefix:IdxCheck::new', go_idx)
    if r is not None:
        inst += 1
        n, bad = r
        if not bad:
            chk.ok('C04.prefix', 'C04.prefix:IdxCheck::new', 'ska_ref::idx_check::IdxCheck::new', 'end_coor = running sums of the contig lengths for all %d length vectors (<= 4 contigs, lengths 0..3)' % n, evals=n)
        else:
            chk.violation('C04.prefix', 'C04.prefix:IdxCheck::new', where='ska_ref::idx_check::IdxCheck::new', evals=n,
                          detail='end_coor is not the running sum of contig lengths: lengths %s give %s, specified %s' % bad[0])
    chk.floor('C04.prefix', 'prefix accumulators', inst, 3)


def _outer_heads(b, g):
    """blocks of enclosing loops' iterator `next` calls (do not walk through them when testing a while-loop cycle)"""
    return [bb for bb, t in b.calls() if (t.callee.name or '').endswith('::next') and b.in_cycle(bb)]


def check_strand(facts, chk):
    def go():
        new = facts.fn(RS + '::new')
        eb = ExprBuilder(new)
        ags = [s for blk in new.blocks if blk.idx in new.live_blocks() for s in blk.stmts
               if s.k == 'assign' and s.rv.k == 'aggregate' and s.rv.j['kind'].get('adt') == 'ska_ref::RefKmer']
        if len(ags) != 2:
            raise AnchorLost('RefSka::new builds %d RefKmer values (first k-mer + loop expected)' % len(ags))
        res = []
        fields = s_fields = ags[0].rv.j['kind']['fields']
        for s in ags:
            ops = {f: eb.operand(o) for f, o in zip(s.rv.j['kind']['fields'], s.rv.ops)}
            def tup(e):
                # (call get_curr_kmer).i  or ((call get_next_kmer) as Some).0.i
                x = e
                if x[0] == 'field':
                    i = x[2]
                    y = x[1]
                    while y[0] in ('field', 'downcast') and not (y[0] == 'call'):
                        y = y[1]
                    if y[0] == 'call' and y[1].split('::')[-1] in ('get_curr_kmer', 'get_next_kmer'):
                        return (y[1].split('::')[-1], y[3], i)
                return None
            tk, tb, tr = tup(ops['kmer']), tup(ops['base']), tup(ops['rc'])
            same = tk and tb and tr and tk[:2] == tb[:2] == tr[:2] and (tk[2], tb[2], tr[2]) == (0, 1, 2)
            pos_ok = ops['pos'][0] == 'call' and ops['pos'][1].endswith('::get_middle_pos')
            if ops['pos'][0] == 'var':
                ds = new.defs_of(ops['pos'][1])
                def _is_mp(i, n):
                    if i == 'term':
                        return (n.callee.name or '').endswith('::get_middle_pos')
                    e = eb.rvalue(n.rv)
                    return e[0] == 'call' and e[1].endswith('::get_middle_pos')
                pos_ok = bool(ds) and all(_is_mp(i, n) for _, i, n in ds)
            res.append((s.span, bool(same), bool(pos_ok), {k: show(v)[:60] for k, v in ops.items()}))
        return res
    r = chk.guard('C04.strand', 'C04.strand:RefKmer', go)
    if r is not None:
        for i, (sp, same, pos_ok, ops) in enumerate(r):
            key = 'C04.strand:RefKmer:%s' % ('first' if i == 0 else 'loop')
            if same and pos_ok:
                chk.ok('C04.strand', key, sp, 'kmer/base/rc = fields 0/1/2 of one k-mer tuple; pos = get_middle_pos()', sample=ops)
            else:
                chk.violation('C04.strand', key, where=sp, detail='RefKmer fields do not come from one k-mer tuple / middle position: %s' % ops)


def check_mask(facts, chk):
    def go_wsk():
        b = facts.fn(AW + '::write_split_kmer')
        eb = ExprBuilder(b)
        # the value pushed into _middle_out: tuple(first, pos+offset); `first` is a 2-definition temporary: const 'N' / base
        pushes = [(bb, t) for bb, t in b.calls() if (t.callee.name or '').endswith('Vec::push') and '(u8, usize)' in (t.callee.full or '')]
        if len(pushes) != 1:
            raise AnchorLost('write_split_kmer: %d pushes into _middle_out' % len(pushes))
        pb, pt = pushes[0]
        # blocks assigning const 78 ('N') / the base parameter to the same local
        nblocks, bblocks, tgt_local = [], [], None
        for blk in b.blocks:
            if blk.idx not in b.live_blocks():
                continue
            for s in blk.stmts:
                if s.k == 'assign' and s.rv.k == 'use' and not s.place.proj and b.local_ty(s.place.local) == 'u8':
                    o = s.rv.ops[0]
                    if o.const_int() == 78:
                        nblocks.append((blk.idx, s.place.local))
                    elif o.place is not None and b.local_names.get(o.place.local) == 'base':
                        bblocks.append((blk.idx, s.place.local))
        bblocks = [x for x in bblocks if nblocks and x[1] == nblocks[0][1]]
        if len(nblocks) != 1 or len(bblocks) != 1 or nblocks[0][1] != bblocks[0][1]:
            raise AnchorLost('write_split_kmer: middle-base selection shape (%s / %s)' % (nblocks, bblocks))
        mask_idx = facts.field_index(AW, 'mask_ambig')
        fN = reach_formula(b, eb, 0, nblocks[0][0], back_edges_ok=True)
        fB = reach_formula(b, eb, 0, bblocks[0][0], back_edges_ok=True)
        bad = []
        for amb in (0, 1):
            for m in (0, 1):
                def leaf(x, amb=amb, m=m):
                    if x[0] == 'call' and x[1].endswith('is_ambiguous'):
                        return amb
                    if x[0] == 'field' and x[2] == mask_idx:
                        return m
                    if x[0] == 'bin' and x[1] in ('Gt', 'Lt', 'Ge', 'Le'):
                        return 0          # the contig catch-up loop: taken zero times
                    raise Unevaluable()
                vN = bool(eval_formula(fN, lambda ex: eval_expr(ex, leaf)))
                vB = bool(eval_formula(fB, lambda ex: eval_expr(ex, leaf)))
                if vN != bool(amb and m) or vB != (not (amb and m)):
                    bad.append((amb, m, vN, vB))
        # position stored = mapped_pos + chrom_offset
        te = eb.operand(pt.args[1])
        off_idx = facts.field_index(AW, 'chrom_offset')
        pos = te[2][1] if te[0] == 'agg' and len(te[2]) == 2 else None
        pos_ok = pos is not None and affine(pos, atom_of=lambda e: ('mapped_pos' if e[0] == 'arg' and e[2] == 'mapped_pos' else
                                                                  ('off' if e[0] == 'field' and e[2] == off_idx else show(e)))) == ({'mapped_pos': 1, 'off': 1}, 0)
        return bad, pos_ok, pt.span
    r = chk.guard('C04.mask', 'C04.mask:write_split_kmer', go_wsk)
    if r is not None:
        bad, pos_ok, sp = r
        if bad or not pos_ok:
            chk.violation('C04.mask', 'C04.mask:write_split_kmer', where=sp, evals=4,
                          detail='stored middle base is not (`N` iff is_ambiguous(base) && mask_ambig) at %s / position is mapped_pos + chrom_offset: %s' % (bad, pos_ok))
        else:
            chk.ok('C04.mask', 'C04.mask:write_split_kmer', sp, "'N' iff is_ambiguous(base) && mask_ambig (4 rows); stored at mapped_pos + chrom_offset", evals=4)

    def go_fin():
        b = facts.fn(AW + '::finalise')
        eb = ExprBuilder(b)
        out_idx = facts.field_index(AW, 'seq_out')
        fc = [bb for bb, t in b.calls() if (t.callee.name or '') == AW + '::fill_contig']
        # writes through index_mut(&mut self.seq_out, i)
        writes = []
        for blk in b.blocks:
            if blk.idx not in b.live_blocks():
                continue
            for s in blk.stmts:
                if s.k == 'assign' and s.place.proj and s.place.proj[0]['k'] == 'deref' and len(s.place.proj) == 1:
                    src = eb.place(s.place)
                    tgt = eb.local_expr(s.place.local)
                    if tgt[0] == 'call' and tgt[1].endswith('index_mut') and any(x[0] == 'field' and x[2] == out_idx for x in subexprs(tgt)):
                        val = eb.rvalue(s.rv)
                        writes.append((blk.idx, val, s.span))
        mid = [w for w in writes if not (w[1][0] == 'const' and w[1][1] == 78)]
        rep = [w for w in writes if w[1][0] == 'const' and w[1][1] == 78]
        if len(mid) != 1 or len(rep) != 1 or not fc:
            raise AnchorLost('finalise: %d middle writes, %d repeat writes, %d fill_contig calls' % (len(mid), len(rep), len(fc)))
        order1 = all(f not in reachable_without(b, mid[0][0]) for f in fc)       # no fill_contig after a middle write
        order2 = mid[0][0] not in reachable_without(b, rep[0][0])                # no middle write after a repeat write
        order3 = rep[0][0] in reachable_without(b, mid[0][0]) or True
        # repeat write guarded by seq_out[i] != '-'
        g = [x for x in b.dominators()[rep[0][0]] if b.blocks[x].term.k == 'switch' and
             eb.operand(b.blocks[x].term.discr)[0] == 'bin' and eb.operand(b.blocks[x].term.discr)[1] in ('Ne', 'Eq')
             and eb.operand(b.blocks[x].term.discr)[3] == ('const', 45, 'u8')]
        guard_ok = False
        for x in g:
            t = b.blocks[x].term
            e = eb.operand(t.discr)
            ne_edge = t.otherwise if e[1] == 'Ne' else next(tg for v, tg in t.targets if v == 0)
            eq_edge = next(tg for v, tg in t.targets if v == 0) if e[1] == 'Ne' else t.otherwise
            heads = [bb for bb, c in b.calls() if (c.callee.name or '').endswith('::next') and b.in_cycle(bb)]
            if rep[0][0] in reachable_without(b, ne_edge, avoid_blocks=heads) and rep[0][0] not in reachable_without(b, eq_edge, avoid_blocks=heads) \
                    and any(y[0] == 'field' and y[2] == out_idx for y in subexprs(e)):
                guard_ok = True
        return order1, order2, guard_ok, mid[0][2], rep[0][2]
    r = chk.guard('C04.mask', 'C04.mask:finalise', go_fin)
    if r is not None:
        o1, o2, g, msp, rsp = r
        for nm, ok, sp, why in (('contigs-then-middle', o1, msp, 'all fill_contig calls precede the middle-base writes'),
                                ('middle-then-repeats', o2, rsp, 'middle-base writes precede the repeat mask'),
                                ('repeat-guard', g, rsp, "repeat positions become 'N' only where seq_out != '-'")):
            if ok:
                chk.ok('C04.mask', 'C04.mask:finalise:%s' % nm, sp, why)
            else:
                chk.violation('C04.mask', 'C04.mask:finalise:%s' % nm, where=sp, detail='violated: ' + why)


def check_flags(facts, chk, rule='C04.flags'):
    """no crate->crate call passes two same-typed, named arguments swapped relative to the callee's parameter names"""
    n = 0
    sw = 0
    for b in facts.bodies.values():
        if b.kind == 'Promoted':
            continue
        eb = None
        for bb, t in b.calls():
            if t.callee.krate != 'ska' or not t.callee.name:
                continue
            cs = facts.by_name.get(t.callee.name)
            if not cs or len(cs) != 1 or cs[0].kind == 'Closure':
                continue
            callee = cs[0]
            if callee.arg_count != len(t.args) or len(t.args) < 2:
                continue
            if eb is None:
                eb = ExprBuilder(b, through_vars=False)
            pn = [callee.local_names.get(i + 1) for i in range(callee.arg_count)]
            pt = [callee.local_ty(i + 1) for i in range(callee.arg_count)]
            an = []
            for a in t.args:
                e = eb.operand(a)
                an.append((_src_name(e, facts), e))
            n += 1
            for i in range(len(pn)):
                for j in range(i + 1, len(pn)):
                    if pt[i] != pt[j] or not pn[i] or not pn[j]:
                        continue
                    si, sj = an[i][0], an[j][0]
                    if si and sj and _nm(si) == _nm(pn[j]) and _nm(sj) == _nm(pn[i]) and _nm(si) != _nm(sj):
                        # equal constants are harmless
                        vi = _const_of(an[i][1], b)
                        vj = _const_of(an[j][1], b)
                        key = '%s:%s->%s:%s/%s' % (rule, _strip_generics(b.parent) if b.kind == 'Closure' else b.name, callee.name.split('::')[-1], pn[i], pn[j])
                        if vi is not None and vi == vj:
                            chk.ok(rule, key, t.span, 'names swapped but both are the constant %r' % (vi,), nontrivial=False)
                            continue
                        sw += 1
                        chk.violation(rule, key, where=t.span,
                                      detail='%s passes `%s` for parameter `%s` and `%s` for parameter `%s` of %s' % (b.name, si, pn[i], sj, pn[j], callee.name))
    chk.floor(rule, 'crate call sites examined', n, 100)
    if not sw:
        chk.ok(rule, rule + ':none-swapped', '', '%d crate call sites: no pair of same-typed named arguments is swapped' % n, evals=n)


def _nm(s):
    s = s.lower().lstrip('_')
    alias = {'mask_ambig': 'ambig_mask', 'mask_ambiguous': 'ambig_mask', 'no_gap_only_sites': 'ignore_const_gaps', 'filt_ambig': 'filter_ambiguous',
             'mask_repeats': 'repeat_mask'}
    return alias.get(s, s)


def _src_name(e, facts):
    x = e
    while x[0] in ('deref', 'ref', 'cast'):
        x = x[1]
    if x[0] in ('var', 'arg'):
        return x[2]
    if x[0] == 'upvar':
        return x[2].lstrip('*')
    if x[0] == 'field' and x[1][0] == 'downcast':
        # CLI field: (args.command as Variant).i
        try:
            v = facts.adt('cli::Commands')['variants'][x[1][2]]
            return v['fields'][x[2]]['name']
        except (KeyError, IndexError, AnchorLost):
            return None
    if x[0] == 'field':
        # struct field of self: name from ADT if resolvable is not needed here
        return None
    return None


def _const_of(e, body):
    x = e
    if x[0] == 'const':
        return x[1]
    if x[0] == 'var':
        ds = ExprBuilder(body, through_vars=True).local_expr(x[1])
        if ds[0] == 'const':
            return ds[1]
    return None


def check_len(facts, chk):
    def go():
        b = facts.fn(AW + '::new')
        eb = ExprBuilder(b)
        fe = [(bb, t) for bb, t in b.calls() if (t.callee.name or '') == 'std::vec::from_elem']
        if len(fe) != 1:
            raise AnchorLost('AlnWriter::new: %d vec![..] constructions' % len(fe))
        t = fe[0][1]
        fill = eb.operand(t.args[0])
        n = eb.operand(t.args[1])
        ok_fill = fill == ('const', 45, 'u8')
        ok_n = n[0] == 'call' and n[1].endswith('::sum') and any(x[0] == 'call' and x[1].endswith('::map') for x in subexprs(n)) and 'ref_seq' in show(n)
        cl = facts.closures_of(AW + '::new')
        ok_cl = False
        if len(cl) == 1:
            ce = ExprBuilder(cl[0]).local_expr(0)
            ok_cl = ce[0] == 'call' and ce[1].endswith('::len')      # the closure returns exactly len(x)
        pa = facts.fn(RS + '::pseudoalignment')
        ebp = ExprBuilder(pa)
        fe2 = [(bb, c) for bb, c in pa.calls() if (c.callee.name or '') == 'std::vec::from_elem']
        names_idx = facts.field_index(RS, 'mapped_names')
        ok_w = len(fe2) == 1 and any(x[0] == 'field' and x[2] == names_idx for x in subexprs(ebp.operand(fe2[0][1].args[1])))
        return ok_fill and ok_n and ok_cl, ok_w, t.span, show(n)[:100]
    r = chk.guard('C04.len', 'C04.len:AlnWriter::new', go)
    if r is not None:
        a, w, sp, n = r
        if a:
            chk.ok('C04.len', 'C04.len:AlnWriter::new', sp, "seq_out = vec!['-'; %s]" % n)
        else:
            chk.violation('C04.len', 'C04.len:AlnWriter::new', where=sp, detail="seq_out is not vec![b'-'; sum of contig lengths] (%s)" % n)
        if w:
            chk.ok('C04.len', 'C04.len:pseudoalignment', RS + '::pseudoalignment', 'one writer per mapped sample name')
        else:
            chk.violation('C04.len', 'C04.len:pseudoalignment', where=RS + '::pseudoalignment', detail='number of writers is not mapped_names.len()')


def check_writer(facts, chk, tier):
    """Small-scope abstract interpretation of the incremental writer (AlnWriter::new / write_split_kmer / finalise /
    get_seq) driven exactly as RefSka::pseudoalignment drives it: every subset of valid match centres on small
    references (1-3 contigs, including contigs shorter than k), distinct symbolic reference bytes per position,
    compared with the property's statement (matched centre -> sample base; within (k-1)/2 of a matched centre on the
    same contig -> reference byte; otherwise gap; then ambiguity / repeat masks).  Bounded: this decides the gap
    geometry only up to the sizes enumerated, which is stated in the evidence."""
    import itertools
    from ..absint.interp import Interp, Panic
    from ..absint.values import BV, Agg, RefV, Cell
    names = [f['name'] for f in facts.adt(AW)['variants'][0]['fields']]
    if 'seq_out' not in names:
        raise AnchorLost('AlnWriter has no seq_out field')
    shapes = {5: [(5,), (6,), (7,), (9,), (5, 7), (7, 5), (8, 8), (3, 7), (7, 3), (6, 2, 6)],
              7: [(7,), (9,), (11,), (9, 8), (4, 9, 8)]}
    if tier != 'thorough':
        shapes = {5: [(5,), (7,), (9,), (7, 5), (8, 8), (3, 7), (6, 2, 6)], 7: [(9,), (4, 9, 8)]}
    n_runs = 0
    bad = []
    for k, shs in shapes.items():
        h = (k - 1) // 2
        for lens in shs:
            centres = [(c, p) for c, L in enumerate(lens) for p in range(h, L - h)]
            total = sum(lens)
            offs = [sum(lens[:c]) for c in range(len(lens))]
            refbytes = [[128 + offs[c] + p for p in range(L)] for c, L in enumerate(lens)]
            if total > 120:
                raise AnchorLost('writer harness: reference too long for distinct symbols')
            variants = [(False, (), None)]
            if len(centres) >= 2:
                variants += [(True, (), centres[0]), (False, (), centres[-1]), (False, tuple(range(0, total, 3)), None)]
            for r in range(len(centres) + 1):
                for sub in itertools.combinations(centres, r):
                    for mask, repeats, amb_at in (variants if r in (len(centres), max(1, len(centres) // 2)) else variants[:1]):
                        I = Interp(facts)
                        refc = Cell(Agg('array', 0, [Agg('array', 0, [BV(8, b) for b in row]) for row in refbytes]), 'ref')
                        repc = Cell(Agg('array', 0, [BV(64, x) for x in repeats]), 'repeats')
                        try:
                            w = Cell(I.call_fn(AW + '::new', [RefV(refc), BV(64, k), RefV(repc), BV(1, int(mask))]), 'writer')
                            for (c, pp) in sub:
                                base = ord('R') if amb_at == (c, pp) else ord('A')
                                I.call_fn(AW + '::write_split_kmer', [RefV(w), BV(64, pp), BV(64, c), BV(8, base)])
                            I.call_fn(AW + '::finalise', [RefV(w)])
                            out = I.call_fn(AW + '::get_seq', [RefV(w)])
                            got = [x.val for x in I.load(out).fields]
                        except Panic as e:
                            got = 'panic: %s' % e
                        want = [45] * total
                        for (c, pp) in sub:
                            for q in range(max(0, pp - h), min(lens[c], pp + h + 1)):
                                want[offs[c] + q] = refbytes[c][q]
                        for (c, pp) in sub:
                            base = ord('R') if amb_at == (c, pp) else ord('A')
                            want[offs[c] + pp] = ord('N') if (base == ord('R') and mask) else base
                        for x in repeats:
                            if want[x] != 45:
                                want[x] = ord('N')
                        n_runs += 1
                        if got != want:
                            bad.append((k, lens, sub, mask, repeats, got, want))
                            if len(bad) > 3:
                                break
                    if len(bad) > 3:
                        break
                if len(bad) > 3:
                    break
    key = 'C04.writer:AlnWriter:small-scope'
    if bad:
        k, lens, sub, mask, repeats, got, want = bad[0]

        def render(v, lens=lens):
            if isinstance(v, str):
                return v
            return ''.join('-' if x == 45 else ('N' if x == 78 else ('A' if x == 65 else ('R' if x == 82 else 'r'))) for x in v)
        chk.violation('C04.writer', key, where=AW, evals=n_runs,
                      detail='k=%d contigs=%s matched centres (contig,pos)=%s mask_ambig=%s repeats=%s: writer gives %s, the property requires %s (r = reference base, A/R = sample base)'
                             % (k, lens, list(sub), mask, list(repeats), render(got), render(want)),
                      construct=dict(k=k, contig_lengths=lens, matches=list(sub)))
    else:
        chk.ok('C04.writer', key, AW, 'output = matched centres + reference flanks within (k-1)/2 + gaps, then masks, for all %d (reference shape, match subset, mask) configurations with k in {5,7}' % n_runs,
               evals=n_runs, sample=dict(shapes={str(k): v for k, v in shapes.items()}, runs=n_runs))


def check_refska_new(facts, chk, rule, tier):
    """RefSka::new over virtual reference FASTAs == specification: upper-cased contigs, contig names = first word of the
    id, one RefKmer (k-mer, middle base, middle position, contig, strand flag) per N-free window in contig/position order,
    and (repeat mask) exactly the absolute coordinates covered by windows of split k-mers occurring more than once."""
    import itertools
    from ..absint.interp import Interp, Panic, StrV
    from ..absint.values import BV, Agg, RefV, Cell
    from . import skiter
    rf = [f['name'] for f in facts.adt(RS)['variants'][0]['fields']]
    kf = [f['name'] for f in facts.adt('ska_ref::RefKmer')['variants'][0]['fields']]
    k = 5
    h = 2
    refs = [['ACCACAGTTACCAC', 'acgtnacgta'], ['ACCAC'], ['ACG', 'ACCACACCAC', 'GT'], ['AAAAAAAA'], ['ACCAGNNCCAGTA', 'TACTGG'],
            ['NACCAC', 'ACC', 'GTGGTN'], ['ACCACAC', 'N', 'CACAC']]
    if tier == 'thorough':
        refs += [[''.join(t), 'ACCAC'] for t in itertools.product('ACN', repeat=6)][::3]
    bad = []
    n = 0
    for contigs in refs:
        for rc in (0, 1):
            for rep in (0, 1):
                I = Interp(facts, {'IntT': 'u64'})
                I.files = {'ref': ('fasta', [('c%d some description' % i, s, None) for i, s in enumerate(contigs)])}
                n += 1
                want_k = []
                for c, s in enumerate(contigs):
                    for (v, m, flag, pos) in skiter.spec(s, k, rc):
                        want_k.append((v, m, pos, c, flag))
                try:
                    r = I.call_fn(RS + '::new', [BV(64, k), RefV(Cell(StrV(list('ref')), 'fn')), BV(1, rc), BV(1, 0), BV(1, rep)])
                except Panic as e:
                    if want_k:
                        bad.append((contigs, rc, rep, 'panic: %s' % e.kind))
                    continue
                if not want_k:
                    bad.append((contigs, rc, rep, 'accepted a reference without any split k-mer'))
                    continue
                out = dict(zip(rf, r.fields))
                got_k = [tuple(dict(zip(kf, x.fields))[f].val for f in ('kmer', 'base', 'pos', 'chrom', 'rc')) for x in out['split_kmer_pos'].fields]
                got_seq = [''.join(chr(b.val) for b in row.fields) for row in out['seq'].fields]
                got_names = [''.join(x.chars) for x in out['chrom_names'].fields]
                got_rep = [x.val for x in out['repeat_coors'].fields]
                offs = [sum(len(x) for x in contigs[:c]) for c in range(len(contigs))]
                cnt = {}
                for v, m, pos, c, flag in want_k:
                    cnt[v] = cnt.get(v, 0) + 1
                cover = set()
                if rep:
                    for v, m, pos, c, flag in want_k:
                        if cnt[v] > 1:
                            cover |= set(range(offs[c] + pos - h, offs[c] + pos + h + 1))
                why = None
                if got_k != want_k:
                    why = 'reference k-mers %s, specified %s' % (got_k[:4], want_k[:4])
                elif [x.upper() for x in got_seq] != [s.upper() for s in contigs]:        # where the case is normalised is free (C04.case / C04.e2e decide the output)
                    why = 'stored sequence %s' % got_seq
                elif got_names != ['c%d' % i for i in range(len(contigs))]:
                    why = 'contig names %s' % got_names
                elif got_rep != sorted(cover):
                    why = 'repeat coordinates %s, specified %s' % (got_rep, sorted(cover))
                if why:
                    bad.append((contigs, rc, rep, why))
    key = rule + ':RefSka::new'
    if bad:
        chk.violation(rule, key, where=RS + '::new', evals=n, detail='%d of %d references differ; first: contigs %s rc=%d repeat_mask=%d: %s' % ((len(bad), n) + bad[0]))
    else:
        chk.ok(rule, key, RS + '::new', 'k-mer list (value, base, position, contig, strand), upper-cased sequence, contig names and repeat-mask coordinates == specification on %d (reference, strand mode, repeat mask) cases' % n, evals=n)


def check_map(facts, chk, rule, tier):
    """RefSka::map interpreted on small references x dictionaries: one mapped row per reference k-mer found in the
    dictionary, in reference order, at (chrom, pos) of that k-mer, holding the dictionary's bases for every sample -
    complemented (IUPAC complement) iff the reference k-mer was stored reverse-complemented."""
    import itertools
    from ..absint.interp import Interp, Panic, Nd2, StrV, MapV
    from ..absint.values import BV, Agg, RefV, Cell, Opaque
    MSD = 'merge_ska_dict::MergeSkaDict'
    COMPL = dict(zip('ACGTRYKMSWBDHVN-', 'TGCAYRMKSWVHDBN-'))
    rf = [f['name'] for f in facts.adt(RS)['variants'][0]['fields']]
    kf = [f['name'] for f in facts.adt('ska_ref::RefKmer')['variants'][0]['fields']]
    df = [f['name'] for f in facts.adt(MSD)['variants'][0]['fields']]
    if sorted(kf) != ['base', 'chrom', 'kmer', 'pos', 'rc'] or sorted(df) != ['k', 'n_samples', 'names', 'rc', 'split_kmers']:
        raise AnchorLost('RefKmer fields %s / MergeSkaDict fields %s' % (kf, df))
    refk = [(11, 0, 2, 0), (12, 0, 3, 1), (13, 0, 5, 0), (11, 1, 2, 1), (14, 1, 4, 1)]      # (kmer, chrom, pos, rc); 11 occurs twice (repeat)
    rows_all = {11: 'AR', 12: 'C-', 13: 'YK', 14: 'GN', 15: 'TT'}
    bad = []
    n = 0
    keysets = [ks for m in range(0, 5) for ks in itertools.combinations(sorted(rows_all), m)]
    if tier != 'thorough':
        keysets = keysets[::2]
    for ks in keysets:
        for ns in (1, 2):
            m = MapV()
            for kk in ks:
                m.d[('bv', 64, kk)] = (BV(64, kk), Cell(Agg('array', 0, [BV(8, ord(c)) for c in rows_all[kk][:ns]]), 'row'))
            dv = dict(k=BV(64, 5), rc=BV(1, 1), n_samples=BV(64, ns), names=Agg('array', 0, [StrV(list('s%d' % i)) for i in range(ns)]), split_kmers=m)
            dc = Cell(Agg('adt:' + MSD, 0, [dv[f] for f in df]), 'dict')

            def rk(kmer, chrom, pos, rc):
                d = dict(kmer=BV(64, kmer), base=BV(8, 0), pos=BV(64, pos), chrom=BV(64, chrom), rc=BV(1, rc))
                return Agg('adt:ska_ref::RefKmer', 0, [d[f] for f in kf])
            rv = dict(k=BV(64, 5), split_kmer_pos=Agg('array', 0, [rk(*x) for x in refk]), mapped_pos=Agg('array', 0, []),
                      mapped_variants=Nd2([], 0), mapped_names=Agg('array', 0, []))
            me = Cell(Agg('adt:' + RS, 0, [rv.get(f, Opaque(f)) for f in rf]), 'refska')
            I = Interp(facts, {'IntT': 'u64'})
            n += 1
            try:
                I.call_fn(RS + '::map', [RefV(me), RefV(dc)])
            except Panic as e:
                bad.append((ks, ns, 'panic: %s' % e.kind))
                continue
            out = dict(zip(rf, me.v.fields))
            got_rows = [''.join(chr(x.val) for x in r) for r in out['mapped_variants'].rows]
            got_pos = [(t.fields[0].val, t.fields[1].val) for t in out['mapped_pos'].fields]
            got_names = [''.join(x.chars) for x in out['mapped_names'].fields]
            want_rows, want_pos = [], []
            for kmer, chrom, pos, rc in refk:
                if kmer in ks:
                    b = rows_all[kmer][:ns]
                    want_rows.append(''.join(COMPL[c] for c in b) if rc else b)
                    want_pos.append((chrom, pos))
            if (got_rows, got_pos, got_names) != (want_rows, want_pos, ['s%d' % i for i in range(ns)]):
                bad.append((ks, ns, 'rows %s at %s names %s; specified rows %s at %s' % (got_rows, got_pos, got_names, want_rows, want_pos)))
    key = rule + ':map'
    if bad:
        chk.violation(rule, key, where=RS + '::map', evals=n, detail='%d of %d cases differ; first: dictionary k-mers %s, %d sample(s): %s' % ((len(bad), n) + bad[0]))
    else:
        chk.ok(rule, key, RS + '::map', 'one row per reference k-mer present in the dictionary, in reference order, at its (contig, position), bases complemented iff stored reverse-complemented (%d dictionary subsets x sample counts)' % n, evals=n)


def check_pseudoalignment(facts, chk, rule, tier):
    """RefSka::pseudoalignment interpreted (rayon modelled sequentially in index order) on small mapped references: for
    every thread-count argument the writer returned at position s holds the alignment of sample s, i.e. column s of
    mapped_variants applied at mapped_pos, whatever chunking scheme hands the writers to the closures."""
    import itertools
    from ..absint.interp import Interp, Panic, Nd2, StrV
    from ..absint.values import BV, Agg, RefV, Cell, Opaque
    fields = [f['name'] for f in facts.adt(RS)['variants'][0]['fields']]
    need = {'k', 'seq', 'repeat_coors', 'ambig_mask', 'mapped_pos', 'mapped_variants', 'mapped_names'}
    if not need <= set(fields):
        raise AnchorLost('RefSka fields are %s' % fields)
    k = 5
    h = 2
    lens = (7, 6)
    offs = [0, 7]
    total = sum(lens)
    refbytes = [[128 + offs[c] + p for p in range(L)] for c, L in enumerate(lens)]
    pos = [(0, 2), (0, 4), (1, 2), (1, 3)]
    syms = 'ACGT-'
    bad = []
    n = 0
    max_s = 7 if tier == 'thorough' else 5
    for S in range(1, max_s + 1):
        # column s: bases chosen so that every sample differs (sample s lacks position s % 4, others rotate through ACGT)
        cols = []
        for s in range(S):
            cols.append([('-' if (i == s % 4 or (s >= 4 and i == (s + 1) % 4)) else syms[(i + s) % 4]) for i in range(len(pos))])
        rows = [[BV(8, ord(cols[s][i])) for s in range(S)] for i in range(len(pos))]
        for threads in ((1, 2, 3, 4, 8) if tier == 'thorough' else (1, 2, 3, 4)):
            vals = dict(k=BV(64, k), seq=Agg('array', 0, [Agg('array', 0, [BV(8, b) for b in row]) for row in refbytes]),
                        repeat_coors=Agg('array', 0, []), ambig_mask=BV(1, 0),
                        mapped_pos=Agg('array', 0, [Agg('tuple', 0, [BV(64, c), BV(64, p)]) for c, p in pos]),
                        mapped_variants=Nd2(rows, S), mapped_names=Agg('array', 0, [StrV(list('s%d' % s)) for s in range(S)]))
            me = Cell(Agg('adt:' + RS, 0, [vals.get(f, Opaque(f)) for f in fields]), 'refska')
            I = Interp(facts, {'IntT': 'u64'})
            n += 1
            try:
                ws = I.call_fn(RS + '::pseudoalignment', [RefV(me), BV(64, threads)])
                got = []
                for w in ws.fields:
                    wc = Cell(w, 'w')
                    out = I.call_fn(AW + '::get_seq', [RefV(wc)])
                    got.append([x.val for x in I.load(out).fields])
            except Panic as e:
                bad.append((S, threads, 'panic: %s' % e.kind, None))
                continue
            want = []
            for s in range(S):
                w_ = [45] * total
                for i, (c, p) in enumerate(pos):
                    if cols[s][i] != '-':
                        for q in range(max(0, p - h), min(lens[c], p + h + 1)):
                            w_[offs[c] + q] = refbytes[c][q]
                for i, (c, p) in enumerate(pos):
                    if cols[s][i] != '-':
                        w_[offs[c] + p] = ord(cols[s][i])
                want.append(w_)
            if got != want:
                wrong = [s for s in range(max(len(got), S)) if s >= len(got) or s >= S or got[s] != want[s]]
                bad.append((S, threads, 'samples %s do not receive their own column' % wrong, (got, want)))
    key = rule + ':pseudoalignment'
    if bad:
        S, threads, why, _ = bad[0]
        chk.violation(rule, key, where=RS + '::pseudoalignment', evals=n,
                      detail='%d of %d (samples, threads) cases differ; first: %d samples, threads=%d: %s' % (len(bad), n, S, threads, why))
    else:
        chk.ok(rule, key, RS + '::pseudoalignment',
               'writer s holds the alignment of column s of mapped_variants for 1..%d samples and every thread-count argument tried (%d cases; rayon modelled as an index-ordered sequential schedule)' % (max_s, n), evals=n)


def run(facts, chk, tier, only=None):
    from . import cli_e2e
    # the subcommand through ska::main() itself (argument parser replaced by a constructed Args value): hand-over of CLI values, width dispatch
    chk.guard('C04.cli', 'C04.cli:run0', lambda: cli_e2e.check_map(facts, chk, 'C04.cli', tier, 'Aln'))
    from . import cli_more
    chk.guard('C04.cli', 'C04.cli:run1', lambda: cli_more.check_seq_inputs(facts, chk, 'C04.cli', tier, 'map'))
    chk.guard('C04.writer', 'C04.writer:run', lambda: check_writer(facts, chk, tier))
    chk.guard('C04.map', 'C04.map:run', lambda: check_pseudoalignment(facts, chk, 'C04.map', tier))
    chk.guard('C04.map', 'C04.map:run2', lambda: check_map(facts, chk, 'C04.map', tier))
    chk.guard('C04.ref', 'C04.ref:run', lambda: check_refska_new(facts, chk, 'C04.ref', tier))
    from . import e2e
    chk.guard('C04.e2e', 'C04.e2e:run', lambda: e2e.check_map_e2e(facts, chk, 'C04.e2e', tier))
    chk.guard('C04.case', 'C04.case:run', lambda: check_case(facts, chk))
    chk.guard('C04.prefix', 'C04.prefix:run', lambda: check_prefix(facts, chk))
    chk.guard('C04.strand', 'C04.strand:run', lambda: check_strand(facts, chk))
    chk.guard('C04.mask', 'C04.mask:run', lambda: check_mask(facts, chk))
    chk.guard('C04.flags', 'C04.flags:run', lambda: check_flags(facts, chk))
    chk.guard('C04.len', 'C04.len:run', lambda: check_len(facts, chk))
    from . import c01
    # the reference k-mer list comes from the shared SplitKmer iterator: its end-of-record guards must be tight
    chk.guard('C04.window', 'C04.window:run', lambda: c01.check_guards(facts, chk, 'C04.window'))
