"""Functional small-scope verification of the split k-mer iterator (SplitKmer::new / get_curr_kmer / get_next_kmer /
get_middle_pos / middle_base_qual / self_palindrome) by abstract interpretation of its MIR.

For every sequence over a small alphabet up to a length bound (and, for reads, every assignment of low/high quality to
its positions) the list of (split k-mer, middle base, strand flag, middle position[, middle-quality verdict]) produced by
the interpreted iterator is compared with the window specification written from the property text:

    one item per window of k consecutive positions that holds no N (and, under the strict quality filter, no position
    below the minimum quality), in order; arms packed base-4 (A=0 C=1 T=2 G=3) first base most significant; with strands
    merged the numerically smaller of the window and its reverse complement, with that strand's middle base.

Shared by C01.func (contigs), C12.func (reads + quality), C16.func (N skipping on the 128-bit path), C02.func (strand
symmetry of the emitted multiset).  Bounded, and says so; insensitive to how build/roll_fwd are written.
"""
import itertools
from ..facts import AnchorLost
from ..absint.interp import Interp, Panic, NONE, some
from ..absint.values import BV, Agg, RefV, Cell

SK = 'ska_dict::split_kmer::SplitKmer::'
ENC = {'A': 0, 'C': 1, 'T': 2, 'G': 3}
COMP = {'A': 'T', 'C': 'G', 'G': 'C', 'T': 'A'}


def pack(arms):
    v = 0
    for c in arms:
        v = v * 4 + ENC[c.upper()]
    return v


def spec(s, k, rc, bad=()):
    """bad: positions that invalidate a window (N is detected from s itself)"""
    h = (k - 1) // 2
    out = []
    S = s.upper()
    for i in range(len(S) - k + 1):
        w = S[i:i + k]
        if 'N' in w or any(i <= b < i + k for b in bad):
            continue
        v = pack(w[:h] + w[h + 1:])
        item = (v, ENC[w[h]], 0, i + h)
        if rc:
            r = ''.join(COMP[c] for c in reversed(w))
            rv = pack(r[:h] + r[h + 1:])
            if v > rv:
                item = (rv, ENC[r[h]], 1, i + h)
        out.append(item)
    return out


def _qf(facts, name):
    return Agg('adt:QualFilter', facts.variant_index('QualFilter', name), [])


def run_iter(facts, s, k, rc, width='u64', qual=None, min_qual=20, qfilter='NoFilter', is_reads=0, with_midq=False):
    I = Interp(facts, {'IntT': width})
    L = len(s)
    cell = Cell(Agg('array', 0, [BV(8, ord(c)) for c in s]), 'seq')
    seq = Agg('cow', 0, [RefV(cell, (), (0, L))])
    if qual is None:
        q = NONE
    else:
        qc = Cell(Agg('array', 0, [BV(8, x) for x in qual]), 'qual')
        q = some(RefV(qc, (), (0, L)))
    r = I.call_fn(SK + 'new', [seq, BV(64, L), q, BV(64, k), BV(1, rc), BV(8, min_qual), _qf(facts, qfilter), BV(1, is_reads)])
    out = []
    if r.variant != 1:
        return out
    skc = Cell(r.fields[0], 'sk')
    c = I.call_fn(SK + 'get_curr_kmer', [RefV(skc)])
    for _ in range(L + 2):
        mp = I.call_fn(SK + 'get_middle_pos', [RefV(skc)]).val
        item = (c.fields[0].val, c.fields[1].val, c.fields[2].val, mp)
        if with_midq:
            item += (I.call_fn(SK + 'middle_base_qual', [RefV(skc)]).val,)
        out.append(item)
        n = I.call_fn(SK + 'get_next_kmer', [RefV(skc)])
        if n.variant != 1:
            return out
        c = n.fields[0]
    raise AnchorLost('iterator did not terminate on a %d-base sequence' % L)


def _families(tier):
    # (k, alphabet, max length, widths)
    fam = [(5, 'ACN', 6, ('u64',)), (5, 'ACGT', 5, ('u64',)), (5, 'GTN', 5, ('u128',))]
    if tier == 'thorough':
        fam = [(5, 'ACGTN', 6, ('u64',)), (5, 'ACN', 8, ('u128',)), (7, 'AGN', 9, ('u64',)), (5, 'acgtn', 5, ('u64',)), (5, 'ACGT', 5, ('u128',))]
    return fam


def check_contigs(facts, chk, rule, tier):
    """contigs (no quality): every sequence of the family, both strand modes"""
    key = '%s:iterator' % rule
    bad = []
    n = 0
    nw = 0
    for k, alpha, maxl, widths in _families(tier):
        for L in range(0, maxl + 1):
            for t in itertools.product(alpha, repeat=L):
                s = ''.join(t)
                for rc in (0, 1):
                    want = spec(s, k, rc)
                    for w in widths:
                        n += 1
                        nw += len(want)
                        try:
                            got = run_iter(facts, s, k, rc, w)
                        except Panic as p:
                            got = 'panic: %s' % p.kind
                        if got != want:
                            bad.append((s, k, rc, w, got, want))
                if len(bad) > 20:
                    break
    # mixed case and a sample of ambiguity-free lower-case input (C02.case)
    for s in ('acgtACGTn', 'NNacgtaN', 'AcGtAcG'):
        for rc in (0, 1):
            n += 1
            got = run_iter(facts, s, 5, rc)
            if got != spec(s, 5, rc):
                bad.append((s, 5, rc, 'u64', got, spec(s, 5, rc)))
    if bad:
        s, k, rc, w, got, want = bad[0]
        chk.violation(rule, key, where=SK + 'new / get_next_kmer', evals=n,
                      detail='%d of %d sequences differ; first: seq=%r k=%d rc=%d %s: iterator gives %s, windows without N are %s' % (len(bad), n, s, k, rc, w, str(got)[:160], str(want)[:160]))
    else:
        chk.ok(rule, key, SK + 'new / get_next_kmer',
               'iterator == window specification (k-mer value, middle base, strand flag, middle position, in order) for %d (sequence, strand mode, width) cases, %d windows: %s'
               % (n, nw, '; '.join('k=%d over %s up to length %d (%s)' % (k, a, m, '/'.join(w)) for k, a, m, w in _families(tier))), evals=n)
    return n


def check_reads(facts, chk, rule, tier):
    """reads: every low/high quality assignment, the three quality filters, min_qual boundary"""
    key = '%s:iterator-quality' % rule
    bad = []
    n = 0
    k = 5
    seqs = ['ACCAGT', 'ANCAGTC'] if tier != 'thorough' else ['ACCAGTC', 'ACNAGTCA', 'TTGACCAGT']
    MQ = 20
    levels = (33 + MQ - 1, 33 + MQ)          # just below / exactly at the minimum: "at least" is the property's wording
    for s in seqs:
        L = len(s)
        for qmask in itertools.product((0, 1), repeat=L):
            qual = [levels[b] for b in qmask]
            low = [i for i, b in enumerate(qmask) if not b]
            for qf in ('NoFilter', 'Middle', 'Strict'):
                for rc in (0, 1):
                    n += 1
                    h = (k - 1) // 2
                    if qf == 'Strict':
                        want = [it + (1,) for it in spec(s, k, rc, bad=low)]
                    elif qf == 'Middle':
                        want = [it + (0 if it[3] in low else 1,) for it in spec(s, k, rc)]
                    else:
                        want = [it + (1,) for it in spec(s, k, rc)]
                    try:
                        got = run_iter(facts, s, k, rc, qual=qual, min_qual=MQ, qfilter=qf, is_reads=0, with_midq=True)
                    except Panic as p:
                        got = 'panic: %s' % p.kind
                    if got != want:
                        bad.append((s, ''.join('h' if b else 'l' for b in qmask), qf, rc, got, want))
    # no quality string at all: every filter behaves as NoFilter
    for qf in ('NoFilter', 'Middle', 'Strict'):
        n += 1
        got = run_iter(facts, 'ACCAGTC', k, 1, qual=None, qfilter=qf, with_midq=True)
        want = [it + (1,) for it in spec('ACCAGTC', k, 1)]
        if got != want:
            bad.append(('ACCAGTC', '(none)', qf, 1, got, want))
    if bad:
        s, qs, qf, rc, got, want = bad[0]
        chk.violation(rule, key, where=SK + 'new / get_next_kmer / middle_base_qual', evals=n,
                      detail='%d of %d cases differ; first: seq=%r quality=%s (l = min_qual-1, h = min_qual) filter=%s rc=%d: iterator gives %s, specified %s'
                             % (len(bad), n, s, qs, qf, rc, str(got)[:150], str(want)[:150]))
    else:
        chk.ok(rule, key, SK + 'new / get_next_kmer / middle_base_qual',
               'reads: for every low/high quality assignment (PHRED min_qual-1 / min_qual) of %d sequences x 3 filters x 2 strand modes the iterator emits exactly the windows the filter '
               'allows (strict: no position below the minimum; middle: verdict of the middle base reported by middle_base_qual) (%d cases)' % (len(seqs), n), evals=n)
    return n


def check_strand_symmetry(facts, chk, rule, tier):
    """with strands merged, a sequence and its reverse complement emit the same multiset of (k-mer, middle base) - except
    self-reverse-complement windows, which tie and are handled by the palindrome table"""
    key = '%s:strand-symmetry' % rule
    bad = []
    n = 0
    k = 5
    alpha, maxl = ('ACGT', 5) if tier != 'thorough' else ('ACGT', 7)
    for L in range(k, maxl + 1):
        for t in itertools.product(alpha, repeat=L):
            s = ''.join(t)
            r = ''.join(COMP[c] for c in reversed(s))
            if r < s:
                continue
            n += 1
            a = run_iter(facts, s, k, 1)
            b = run_iter(facts, r, k, 1)
            h = (k - 1) // 2

            def norm(items, seq):
                out = []
                for (v, m, f, p) in items:
                    w = seq[p - h:p + h + 1]
                    rw = ''.join(COMP[c] for c in reversed(w))
                    pal = (w[:h] + w[h + 1:]) == (rw[:h] + rw[h + 1:])
                    out.append((v, None if pal else m))
                return sorted(out, key=lambda x: (x[0], -1 if x[1] is None else x[1]))
            if norm(a, s) != norm(b, r):
                bad.append((s, a, b))
    if bad:
        chk.violation(rule, key, where=SK + 'get_curr_kmer', evals=n, detail='sequence %r and its reverse complement emit different (k-mer, base) multisets: %s vs %s' % (bad[0][0], str(bad[0][1])[:120], str(bad[0][2])[:120]))
    else:
        chk.ok(rule, key, SK + 'get_curr_kmer', 'a sequence and its reverse complement emit the same multiset of (k-mer, middle base) for all %d sequences over ACGT of length %d..%d (ties = self-palindromes excepted)' % (n, k, maxl), evals=n)


# ------------------------------------------------------------------ the whole sample dictionary (SkaDict::new over virtual files)
SD = 'ska_dict::SkaDict'
IUPAC_CODE = {frozenset('A'): 'A', frozenset('C'): 'C', frozenset('G'): 'G', frozenset('T'): 'T', frozenset('AG'): 'R', frozenset('CT'): 'Y',
              frozenset('CG'): 'S', frozenset('AT'): 'W', frozenset('GT'): 'K', frozenset('AC'): 'M', frozenset('CGT'): 'B', frozenset('AGT'): 'D',
              frozenset('ACT'): 'H', frozenset('ACG'): 'V', frozenset('ACGT'): 'N'}
DEC = 'ACTG'


def spec_dict(records, k, rc, min_count=1, qual_filter='NoFilter', min_qual=0):
    """records: [(seq, qual|None)].  -> {split k-mer: IUPAC code of the middle bases observed}; for reads an observation
    counts only if it passes the quality rule, and a (split k-mer, middle base) combination is recorded from the min_count-th
    counted observation of its full k-mer (or its reverse complement) on"""
    h = (k - 1) // 2
    seen = {}
    cnt = {}
    for seq, qual in records:
        S = seq.upper()
        low = [i for i, q in enumerate(qual or []) if q - 33 < min_qual]
        for (v, m, flag, pos) in spec(seq, k, rc, bad=low if qual_filter == 'Strict' else ()):
            if qual is not None and qual_filter == 'Middle' and pos in low:
                continue
            w = S[pos - h:pos + h + 1]
            rw = ''.join(COMP[c] for c in reversed(w))
            pal = rc and (w[:h] + w[h + 1:]) == (rw[:h] + rw[h + 1:])
            bases = {DEC[m]}
            if pal:
                bases.add(COMP[DEC[m]])
            if qual is not None and min_count > 1:
                # the count is per full k-mer (arms and middle base) together with its reverse complement: per (split k-mer, middle
                # base) in canonical form, the two complementary middle bases of a self-reverse-complement pair of arms counted together
                ck = (v, frozenset(bases))
                cnt[ck] = cnt.get(ck, 0) + 1
                if cnt[ck] < min_count:
                    continue
            seen.setdefault(v, set()).update(bases)
    return {v: IUPAC_CODE[frozenset(b)] for v, b in seen.items()}


def run_dict(facts, files, k, rc, second=False, min_count=1, qual_filter='NoFilter', min_qual=0, width='u64'):
    from ..absint.interp import StrV, MapV
    from ..absint.values import Opaque
    I = Interp(facts, {'IntT': width})
    I.files = files
    qf = facts.adt('cli::QualOpts') if 'cli::QualOpts' in facts.adts else None
    qnames = [f['name'] for f in facts.adt([a for a in facts.adts if a.endswith('QualOpts')][0])['variants'][0]['fields']]
    qvals = dict(min_count=BV(16, min_count), min_qual=BV(8, min_qual), qual_filter=_qf(facts, qual_filter))
    qo = Cell(Agg('adt:QualOpts', 0, [qvals[n] for n in qnames]), 'qualopts')
    f1 = RefV(Cell(StrV(list('f1')), 'f1'))
    f2 = some(RefV(Cell(StrV(list('f2')), 'f2'))) if second else NONE
    r = I.call_fn(SD + '::new', [BV(64, k), BV(64, 0), Agg('tuple', 0, [f1, f2]), RefV(Cell(StrV(list('name')), 'nm')), BV(1, rc), RefV(qo), NONE])
    names = [f['name'] for f in facts.adt(SD)['variants'][0]['fields']]
    m = dict(zip(names, r.fields))['split_kmers']
    return {kv.val: chr(cell.v.val) for key, (kv, cell) in m.d.items()}


def check_dict(facts, chk, rule, tier):
    """SkaDict::new over virtual FASTA files == IUPAC-merged window specification, for all small multi-record files"""
    key = rule + ':dictionary'
    bad = []
    n = 0
    k = 5
    alpha = 'ACN'
    import itertools
    maxl = 6 if tier != 'thorough' else 7
    # two-record files: every pair (s1, s2) with |s1| + |s2| <= maxl + 3 is too many; take s1 over the alphabet up to maxl and a fixed partner set
    partners = ['', 'ACCAC', 'CCACA', 'CANCACC', 'AAAAA', 'GTGGT']
    for L in range(0, maxl + 1):
        for ti, t in enumerate(itertools.product(alpha, repeat=L)):
            s1 = ''.join(t)
            if tier != 'thorough' and L == 6 and ti % 6 and 'N' in s1:
                continue          # quick tier: the N-free length-6 sequences (two overlapping windows: same arms, different middle bases ..) all run, the others thinned
            for s2 in ((partners if tier == 'thorough' else partners[1:4]) if L >= 5 else partners[:2]):
                for rc in (0, 1):
                    recs = [(s1, None)] + ([(s2, None)] if s2 else [])
                    want = spec_dict(recs, k, rc)
                    files = {'f1': ('fasta', [('r%d' % i, s, None) for i, (s, _) in enumerate(recs)])}
                    n += 1
                    try:
                        got = run_dict(facts, files, k, rc)
                    except Panic as p:
                        got = 'panic:%s' % p.kind if want else {}
                        if not want and p.kind not in ('panic_fmt', 'panic'):
                            got = 'panic:%s' % p.kind
                    if got != want:
                        bad.append((recs, rc, got, want))
            if len(bad) > 10:
                break
    if bad:
        recs, rc, got, want = bad[0]
        chk.violation(rule, key, where=SD + '::new', evals=n, detail='%d of %d files differ; first: records %s rc=%d: dictionary %s, specified %s' % (len(bad), n, [r[0] for r in recs], rc, str(got)[:200], str(want)[:200]))
    else:
        chk.ok(rule, key, SD + '::new', 'dictionary built from a virtual FASTA == IUPAC union of the middle bases over all N-free windows of all records (self-complementary arms add the complement) for %d files (records over %s up to length %d, with partner records, both strand modes)' % (n, alpha, maxl), evals=n)


def check_dict_reads(facts, chk, rule, tier):
    """SkaDict::new over virtual FASTQ pairs: a split k-mer is in the dictionary iff it is observed (either strand, both
    files) at least min_count times with a passing middle base; min_count 1..3, the three quality filters, qualities at
    min_qual-1 / min_qual.  (Hash collisions of the counting filter cannot occur on these inputs: asserted by comparing with
    the collision-free specification.)"""
    key = rule + ':dictionary-reads'
    bad = []
    n = 0
    k = 5
    MQ = 20
    lo, hi = 33 + MQ - 1, 33 + MQ
    reads1 = ['ACCACAG', 'CCACAGT', 'GNTTGACCAC', 'TTGACCA']     # third read: windows after an N that recur in other reads
    reads2 = ['CTGTGGT', 'ACCACTG', 'ACNACAG', 'ACTAC']          # first = reverse complement of a read in file 1; last: arms seen three times with middle C, once with T
    import itertools
    qpats = [None, 'allhi', 'mid-low', 'one-low']
    for mc in (1, 2, 3):
        for qf in ('NoFilter', 'Middle', 'Strict'):
            for qp in qpats[1:]:
                for rc in (0, 1):
                    def qual(i, s):
                        q = [hi] * len(s)
                        if qp == 'mid-low' and i % 2 == 0:
                            q[2] = lo
                        if qp == 'one-low' and i % 2 == 1:
                            q[len(s) - 2] = lo
                        return q
                    f1 = [('r%d' % i, s, qual(i, s)) for i, s in enumerate(reads1)]
                    f2 = [('m%d' % i, s, qual(i + 1, s)) for i, s in enumerate(reads2)]
                    files = {'f1': ('fastq', f1), 'f2': ('fastq', f2)}
                    want = spec_dict([(s, q) for _, s, q in f1 + f2], k, rc, min_count=mc, qual_filter=qf, min_qual=MQ)
                    n += 1
                    try:
                        got = run_dict(facts, files, k, rc, second=True, min_count=mc, qual_filter=qf, min_qual=MQ)
                    except Panic as p:
                        got = {} if (not want and p.kind in ('panic_fmt', 'panic')) else 'panic:%s' % p.kind
                    if got != want:
                        bad.append((mc, qf, qp, rc, got, want))
    if bad:
        mc, qf, qp, rc, got, want = bad[0]
        missing = sorted(set(want) - set(got)) if isinstance(got, dict) else []
        extra = sorted(set(got) - set(want)) if isinstance(got, dict) else []
        chk.violation(rule, key, where=SD + '::new', evals=n,
                      detail='%d of %d cases differ; first: min_count=%d filter=%s quality pattern=%s rc=%d: missing k-mers %s, unexpected %s, dictionary %s specified %s'
                             % (len(bad), n, mc, qf, qp, rc, missing[:4], extra[:4], str(got)[:120], str(want)[:120]))
    else:
        chk.ok(rule, key, SD + '::new', 'read pairs: k-mer kept iff counted (passing middle base; strict: whole window) observations over both files and strands reach min_count; '
               'bases recorded from the min_count-th observation on; min_count 1..3 x 3 filters x 3 quality patterns x 2 strand modes (%d cases)' % n, evals=n)


def _run_dict_or_panic(*a, **kw):
    """run_dict, with an abort of the build (e.g. "has no valid sequence") as a value: the invariance rules compare outcomes"""
    try:
        return run_dict(*a, **kw)
    except Panic as p:
        return 'build aborts (%s)' % p.kind


def check_dict_invariance(facts, chk, rule, tier):
    """the dictionary of a sample is unchanged by record order, letter case, and (strands merged) reverse-complementing any
    record; and equals the specification - on files of 2-3 records over ACGT/N"""
    import itertools
    key = rule + ':invariance'
    bad = []
    n = 0
    k = 5
    base_files = [['ACCAGTCA', 'GGTNACCAG', 'TTGAC'], ['AAAAAA', 'TTTTT', 'ACGTA'], ['GATTACA', 'TGTAATC'], ['ACNNACGTTG', 'CAACG'],
                  ['ACCGT', 'ACAGT'], ['ACAGT', 'ACGGT', 'ACCGT'], ['GACGTCA', 'GAAGTC', 'ACTGT'],      # self-reverse-complement arms seen with middle bases of different classes
                  ['ACCAGTCA', 'ACG', 'TTGACCA'], ['GT', 'GGTNACCAG', 'NNNN', 'CCAGTT']]                 # records shorter than k / without any window between the others
    if tier == 'thorough':
        base_files += [['ACGTACGTAC', 'GTACG', 'CCCCCG'], ['AGAGAGA', 'TCTCT', 'GANTC']]

    def rcs(s):
        return ''.join({'A': 'T', 'C': 'G', 'G': 'C', 'T': 'A', 'N': 'N'}[c] for c in reversed(s))
    for recs in base_files:
        for rc in (0, 1):
            ref = _run_dict_or_panic(facts, {'f1': ('fasta', [('r%d' % i, s, None) for i, s in enumerate(recs)])}, k, rc)
            n += 1
            if ref != spec_dict([(s, None) for s in recs], k, rc):
                bad.append((recs, rc, 'differs from the specification', ref))
            variants = [('order', list(p)) for p in itertools.permutations(recs)][1:]
            variants.append(('case', [s.lower() if i % 2 == 0 else s for i, s in enumerate(recs)]))
            variants.append(('two files', None))
            if rc:
                for m in range(1, 1 << len(recs)):
                    variants.append(('strand', [rcs(s) if (m >> i) & 1 else s for i, s in enumerate(recs)]))
            for what, v in variants:
                n += 1
                if what == 'two files':
                    got = _run_dict_or_panic(facts, {'f1': ('fasta', [('a', recs[0], None)]), 'f2': ('fasta', [('r%d' % i, s, None) for i, s in enumerate(recs[1:])])}, k, rc, second=True)
                else:
                    got = _run_dict_or_panic(facts, {'f1': ('fasta', [('r%d' % i, s, None) for i, s in enumerate(v)])}, k, rc)
                if got != ref:
                    bad.append((recs, rc, what + ' changed the dictionary: %s' % v, got))
    if bad:
        recs, rc, why, got = bad[0]
        chk.violation(rule, key, where=SD + '::new', evals=n, detail='%d of %d cases; first: records %s rc=%d: %s' % (len(bad), n, recs, rc, why[:300]))
    else:
        chk.ok(rule, key, SD + '::new', 'dictionary invariant under record order, letter case, splitting over two files and (strands merged) reverse-complementing any subset of records; %d builds over %d base files' % (n, len(base_files)), evals=n)


def check_cov_counts(facts, chk, rule, tier):
    """CoverageHistogram::new over virtual FASTQ pairs: kmer_dict[k-mer] = number of N-free windows (strands merged unless
    single-strand) carrying that split k-mer over both files; quality is ignored; a FASTA input is refused"""
    from ..absint.interp import StrV
    CH = 'coverage::CoverageHistogram'
    key = rule + ':counts'
    names = [f['name'] for f in facts.adt(CH)['variants'][0]['fields']]
    bad = []
    n = 0
    k = 5
    cases = [(['ACCACAG', 'CCACAGT', 'GNTTGACCAC'], ['CTGTGGT', 'ACCACTG']),
             (['AAAAAAA'], ['TTTTTT', 'AANAAAAA']),
             (['ACGTACG', 'NNNNN', 'ACG'], ['CGTACGT']),
             (['GATTACAGATTACA'], ['TGTAATCTGTAATC', 'GATTACA']),
             # reads without any N-free window (too short, N-ridden) at the start and in the middle of a file: the reads after them still count
             (['ACCAC', 'NNANN', 'ACG', 'CCACAGT', 'ACNAC', 'ACCACAG'], ['TTG', 'GTGGTAC', 'CTGTGGT'])]
    if tier == 'thorough':
        import itertools
        cases += [([''.join(t)], ['ACCAC']) for t in itertools.product('ACN', repeat=6)]
    for f1, f2 in cases:
        for rc in (0, 1):
            I = Interp(facts, {'IntT': 'u64'})
            q = lambda s: [33 + 2] * len(s)            # poor qualities: must not matter
            I.files = {'f1': ('fastq', [('r%d' % i, s, q(s)) for i, s in enumerate(f1)]), 'f2': ('fastq', [('m%d' % i, s, q(s)) for i, s in enumerate(f2)])}
            n += 1
            try:
                r = I.call_fn(CH + '::new', [RefV(Cell(StrV(list('f1')), 'a')), RefV(Cell(StrV(list('f2')), 'b')), BV(64, k), BV(1, rc), BV(1, 0)])
            except Panic as p:
                bad.append((f1, f2, rc, 'panic: %s' % p.kind, None))
                continue
            m = dict(zip(names, r.fields))['kmer_dict']
            got = {kv.val: cell.v.val for _, (kv, cell) in m.d.items()}
            want = {}
            for s in f1 + f2:
                for (v, mid, flag, pos) in spec(s, k, rc):
                    want[v] = want.get(v, 0) + 1
            if got != want:
                bad.append((f1, f2, rc, got, want))
    # refusal of FASTA input
    I = Interp(facts, {'IntT': 'u64'})
    I.files = {'f1': ('fastq', [('r', 'ACCACAG', [40] * 7)]), 'f2': ('fasta', [('r', 'ACCACAG', None)])}
    n += 1
    try:
        I.call_fn(CH + '::new', [RefV(Cell(StrV(list('f1')), 'a')), RefV(Cell(StrV(list('f2')), 'b')), BV(64, k), BV(1, 1), BV(1, 0)])
        bad.append((['fastq'], ['fasta'], 1, 'accepted a FASTA file', 'refusal'))
    except Panic:
        pass
    if bad:
        f1, f2, rc, got, want = bad[0]
        chk.violation(rule, key, where=CH + '::new', evals=n, detail='%d of %d cases; first: files %s / %s rc=%d: counts %s, specified %s' % (len(bad), n, f1, f2, rc, str(got)[:200], str(want)[:200]))
    else:
        chk.ok(rule, key, CH + '::new', 'kmer_dict == exact window multiplicities over both files (strand mode respected, quality ignored, FASTA refused) on %d read-pair sets' % n, evals=n)
