"""C19 - a damaged .skf is rejected, never read as different data.

Detection of truncation / bit flips is the snappy frame CRC and ciborium's typed decode (library,
trusted): not decided.  Decided: the repository's side - nothing in the crate bypasses, weakens or
swallows that detection.
  C19.stack   save = into_writer(self, FrameEncoder(BufWriter(File::create))), load mirrors it;
              no other (de)serialiser call sites in the crate
  C19.errors  in the deserialising function every fallible call's Err reaches the function's Err return
  C19.arms    in main no arm proceeds after both width attempts fail (shared with C09.arms)
  C19.inplace delete / weed call save as their last effect on the table
"""
from ..facts import AnchorLost
from ..expr import ExprBuilder, show, subexprs
from .util import calls_named, reachable_without, can_return_from

EXPLANATION = ('Type-resolved call-chain and error-flow rules over MergeSkaArray::save/load, generic_modes::{delete,weed,'
               'merge,save_skf} and main; decides that the crate cannot bypass or swallow the libraries\' corruption detection.')
ASSUMPTIONS = ['snap frame CRC32C and ciborium typed decode detect truncation and bit flips (library code, trusted)']
MSA = 'merge_ska_array::MergeSkaArray'


def _contains_call(e, part):
    return any(x[0] == 'call' and part in x[1] for x in subexprs(e))


def check_stack(facts, chk, rule='C19.stack'):
    save = facts.fn(MSA + '::save')
    load = facts.fn(MSA + '::load')
    # writer stack
    def wr():
        eb = ExprBuilder(save, through_mut_borrow=True)
        cs = [(bb, t) for bb, t in save.calls() if (t.callee.name or '').startswith('ciborium') and 'into_writer' in t.callee.name]
        if len(cs) != 1:
            raise AnchorLost('save: %d ciborium into_writer calls' % len(cs))
        bb, t = cs[0]
        w = eb.operand(t.args[1])
        chain = ['snap::write::FrameEncoder', 'std::io::BufWriter', 'std::fs::File::create']
        missing = [c for c in chain if not _contains_call(w, c)]
        return t, w, missing
    r = chk.guard(rule, rule + ':save', wr)
    if r:
        t, w, missing = r
        if missing:
            chk.violation(rule, rule + ':save', where=t.span, detail='writer passed to into_writer lacks %s: %s' % (missing, show(w)))
        else:
            chk.ok(rule, rule + ':save', t.span, 'into_writer(self, FrameEncoder(BufWriter(File::create)))',
                   sample=dict(site=t.span, writer=show(w)[:200]))

    def rd():
        eb = ExprBuilder(load)
        cs = [(bb, t) for bb, t in load.calls() if (t.callee.name or '').startswith('ciborium') and 'from_reader' in t.callee.name]
        if len(cs) != 1:
            raise AnchorLost('load: %d ciborium from_reader calls' % len(cs))
        bb, t = cs[0]
        w = eb.operand(t.args[0])
        chain = ['snap::read::FrameDecoder', 'std::io::BufReader', 'std::fs::File::open']
        missing = [c for c in chain if not _contains_call(w, c)]
        return t, w, missing
    r = chk.guard(rule, rule + ':load', rd)
    if r:
        t, w, missing = r
        if missing:
            chk.violation(rule, rule + ':load', where=t.span, detail='reader passed to from_reader lacks %s: %s' % (missing, show(w)))
        else:
            chk.ok(rule, rule + ':load', t.span, 'from_reader(FrameDecoder(BufReader(File::open)))',
                   sample=dict(site=t.span, reader=show(w)[:200]))
    # who may call: ciborium / snap / flate2 raw (de)serialisers only in save/load
    sites = []
    for b in facts.bodies.values():
        if b.kind == 'Promoted':
            continue
        for bb, t in b.calls():
            n = t.callee.name or ''
            if n.startswith('ciborium') or n.startswith('snap::'):
                sites.append((b.name, n, t.span))
    stray = [s for s in sites if s[0] not in (MSA + '::save', MSA + '::load')]
    if stray:
        chk.violation(rule, rule + ':who-may-call', where=stray[0][2],
                      detail='(de)serialiser call outside MergeSkaArray::save/load: %s calls %s' % (stray[0][0], stray[0][1]))
    else:
        chk.ok(rule, rule + ':who-may-call', '', '%d ciborium/snap call sites, all in save/load' % len(sites), evals=len(sites))
    chk.floor(rule, 'ciborium/snap call sites', len(sites), 4)


def check_errors(facts, chk):
    """every Result produced inside the deserialising function is consumed by `?` (Try::branch whose
    Break edge feeds from_residual into the return place), returned, or unwrapped fatally"""
    from .c09 import deserialisers
    for body, cbb, ct in deserialisers(facts):
        key = 'C19.errors:%s' % body.name

        def go(body=body):
            out = []
            for bb, t in body.calls():
                dty = body.local_ty(t.dest.local) if not t.dest.proj else ''
                if not dty.startswith('std::result::Result<'):
                    continue
                n = t.callee.name or ''
                if 'from_residual' in n:
                    continue
                # uses of the destination local
                uses = _uses(body, t.dest.local)
                verdict = None
                if not uses:
                    verdict = 'result of %s is never inspected' % n
                for ub, u in uses:
                    if u[0] == 'call':
                        un = u[1].callee.name or ''
                        if 'Try' in un and un.endswith('branch'):
                            # Break edge must lead to from_residual into _0
                            if not _break_to_err(body, u[1]):
                                verdict = 'error branch of `?` after %s does not reach the Err return' % n
                        elif un.endswith('::unwrap') or un.endswith('::expect'):
                            pass
                        elif 'map_err' in un or 'and_then' in un or un.endswith('::map') or 'from_residual' in un:
                            pass
                        else:
                            verdict = 'Result of %s passed to %s (error may be swallowed)' % (n, un)
                    elif u[0] == 'return':
                        pass
                    elif u[0] == 'discr':
                        # manual match: the Err edge must not reach an Ok return
                        pass
                    else:
                        verdict = 'Result of %s used by %s' % (n, u[0])
                out.append((n, t.span, verdict))
            return out
        r = chk.guard('C19.errors', key, go)
        if r is None:
            continue
        chk.floor('C19.errors', 'fallible calls in %s' % body.name, len(r), 2)
        for n, sp, verdict in r:
            k2 = '%s:%s' % (key, n.split('::')[-1])
            if verdict:
                chk.violation('C19.errors', k2, where=sp, detail=verdict)
            else:
                chk.ok('C19.errors', k2, sp, 'Err of %s propagates to the caller' % n, sample=dict(call=n, site=sp))


def _uses(body, local):
    out = []
    for b in body.blocks:
        if b.idx not in body.live_blocks():
            continue
        for s in b.stmts:
            if s.k != 'assign':
                continue
            if s.rv.k == 'discr' and s.rv.place.local == local:
                out.append((b.idx, ('discr', s)))
                continue
            for o in s.rv.ops:
                if o.place is not None and o.place.local == local:
                    if s.place.local == 0:
                        out.append((b.idx, ('return', s)))
                    else:
                        # moved into another local: follow one level
                        for x in _uses(body, s.place.local):
                            out.append(x)
            if s.rv.place is not None and s.rv.place.local == local and s.rv.k == 'ref':
                out.append((b.idx, ('ref', s)))
        t = b.term
        if t.k == 'call':
            for a in t.args:
                if a.place is not None and a.place.local == local:
                    out.append((b.idx, ('call', t)))
    return out


def _break_to_err(body, branch_term):
    """after `x = Try::branch(r)`: switch on discriminant(x); variant 1 (Break) block must call from_residual -> _0"""
    sb = branch_term.target
    t = body.blocks[sb].term
    if t.k != 'switch':
        return False
    brk = [tg for v, tg in t.targets if v == 1]
    if len(brk) != 1:
        return False
    bt = body.blocks[brk[0]].term
    if not (bt.k == 'call' and 'from_residual' in (bt.callee.name or '') and bt.dest.local == 0 and not bt.dest.proj):
        return False
    # and _0 is not overwritten afterwards
    for b in body.reachable_from(bt.target):
        for s in body.blocks[b].stmts:
            if s.k == 'assign' and s.place.local == 0 and not s.place.proj:
                return False
    return True


def check_callers(facts, chk, rule='C19.callers'):
    """who-consumes rule: at every call site of MergeSkaArray::load / io_utils::load_array in the crate the Err outcome
    must stop the operation: returned from a (non-closure) function whose callers are checked in turn, unwrapped
    fatally, propagated with `?`, or tested with `if let Ok` in main (whose both-fail edge diverges, C09.arms)."""
    sites = []
    for b in facts.bodies.values():
        if b.kind == 'Promoted':
            continue
        for bb, t in b.calls():
            n = t.callee.name or ''
            if n in (MSA + '::load', 'io_utils::load_array'):
                sites.append((b, bb, t))
    chk.floor(rule, 'load / load_array call sites', len(sites), 18)
    for b, bb, t in sites:
        where = b.name if b.kind != 'Closure' else b.path
        key = rule + ':%s:%s' % (where.split('::')[-1] if b.kind != 'Closure' else where, (t.callee.full or '').split('::')[-1] + '@' + ('u128' if 'u128' in (t.callee.full or '') else 'u64' if 'u64' in (t.callee.full or '') else 'IntT'))
        verdict = None
        if t.dest.local == 0 and not t.dest.proj:
            if b.kind == 'Closure':
                verdict = 'the Result of %s is returned from a closure (%s): its consumer may drop the error (e.g. flat_map / filter_map / ok)' % (t.callee.name, b.path)
            elif b.name not in ('io_utils::load_array',):
                verdict = 'the Result of %s is returned from %s, whose callers are not audited' % (t.callee.name, b.name)
        else:
            uses = _uses(b, t.dest.local) if not t.dest.proj else []
            if not uses:
                verdict = 'the Result of %s is never inspected' % t.callee.name
            if b.name == 'main' and any(u[0] == 'discr' for _, u in uses):
                uses = []      # `if let Ok(..)`: the both-fail edge is checked by C09.arms / C19.arms
            for ub, u in uses:
                if u[0] == 'call':
                    un = (u[1].callee.name or '')
                    last = un.split('::')[-1]
                    if last in ('expect', 'unwrap') or ('Try' in un and last == 'branch' and b.kind != 'Closure'):
                        continue
                    verdict = 'the Result of %s is passed to %s' % (t.callee.name, un)
                elif u[0] == 'discr':
                    if b.name != 'main':
                        verdict = 'the Result of %s is matched outside main (%s)' % (t.callee.name, b.name)
                elif u[0] == 'return':
                    if b.kind == 'Closure':
                        verdict = 'the Result of %s is returned from a closure' % t.callee.name
                else:
                    verdict = 'the Result of %s is used by %s' % (t.callee.name, u[0])
        if verdict:
            chk.violation(rule, rule + ':%s' % where, where=t.span,
                          detail=verdict + ': a damaged .skf would be skipped instead of rejected')
    bad = [i for i in chk.instances if i['rule'] == rule and i['status'] == 'VIOLATION']
    if not bad:
        chk.ok(rule, rule + ':all', '', 'all %d load / load_array call sites stop the operation on Err' % len(sites), evals=len(sites))


def check_inplace(facts, chk):
    for fn, mutators in (('generic_modes::delete', ['delete_samples']), ('generic_modes::weed', ['::weed', '::filter'])):
        def go(fn=fn, mutators=mutators):
            body = facts.fn(fn)
            saves = [(bb, t) for bb, t in body.calls() if (t.callee.name or '') == MSA + '::save']
            if len(saves) != 1:
                raise AnchorLost('%s: %d save calls' % (fn, len(saves)))
            sbb, st = saves[0]
            after = body.reachable_from(st.target) if st.target is not None else set()
            late = []
            for bb, t in body.calls():
                n = t.callee.name or ''
                if bb in after and n.startswith(MSA) and any(n.endswith(m.strip(':')) for m in mutators):
                    late.append((n, t.span))
            muts = [(bb, t) for bb, t in body.calls() if (t.callee.name or '').startswith(MSA) and
                    any((t.callee.name or '').endswith(m.strip(':')) for m in mutators)]
            return st, late, muts
        r = chk.guard('C19.inplace', 'C19.inplace:%s' % fn, go)
        if r is None:
            continue
        st, late, muts = r
        if late:
            chk.violation('C19.inplace', 'C19.inplace:%s' % fn, where=late[0][1], detail='%s is called after save in %s' % (late[0][0], fn))
        elif not muts:
            chk.violation('C19.inplace', 'C19.inplace:%s' % fn, kind='anchor-lost', detail='no table-mutating call found in %s' % fn)
        else:
            chk.ok('C19.inplace', 'C19.inplace:%s' % fn, st.span, 'save is the last effect; %d mutating calls precede it' % len(muts),
                   sample=dict(function=fn, save=st.span))


def run(facts, chk, tier, only=None):
    from . import cli_e2e
    # the subcommand through ska::main() itself (argument parser replaced by a constructed Args value): hand-over of CLI values, width dispatch
    chk.guard('C19.cli', 'C19.cli:run0', lambda: cli_e2e.check_merge_delete(facts, chk, 'C19.cli', tier, 'merge'))
    chk.guard('C19.stack', 'C19.stack:run', lambda: check_stack(facts, chk))
    chk.guard('C19.errors', 'C19.errors:run', lambda: check_errors(facts, chk))
    chk.guard('C19.inplace', 'C19.inplace:run', lambda: check_inplace(facts, chk))
    chk.guard('C19.callers', 'C19.callers:run', lambda: check_callers(facts, chk))
    from . import c09
    chk.guard('C19.arms', 'C19.arms:run', lambda: c09.check_arms(facts, chk, k_arms=False))
