"""C08 - deleting samples leaves exactly the file built from the remaining samples.

Decided clauses:
  C08.arity   the reader of `ska delete -f <names file>` accepts a line holding exactly one name
  C08.guard   generic_modes::delete saves only after delete_samples returned (refused => file untouched)
  C08.func    delete_samples, interpreted on bounded tables (all row contents, every non-empty proper subset of the
              samples, several argument orders), leaves exactly the table of the remaining samples: names in order,
              columns removed, rows left empty dropped with their k-mers, counts recounted; unknown name / all /
              no names panic
Not decided: tables beyond the bound; ndarray / HashSet are modelled, not analysed.
"""
from ..facts import AnchorLost, _strip_generics
from ..expr import ExprBuilder, show, subexprs
from ..cond import edge_conds
from .util import reachable_without, field_writes, can_return_from

EXPLANATION = 'Small-scope abstract interpretation of delete_samples against the plain-table model; dominance rule in generic_modes::delete; reader arity in the Delete arm of main.'
ASSUMPTIONS = ['models of ndarray::Array2 (zeros/t/outer_iter/push_column), HashSet<String> and Vec are faithful']
MSA = 'merge_ska_array::MergeSkaArray'


def run(facts, chk, tier, only=None):
    from . import cli_e2e
    # the subcommand through ska::main() itself (argument parser replaced by a constructed Args value): hand-over of CLI values, width dispatch
    chk.guard('C08.cli', 'C08.cli:run0', lambda: cli_e2e.check_merge_delete(facts, chk, 'C08.cli', tier, 'delete'))
    from . import e2e2
    chk.guard('C08.e2e', 'C08.e2e:run', lambda: e2e2.check_delete_e2e(facts, chk, 'C08.e2e', tier))
    # ---------------------------------------------------------------- arity
    def arity():
        main = facts.fn('main')
        eb = ExprBuilder(main)
        cmd = facts.adt('cli::Commands')
        dv = facts.variant_index('cli::Commands', 'Delete')
        fl = [i for i, f in enumerate(cmd['variants'][dv]['fields']) if f['name'] == 'file_list']
        if not fl:
            raise AnchorLost('Commands::Delete has no file_list field')
        fl = fl[0]
        # calls in main one of whose arguments is derived from (command as Delete).file_list
        readers = []
        for bb, t in main.calls():
            for a in t.args:
                e = eb.operand(a)
                for x in subexprs(e):
                    if x[0] == 'field' and x[2] == fl and x[1][0] == 'downcast' and x[1][2] == dv:
                        readers.append((bb, t))
        readers = [(bb, t) for bb, t in readers if (t.callee.krate == 'ska')]
        if not readers:
            raise AnchorLost('no crate function receives Commands::Delete.file_list in main')
        out = []
        seen = set()
        work = [t.callee.name for _, t in readers]
        while work:
            fn = work.pop()
            if fn in seen or not facts.has_fn(fn):
                continue
            seen.add(fn)
            b = facts.fn(fn)
            ebf = ExprBuilder(b)
            for blk in b.blocks:
                if blk.idx not in b.live_blocks() or blk.term.k != 'switch':
                    continue
                e = ebf.operand(blk.term.discr)
                is_count = any(x[0] == 'call' and x[1].endswith('::len') for x in subexprs(e)) and \
                    any(x[0] == 'call' and 'split_whitespace' in x[1] for x in subexprs(e))
                if not is_count:
                    continue
                t = blk.term
                tgt = next((tg for v, tg in t.targets if v == 1), t.otherwise)
                out.append((fn, t.span, can_return_from(b, tgt)))
            for bb, t in b.calls():
                if t.callee.krate == 'ska' and (t.callee.name or '') not in seen:
                    # only helpers that receive the file argument
                    work.append(t.callee.name)
        return [t.callee.name for _, t in readers], out
    r = chk.guard('C08.arity', 'C08.arity:Delete:file_list', arity)
    if r is not None:
        readers, sw = r
        bad = [x for x in sw if not x[2]]
        if bad:
            chk.violation('C08.arity', 'C08.arity:Delete:file_list', where=bad[0][1],
                          detail='`ska delete -f` parses its names file with %s, whose field-count match sends a line with exactly one '
                                 'field (one sample name per line) to a panic' % bad[0][0],
                          construct=dict(arm='Commands::Delete', reader=readers, switch=bad[0][1]))
        else:
            chk.ok('C08.arity', 'C08.arity:Delete:file_list', '', 'names-file reader %s accepts one field per line (%d field-count switches examined)' % (readers, len(sw)),
                   evals=max(len(sw), 1), sample=dict(readers=readers, switches=[x[1] for x in sw]))

    # ---------------------------------------------------------------- guards in delete_samples
    # ---------------------------------------------------------------- names from the file reach delete_samples verbatim
    def names_route():
        main = facts.fn('main')
        eb = ExprBuilder(main)
        dels = [(bb, t) for bb, t in main.calls() if (t.callee.name or '') == 'generic_modes::delete']
        if len(dels) != 2:
            raise AnchorLost('main: %d generic_modes::delete calls (u64 / u128 expected)' % len(dels))
        res = []
        def expand(e, depth=0):
            # follow named locals (all their definitions) so that the data flow into the argument is visible
            if not isinstance(e, tuple) or not e or depth > 60:
                return e
            if e[0] == 'var':
                defs = [d for d in eb._defs.get(e[1], []) if not d[3]]
                outs = []
                for (dbb, idx, node, _p) in defs:
                    if idx == 'term':
                        outs.append(('call', node.callee.name or '?', [expand(eb.operand(a), depth + 1) for a in node.args], dbb))
                    else:
                        outs.append(expand(eb.rvalue(node.rv), depth + 1))
                return ('phi', outs) if outs else e
            return tuple(expand(x, depth + 1) if isinstance(x, tuple) else ([expand(y, depth + 1) for y in x] if isinstance(x, list) else x) for x in e)

        def walk(e):
            if isinstance(e, tuple) and e:
                yield e
                for x in e:
                    if isinstance(x, tuple):
                        yield from walk(x)
                    elif isinstance(x, list):
                        for y in x:
                            yield from walk(y)
        for bb, t in dels:
            e = expand(eb.operand(t.args[1]))
            calls = [x for x in walk(e) if x[0] == 'call']
            has_reader = any(x[1].endswith('::read_name_list') for x in calls)
            # rewriting helpers (they strip extensions and directories from sample *file* names) must not see names read from the names file
            rewritten = [x[1] for x in calls if x[1].endswith(('::get_input_list', '::read_input_fastas')) and
                         any(y[0] == 'call' and y[1].endswith('::read_name_list') for a in x[2] for y in walk(a))]
            res.append((t.span, has_reader, rewritten))
        return res
    r = chk.guard('C08.names', 'C08.names:file-route', names_route)
    if r is not None:
        for sp, has_reader, rewritten in r:
            if not has_reader:
                chk.violation('C08.names', 'C08.names:file-route', where=sp, detail='the names passed to generic_modes::delete do not come from read_name_list on the -f route')
            elif rewritten:
                chk.violation('C08.names', 'C08.names:file-route', where=sp,
                              detail='names read from the names file pass through %s (which strips sequence-file extensions and directories) before delete_samples: a sample called x.fa can no longer be named' % rewritten[0])
            else:
                chk.ok('C08.names', 'C08.names:file-route', sp, 'names from read_name_list reach delete_samples through iter/map(as_str)/collect only')

    def order():
        b = facts.fn('generic_modes::delete')
        ds = [(bb, t) for bb, t in b.calls() if (t.callee.name or '') == MSA + '::delete_samples']
        sv = [(bb, t) for bb, t in b.calls() if (t.callee.name or '') == MSA + '::save']
        if len(ds) != 1 or len(sv) != 1:
            raise AnchorLost('generic_modes::delete: %d delete_samples / %d save calls' % (len(ds), len(sv)))
        return b.dominates(ds[0][0], sv[0][0]), sv[0][1].span
    r = chk.guard('C08.guard', 'C08.guard:delete:order', order)
    if r is not None:
        ok, sp = r
        if ok:
            chk.ok('C08.guard', 'C08.guard:delete:order', sp, 'delete_samples dominates save (a refused deletion never reaches File::create)')
        else:
            chk.violation('C08.guard', 'C08.guard:delete:order', where=sp, detail='save can run without / before delete_samples in generic_modes::delete')

    # ---------------------------------------------------------------- the operation itself (functional, small scope)
    # delete_samples interpreted on every non-empty proper subset of 2..4 (thorough: 5) samples, in several argument orders,
    # over tables holding every row content; result (names, k-mers, rows, counts) == table built from the remaining samples;
    # unknown / all / no names panic.  Replaces the shape rules C08.guard:delete_samples, C08.recount and C08.names.
    from . import tableops
    chk.guard('C08.func', 'C08.func:wide:run', lambda: tableops.check_wide(facts, chk, 'C08.func', tier))
    chk.guard('C08.func', 'C08.func:delete_samples', lambda: tableops.check_delete(facts, chk, 'C08.func', tier))
