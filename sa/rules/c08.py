"""C08 - deleting samples leaves exactly the file built from the remaining samples.

Decided clauses:
  C08.arity   the reader of `ska delete -f <names file>` accepts a line holding exactly one name
  C08.guard   both refusals of delete_samples diverge and dominate the assignment of self.variants;
              generic_modes::delete saves only after delete_samples returned (refused => file untouched)
  C08.recount every path from `self.variants = ..` to return passes update_counts(false)
  C08.names   a name is dropped iff its index is recorded for column removal; a column is skipped iff its
              index equals the next recorded index
Not decided: order preservation of ndarray::push_column (library).
"""
from ..facts import AnchorLost, _strip_generics
from ..expr import ExprBuilder, show, subexprs
from ..cond import edge_conds
from .util import reachable_without, field_writes, can_return_from

EXPLANATION = 'Dominance / must-pass-through / decision-edge rules over delete_samples, generic_modes::delete and the Delete arm of main.'
ASSUMPTIONS = ['ndarray push_column keeps column order (library)']
MSA = 'merge_ska_array::MergeSkaArray'


def run(facts, chk, tier, only=None):
    # ---------------------------------------------------------------- arity
    def arity():
        main = facts.fn('main')
        eb = ExprBuilder(main)
        cmd = facts.adt('cli::Commands')
        dv = facts.variant_index('cli::Commands', 'Delete')
        fl = [i for i, f in enumerate(cmd['variants'][dv]['fields']) if f['name'] == 'file_list']
        if not fl:
            raise AnchorLost('Commands::Delete has no file_list field')
        fl = fl[0]
        # calls in main one of whose arguments is derived from (command as Delete).file_list
        readers = []
        for bb, t in main.calls():
            for a in t.args:
                e = eb.operand(a)
                for x in subexprs(e):
                    if x[0] == 'field' and x[2] == fl and x[1][0] == 'downcast' and x[1][2] == dv:
                        readers.append((bb, t))
        readers = [(bb, t) for bb, t in readers if (t.callee.krate == 'ska')]
        if not readers:
            raise AnchorLost('no crate function receives Commands::Delete.file_list in main')
        out = []
        seen = set()
        work = [t.callee.name for _, t in readers]
        while work:
            fn = work.pop()
            if fn in seen or not facts.has_fn(fn):
                continue
            seen.add(fn)
            b = facts.fn(fn)
            ebf = ExprBuilder(b)
            for blk in b.blocks:
                if blk.idx not in b.live_blocks() or blk.term.k != 'switch':
                    continue
                e = ebf.operand(blk.term.discr)
                is_count = any(x[0] == 'call' and x[1].endswith('::len') for x in subexprs(e)) and \
                    any(x[0] == 'call' and 'split_whitespace' in x[1] for x in subexprs(e))
                if not is_count:
                    continue
                t = blk.term
                tgt = next((tg for v, tg in t.targets if v == 1), t.otherwise)
                out.append((fn, t.span, can_return_from(b, tgt)))
            for bb, t in b.calls():
                if t.callee.krate == 'ska' and (t.callee.name or '') not in seen:
                    # only helpers that receive the file argument
                    work.append(t.callee.name)
        return [t.callee.name for _, t in readers], out
    r = chk.guard('C08.arity', 'C08.arity:Delete:file_list', arity)
    if r is not None:
        readers, sw = r
        bad = [x for x in sw if not x[2]]
        if bad:
            chk.violation('C08.arity', 'C08.arity:Delete:file_list', where=bad[0][1],
                          detail='`ska delete -f` parses its names file with %s, whose field-count match sends a line with exactly one '
                                 'field (one sample name per line) to a panic' % bad[0][0],
                          construct=dict(arm='Commands::Delete', reader=readers, switch=bad[0][1]))
        else:
            chk.ok('C08.arity', 'C08.arity:Delete:file_list', '', 'names-file reader %s accepts one field per line (%d field-count switches examined)' % (readers, len(sw)),
                   evals=max(len(sw), 1), sample=dict(readers=readers, switches=[x[1] for x in sw]))

    # ---------------------------------------------------------------- guards in delete_samples
    def guards():
        b = facts.fn(MSA + '::delete_samples')
        vi = facts.field_index(MSA, 'variants')
        w = field_writes(b, 1, vi)
        if len(w) != 1:
            raise AnchorLost('delete_samples: %d assignments of self.variants' % len(w))
        wb = w[0][0]
        panics = [blk.idx for blk in b.blocks if blk.idx in b.live_blocks() and blk.term.k == 'call' and blk.term.target is None
                  and 'panic' in (blk.term.callee.name or '')]
        eb = ExprBuilder(b)
        # refusal 1: empty / all  (is_empty(del_names) || len(del_names) == nsamples)
        # refusal 2: unknown name (!del_name_set.is_empty())
        found = {}
        for blk in b.blocks:
            if blk.idx not in b.live_blocks() or blk.term.k != 'switch':
                continue
            e = eb.operand(blk.term.discr)
            s = show(e)
            kind = None
            if 'is_empty(' in s and 'del_names' in s:
                kind = 'empty'
            elif 'nsamples(' in s and 'len(' in s:
                kind = 'all'
            elif 'is_empty(' in s and 'del_name_set' in s:
                kind = 'unknown-name'
            if kind:
                found[kind] = blk.idx
        res = []
        for kind in ('empty', 'all', 'unknown-name'):
            if kind not in found:
                res.append((kind, False, 'refusal test not found'))
                continue
            sb = found[kind]
            t = b.blocks[sb].term
            div = [s for s in set(t.succs()) if not can_return_from(b, s)]
            dom = b.dominates(sb, wb)
            res.append((kind, bool(div) and dom, 'switch bb%d: diverging edge=%s dominates write=%s' % (sb, bool(div), dom)))
        return res, w[0][1].span
    r = chk.guard('C08.guard', 'C08.guard:delete_samples', guards)
    if r is not None:
        res, sp = r
        for kind, ok, why in res:
            key = 'C08.guard:delete_samples:%s' % kind
            if ok:
                chk.ok('C08.guard', key, sp, why, sample=dict(refusal=kind, detail=why))
            else:
                chk.violation('C08.guard', key, where=sp, detail='refusal "%s" does not diverge before self.variants is replaced: %s' % (kind, why))

    def order():
        b = facts.fn('generic_modes::delete')
        ds = [(bb, t) for bb, t in b.calls() if (t.callee.name or '') == MSA + '::delete_samples']
        sv = [(bb, t) for bb, t in b.calls() if (t.callee.name or '') == MSA + '::save']
        if len(ds) != 1 or len(sv) != 1:
            raise AnchorLost('generic_modes::delete: %d delete_samples / %d save calls' % (len(ds), len(sv)))
        return b.dominates(ds[0][0], sv[0][0]), sv[0][1].span
    r = chk.guard('C08.guard', 'C08.guard:delete:order', order)
    if r is not None:
        ok, sp = r
        if ok:
            chk.ok('C08.guard', 'C08.guard:delete:order', sp, 'delete_samples dominates save (a refused deletion never reaches File::create)')
        else:
            chk.violation('C08.guard', 'C08.guard:delete:order', where=sp, detail='save can run without / before delete_samples in generic_modes::delete')

    # ---------------------------------------------------------------- recount
    def recount():
        b = facts.fn(MSA + '::delete_samples')
        vi = facts.field_index(MSA, 'variants')
        w = field_writes(b, 1, vi)
        eb = ExprBuilder(b)
        ucs = [(bb, t) for bb, t in b.calls() if (t.callee.name or '') == MSA + '::update_counts']
        good = [bb for bb, t in ucs if eb.operand(t.args[1]) == ('const', 0, 'bool')]
        out = []
        for wb, s in w:
            ok = all(rb not in reachable_without(b, wb, avoid_blocks=good) for rb in b.return_blocks())
            out.append((s.span, ok))
        return out
    r = chk.guard('C08.recount', 'C08.recount:delete_samples', recount)
    if r is not None:
        for sp, ok in r:
            if ok:
                chk.ok('C08.recount', 'C08.recount:delete_samples', sp, 'update_counts(false) on every path from the column removal to return')
            else:
                chk.violation('C08.recount', 'C08.recount:delete_samples', where=sp,
                              detail='delete_samples can return without update_counts(false): k-mers found only in deleted samples stay in the file')

    # ---------------------------------------------------------------- names / columns
    def names():
        b = facts.fn(MSA + '::delete_samples')
        eb = ExprBuilder(b, through_vars=False)
        res = []
        # (a) contains(name) decides index-push vs name-keep
        cs = [blk.idx for blk in b.blocks if blk.idx in b.live_blocks() and blk.term.k == 'switch' and
              'contains(' in show(eb.operand(blk.term.discr)) and 'del_name_set' in show(eb.operand(blk.term.discr))]
        if len(cs) != 1:
            raise AnchorLost('delete_samples: %d switches on del_name_set.contains' % len(cs))
        sb = cs[0]
        t = b.blocks[sb].term
        tt = next(tg for v, tg in t.targets if v == 0)   # false edge
        tf = t.otherwise                                    # true edge
        loop_head = [x for x in b.dominators()[sb] if b.in_cycle(x)]

        def pushes(start, ty):
            reach = reachable_without(b, start, avoid_blocks=[sb])
            return [bb for bb, c in b.calls() if bb in reach and (c.callee.full or '').startswith('std::vec::Vec::<%s>::push' % ty)]
        idx_true = pushes(tf, 'usize')
        idx_false = pushes(tt, 'usize')
        nm_true = pushes(tf, 'std::string::String')
        nm_false = pushes(tt, 'std::string::String')
        ok_a = bool(idx_true) and not idx_false and bool(nm_false) and not nm_true
        res.append(('name-vs-index', ok_a, 'contains=true -> idx push %s / name push %s; contains=false -> idx push %s / name push %s'
                    % (bool(idx_true), bool(nm_true), bool(idx_false), bool(nm_false))))
        # (b) push_column is skipped iff *next_idx == sample_idx
        es = [blk.idx for blk in b.blocks if blk.idx in b.live_blocks() and blk.term.k == 'switch' and
              eb.operand(blk.term.discr)[0] == 'bin' and eb.operand(blk.term.discr)[1] == 'Eq' and
              'sample_idx' in show(eb.operand(blk.term.discr))]
        if len(es) != 1:
            raise AnchorLost('delete_samples: %d switches comparing the next index with sample_idx' % len(es))
        eb_ = es[0]
        t2 = b.blocks[eb_].term
        neq = next(tg for v, tg in t2.targets if v == 0)
        eq = t2.otherwise
        pc = [bb for bb, c in b.calls() if 'push_column' in (c.callee.name or '')]
        if len(pc) != 1:
            raise AnchorLost('delete_samples: %d push_column calls' % len(pc))
        # loop head = the `next` call block of the column loop: stop there
        heads = [bb for bb, c in b.calls() if (c.callee.name or '').endswith('::next') and b.in_cycle(bb) and bb in b.dominators()[eb_]]
        stop = heads[-1:] if heads else []
        skip_on_eq = pc[0] not in reachable_without(b, eq, avoid_blocks=stop)
        keep_on_neq = pc[0] in reachable_without(b, neq, avoid_blocks=stop)
        # and the None edge of `if let Some(next_idx_val) = next_idx` keeps the column
        res.append(('column-skip', skip_on_eq and keep_on_neq, 'equal -> skip=%s, different -> push_column=%s' % (skip_on_eq, keep_on_neq)))
        # advancing the index iterator only on the equal edge
        adv = [bb for bb, c in b.calls() if (c.callee.name or '').endswith('::next') and bb in reachable_without(b, eq, avoid_blocks=stop) and bb not in stop]
        adv_neq = [bb for bb, c in b.calls() if (c.callee.name or '').endswith('::next') and bb in reachable_without(b, neq, avoid_blocks=stop) and bb not in stop]
        res.append(('index-advance', bool(adv) and not adv_neq, 'next() on equal edge=%s, on different edge=%s' % (bool(adv), bool(adv_neq))))
        return res, t.span
    r = chk.guard('C08.names', 'C08.names:delete_samples', names)
    if r is not None:
        res, sp = r
        for kind, ok, why in res:
            key = 'C08.names:delete_samples:%s' % kind
            if ok:
                chk.ok('C08.names', key, sp, why, sample=dict(rule=kind, detail=why))
            else:
                chk.violation('C08.names', key, where=sp, detail=why)
