"""Functional rules for the command-line value parsers (src/cli.rs): the function clap runs on the text of an option is interpreted
on a family of option texts and must hand on exactly the value the text denotes - in double precision for the frequency /
proportion options, whose thresholds are computed as ceil(f x samples): a value that arrives rounded through a narrower type
(0.2 -> 0.20000000298) moves ceil(f x n) up by one sample whenever f x n is a whole number.

These rules are independent of how the parser is written (the text goes in, the Result comes out)."""
from ..facts import AnchorLost
from ..absint.interp import Interp, StrV
from ..absint.values import BV, Agg, RefV, Cell

FREQ_TEXTS = ['0', '1', '0.0', '1.0', '0.1', '0.2', '0.25', '0.3', '0.333', '0.3333333333333333', '0.4', '0.5', '0.6', '0.7', '0.75', '0.8',
              '0.9', '0.95', '0.99', '0.999999', '1e-3', '5e-1', '.5', '1.0000001', '-0.1', '-0', '2', '1e3', 'abc', '', '0,5', '0.5x']


def _call(facts, fn, txt):
    I = Interp(facts)
    r = I.call_fn(fn, [RefV(Cell(StrV(list(txt)), 's'))])
    if not (isinstance(r, Agg) and r.kind.endswith('Result')):
        raise AnchorLost('%s does not return a Result: %r' % (fn, r))
    return r.variant == 0, (r.fields[0] if r.variant == 0 else None)


def _py_float(txt):
    import re
    if re.match(r'^[+-]?((\d+\.?\d*|\.\d+)([eE][+-]?\d+)?)$', txt):
        return float(txt)
    return None


def unit_interval_parsers(facts):
    """the value parsers of the frequency / proportion options, found by role: functions of src/cli.rs with the signature
    fn(&str) -> Result<f64, String>"""
    out = sorted(b.name for b in facts.bodies.values() if b.kind != 'Closure' and b.name.startswith('cli::') and b.arg_count == 1 and
                 b.local_ty(1) == '&str' and b.local_ty(0).replace(' ', '') in ('std::result::Result<f64,std::string::String>',))
    if not out:
        raise AnchorLost('no fn(&str) -> Result<f64, String> value parser found in cli')
    return out


def check_frequency_options(facts, chk, rule, what='--min-freq'):  # (valid_proportion serves --proportion-reads with the same contract)
    fns = chk.guard(rule, '%s:%s-parser' % (rule, what.strip('-')), lambda: unit_interval_parsers(facts))
    for fn in fns or []:
        check_unit_interval(facts, chk, rule, fn, what)


def check_unit_interval(facts, chk, rule, fn='cli::zero_to_one', what='--min-freq'):  # (valid_proportion serves --proportion-reads with the same contract)
    key = '%s:%s-parser:%s' % (rule, what.strip('-'), fn.split('::')[-1])

    def go():
        bad = []
        for txt in FREQ_TEXTS:
            ok, v = _call(facts, fn, txt)
            ev = _py_float(txt)
            exp_ok = ev is not None and 0.0 <= ev <= 1.0
            if ok != exp_ok:
                bad.append((txt, 'accepted' if ok else 'rejected', 'accepted' if exp_ok else 'rejected'))
            elif ok and not (isinstance(v, float) and v == ev):
                bad.append((txt, repr(v), repr(ev)))
        return bad
    r = chk.guard(rule, key, go)
    if r is not None:
        if r:
            chk.violation(rule, key, where=fn, evals=len(FREQ_TEXTS),
                          detail='%s %r: the parser gives %s, the text denotes %s (%d of %d texts wrong): thresholds ceil(f x samples) move when f x samples is whole'
                                 % (what, r[0][0], r[0][1], r[0][2], len(r), len(FREQ_TEXTS)))
        else:
            chk.ok(rule, key, fn, '%s text -> exactly the double it denotes, accepted iff in [0, 1] (%d texts)' % (what, len(FREQ_TEXTS)), evals=len(FREQ_TEXTS))


def check_usize(facts, chk, rule, fn, what, accept):
    """integer option parsers: accepted iff `accept(n)`, value = n"""
    key = '%s:%s-parser' % (rule, what.strip('-'))
    texts = [str(n) for n in list(range(0, 70)) + [100, 255, 256, 1000, 65535, 65536]] + ['-1', 'x', '', '1.5']

    def go():
        bad = []
        for txt in texts:
            ok, v = _call(facts, fn, txt)
            n = int(txt) if txt.isdigit() else None
            exp_ok = n is not None and accept(n)
            if ok != exp_ok:
                bad.append((txt, 'accepted' if ok else 'rejected', 'accepted' if exp_ok else 'rejected'))
            elif ok and not (isinstance(v, BV) and v.val == n):
                bad.append((txt, repr(v), n))
        return bad
    r = chk.guard(rule, key, go)
    if r is not None:
        if r:
            chk.violation(rule, key, where=fn, evals=len(texts), detail='%s %r: the parser gives %s, expected %s (%d of %d texts wrong)' % (what, r[0][0], r[0][1], r[0][2], len(r), len(texts)))
        else:
            chk.ok(rule, key, fn, '%s text -> its value, accepted exactly on the documented range (%d texts)' % (what, len(texts)), evals=len(texts))
