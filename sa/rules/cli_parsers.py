"""Functional rules for the command-line value parsers (src/cli.rs): the function clap runs on the text of an option is interpreted
on a family of option texts and must hand on exactly the value the text denotes - in double precision for the frequency /
proportion options, whose thresholds are computed as ceil(f x samples): a value that arrives rounded through a narrower type
(0.2 -> 0.20000000298) moves ceil(f x n) up by one sample whenever f x n is a whole number.

These rules are independent of how the parser is written (the text goes in, the Result comes out)."""
from ..facts import AnchorLost
from ..absint.interp import Interp, StrV
from ..absint.values import BV, Agg, RefV, Cell

FREQ_TEXTS = ['0', '1', '0.0', '1.0', '0.1', '0.2', '0.25', '0.3', '0.333', '0.3333333333333333', '0.4', '0.5', '0.6', '0.7', '0.75', '0.8',
              '0.9', '0.95', '0.99', '0.999999', '1e-3', '5e-1', '.5', '1.0000001', '-0.1', '-0', '2', '1e3', 'abc', '', '0,5', '0.5x']


def _call(facts, fn, txt):
    I = Interp(facts)
    r = I.call_fn(fn, [RefV(Cell(StrV(list(txt)), 's'))])
    if not (isinstance(r, Agg) and r.kind.endswith('Result')):
        raise AnchorLost('%s does not return a Result: %r' % (fn, r))
    return r.variant == 0, (r.fields[0] if r.variant == 0 else None)


def _py_float(txt):
    import re
    if re.match(r'^[+-]?((\d+\.?\d*|\.\d+)([eE][+-]?\d+)?)$', txt):
        return float(txt)
    return None


def unit_interval_parsers(facts):
    """the value parsers of the frequency / proportion options, found by role: functions of src/cli.rs with the signature
    fn(&str) -> Result<f64, String>"""
    out = sorted(b.name for b in facts.bodies.values() if b.kind != 'Closure' and b.name.startswith('cli::') and b.arg_count == 1 and
                 b.local_ty(1) == '&str' and b.local_ty(0).replace(' ', '') in ('std::result::Result<f64,std::string::String>',))
    if not out:
        raise AnchorLost('no fn(&str) -> Result<f64, String> value parser found in cli')
    return out


def check_frequency_options(facts, chk, rule, what='--min-freq'):  # (valid_proportion serves --proportion-reads with the same contract)
    fns = chk.guard(rule, '%s:%s-parser' % (rule, what.strip('-')), lambda: unit_interval_parsers(facts))
    for fn in fns or []:
        check_unit_interval(facts, chk, rule, fn, what)


def check_unit_interval(facts, chk, rule, fn='cli::zero_to_one', what='--min-freq'):  # (valid_proportion serves --proportion-reads with the same contract)
    key = '%s:%s-parser:%s' % (rule, what.strip('-'), fn.split('::')[-1])

    def go():
        bad = []
        for txt in FREQ_TEXTS:
            ok, v = _call(facts, fn, txt)
            ev = _py_float(txt)
            exp_ok = ev is not None and 0.0 <= ev <= 1.0
            if ok != exp_ok:
                bad.append((txt, 'accepted' if ok else 'rejected', 'accepted' if exp_ok else 'rejected'))
            elif ok and not (isinstance(v, float) and v == ev):
                bad.append((txt, repr(v), repr(ev)))
        return bad
    r = chk.guard(rule, key, go)
    if r is not None:
        if r:
            chk.violation(rule, key, where=fn, evals=len(FREQ_TEXTS),
                          detail='%s %r: the parser gives %s, the text denotes %s (%d of %d texts wrong): thresholds ceil(f x samples) move when f x samples is whole'
                                 % (what, r[0][0], r[0][1], r[0][2], len(r), len(FREQ_TEXTS)))
        else:
            chk.ok(rule, key, fn, '%s text -> exactly the double it denotes, accepted iff in [0, 1] (%d texts)' % (what, len(FREQ_TEXTS)), evals=len(FREQ_TEXTS))


def check_usize(facts, chk, rule, fn, what, accept):
    """integer option parsers: accepted iff `accept(n)`, value = n"""
    key = '%s:%s-parser' % (rule, what.strip('-'))
    texts = [str(n) for n in list(range(0, 70)) + [100, 255, 256, 1000, 65535, 65536]] + ['-1', 'x', '', '1.5']

    def go():
        bad = []
        for txt in texts:
            ok, v = _call(facts, fn, txt)
            n = int(txt) if txt.isdigit() else None
            exp_ok = n is not None and accept(n)
            if ok != exp_ok:
                bad.append((txt, 'accepted' if ok else 'rejected', 'accepted' if exp_ok else 'rejected'))
            elif ok and not (isinstance(v, BV) and v.val == n):
                bad.append((txt, repr(v), n))
        return bad
    r = chk.guard(rule, key, go)
    if r is not None:
        if r:
            chk.violation(rule, key, where=fn, evals=len(texts), detail='%s %r: the parser gives %s, expected %s (%d of %d texts wrong)' % (what, r[0][0], r[0][1], r[0][2], len(r), len(texts)))
        else:
            chk.ok(rule, key, fn, '%s text -> its value, accepted exactly on the documented range (%d texts)' % (what, len(texts)), evals=len(texts))


def _by_return(facts, ret):
    return sorted(b.name for b in facts.bodies.values() if b.kind != 'Closure' and b.name.startswith('cli::') and b.arg_count == 1 and
                  b.local_ty(1) == '&str' and b.local_ty(0).replace(' ', '') == ret)


def check_usize_options(facts, chk, rule, role):
    """the two fn(&str) -> Result<usize, String> parsers of src/cli.rs, told apart by what they do with "64": the thread-count
    parser accepts it (every n >= 1 is a valid thread count), the k parser does not (k is odd, 5..=63).  role: 'threads' | 'k'"""
    key = '%s:%s-parser' % (rule, role)

    def find():
        fns = _by_return(facts, 'std::result::Result<usize,std::string::String>')
        if not fns:
            raise AnchorLost('no fn(&str) -> Result<usize, String> value parser found in cli')
        sel = [fn for fn in fns if _call(facts, fn, '64')[0] == (role == 'threads')]
        if not sel:
            raise AnchorLost('no %s parser among %s' % (role, fns))
        return sel
    for fn in chk.guard(rule, key, find) or []:
        if role == 'threads':
            check_usize(facts, chk, rule, fn, 'threads:' + fn.split('::')[-1], lambda n: n >= 1)
        else:
            check_usize(facts, chk, rule, fn, 'k:' + fn.split('::')[-1], lambda n: 5 <= n <= 63 and n % 2 == 1)


def check_min_count_option(facts, chk, rule):
    """--min-count: fn(&str) -> Result<ValidMinKmer, String>: "auto" -> Auto, n in 1..=65535 -> Val(n) exactly, "0" rejected
    (texts that are not numbers abort the program in the pinned code; they are not part of the rule)"""
    key = '%s:min-count-parser' % rule

    def go():
        fns = [b.name for b in facts.bodies.values() if b.kind != 'Closure' and b.name.startswith('cli::') and b.arg_count == 1 and
               b.local_ty(1) == '&str' and 'ValidMinKmer' in b.local_ty(0) and b.local_ty(0).startswith('std::result::Result<')]
        if not fns:
            raise AnchorLost('no fn(&str) -> Result<ValidMinKmer, String> value parser found in cli')
        adt = next(p for p in facts.adts if p.endswith('cli::ValidMinKmer'))
        v_auto, v_val = facts.variant_index(adt, 'Auto'), facts.variant_index(adt, 'Val')
        bad, n = [], 0
        for fn in sorted(fns):
            for txt in ['auto', '0'] + [str(x) for x in list(range(1, 40)) + [100, 255, 256, 257, 1000, 32767, 32768, 65535]]:
                ok, v = _call(facts, fn, txt)
                n += 1
                if txt == '0':
                    if ok:
                        bad.append((fn, txt, 'accepted', 'rejected'))
                elif txt == 'auto':
                    if not ok or v.variant != v_auto:
                        bad.append((fn, txt, repr(v), 'Auto'))
                elif not ok or v.variant != v_val or not isinstance(v.fields[0], BV) or v.fields[0].val != int(txt):
                    bad.append((fn, txt, repr(v), 'Val(%s)' % txt))
        return n, bad
    r = chk.guard(rule, key, go)
    if r is not None:
        n, bad = r
        if bad:
            chk.violation(rule, key, where=bad[0][0], evals=n, detail='--min-count %r: the parser gives %s, expected %s (%d of %d texts wrong)' % (bad[0][1], bad[0][2], bad[0][3], len(bad), n))
        else:
            chk.ok(rule, key, 'cli', '--min-count text -> Auto / Val(n) with exactly the number written, 0 rejected (%d texts)' % n, evals=n)
