"""Unsigned-subtraction obligations in the `ska lo` pipeline (shared by C17.sub / C18.sub).

`ska lo` works on path / sequence lengths held in usize.  Every `a - b` on an unsigned type is an obligation a >= b:
in the debug profile (the one the test suite runs) a violation aborts the run, in the release profile the value wraps.
Either way an in-domain input then yields no / wrong calls, so "every a - b is safe on every path" is a necessary
condition of C17 (well-formed output in every run) and C18 (>= 90% of the planted indels are reported).

Rule, per site (the `Overflow:Sub` assert MIR carries for the checked subtraction):
  1. discharged by its path condition: for every valuation of the atoms of a and b on a small grid, the path condition
     from the function entry to the site (switchInt edges, K5 formulas; leaves that cannot be expressed over the atoms are
     left free) implies a >= b;
  2. otherwise the site must be listed in INVARIANTS below with the data invariant that makes it safe, confirmed by reading
     (one line of reason each; keyed by function and expression, never by line number);
  3. anything else is reported: an unguarded subtraction of run-time lengths.
"""
import itertools
import re
from ..facts import AnchorLost
from ..expr import ExprBuilder, show, subexprs
from ..cond import reach_formula, eval_formula, eval_expr, Unevaluable

SCOPE = 'skalo::'

# (function, normalised expression) -> data invariant that discharges it (confirmed by reading the code)
INVARIANTS = {
    ('skalo::compaction::compact_graph', 'len(&*vec_visited) - 1'):
        'only vectors with len() > 1 are inserted into `compacted` (the `if vec_visited.len() > 1` before insert)',
    ('skalo::input::build_graph', 'len_kmer - 1'):
        'len_kmer is the k of the .skf (odd, >= 5: validated when the file was built)',
    ('skalo::positioning::scan_variants', 'len(&seq) - len_kmer_graph'):
        'variant sequences are built as k_graph + (nodes - 1) characters with nodes >= 2 (read_graph)',
    ('skalo::positioning::scan_variants', 'position - (pos as u32)'):
        'position is the reference coordinate of the k-mer found at offset pos of the variant; for variants collinear with the reference '
        '(C17 domain: substitutions only) it equals start + pos.  Residual: a sample-specific insertion within the first few bases of a '
        'reference contig could make it smaller; no failing input could be constructed (DESIGN section 4, residuals)',
    ('skalo::positioning::scan_variants', 'len(&rc_seq) - len_kmer_graph'):
        'reverse complement of the sequence above: same length',
    ('skalo::process_indels::extract_middle_bases', 'n_nucl - 1'):
        'the `while identical` loop body runs at least once (identical starts true) and its first statement is n_nucl += 1',
    ('skalo::process_indels::extract_middle_bases', 'len(&*index(&reduced_seq, 0)) - n_nucl'):
        'the loop leaves n_nucl at the first length that some sequence cannot supply or at which the ends differ, so n_nucl - 1 <= every sequence length',
    ('skalo::process_indels::extract_middle_bases', 'len(&*seq) - n_nucl'):
        'as above: n_nucl <= min sequence length',
    ('skalo::process_variants::analyse_variant_groups', 'pos - *data_info.0'):
        'SNP positions are i + k_graph (entry side) or i - 1 with i > k_graph (exit side, only recorded past the first k-mer)',
    ('skalo::process_variants::analyse_variant_groups', 'seq_length - pos'):
        'pos < seq.len() is established by get_potential_snp for every position that is used',
    ('skalo::process_variants::analyse_variant_groups', '(seq_length - pos) - *data_info.0'):
        'positions come from entry/exit k-mers with a full k-mer on each side (read_graph guard on entry positions)',
    ('skalo::process_variants::analyse_variant_groups', '((seq_length - pos) - *data_info.0) - 1'):
        'as above',
    ('skalo::process_variants::find_internal_indels', 'len(&*sequence) - k_graph'):
        'variant sequences are at least k_graph + 1 long (k_graph characters of the entry k-mer plus one per further node)',
    ('skalo::read_graph::build_variant_groups', '(len(&vec_visited) + data_info.0) - 1'):
        'k_graph >= 4',
    ('skalo::read_graph::build_variant_groups', 'i - 1'):
        'i == 0 is the entry k-mer, which is in start_kmers and passes the first test (0 <= len - k_graph), so this branch has i >= 1',
    ('skalo::read_graph::build_variant_groups', 'len(&*v) - 2'):
        'paths in tmp_container start as [entry, first] and only grow: len >= 2',
}

GRID = range(0, 4)


def _atoms(e, out):
    k = e[0]
    if k == 'bin' and e[1] in ('Add', 'Sub', 'Mul'):
        _atoms(e[2], out)
        _atoms(e[3], out)
    elif k == 'cast':
        _atoms(e[1], out)
    elif k == 'const':
        pass
    else:
        if e not in out:
            out.append(e)


def _norm(s):
    """expression text normalised so that moving the statement into / out of a closure keeps its key: captured variables
    (`*upvar:x`) read like the variable itself"""
    s = re.sub(r"\*?upvar:\*?", '', s)
    return s.replace('(*', '*(').replace('  ', ' ')


def _owner(name):
    """function owning a (possibly nested) closure body"""
    return re.sub(r"(::\{closure#\d+\})+$", '', name)


import re
_SUBCALL = re.compile(r"^<&?(u8|u16|u32|u64|u128|usize) as std::ops::Sub(Assign)?<&?(u8|u16|u32|u64|u128|usize)>>::sub(_assign)?$")


def sites(facts):
    """[(body, eb, bb, term, lhs, rhs)]: checked subtractions (Overflow:Sub asserts) and unsigned Sub / SubAssign trait calls"""
    out = []
    for b in sorted(facts.bodies.values(), key=lambda b: b.path):
        if not b.name.startswith(SCOPE) or b.kind == 'Promoted':
            continue
        eb = ExprBuilder(b, through_vars=False)
        for blk in b.blocks:
            if blk.idx not in b.live_blocks():
                continue
            t = blk.term
            if t.k == 'assert' and (t.msg or '').startswith('Overflow:Sub') and not t.exp:
                le, re_ = eb.operand(t.msg_ops[0]), eb.operand(t.msg_ops[1])
                out.append((b, eb, blk.idx, t, le, re_))
            elif t.k == 'call' and not t.exp and _SUBCALL.match(t.callee.name or '') and len(t.args) == 2:
                le, re_ = eb.operand(t.args[0]), eb.operand(t.args[1])
                while le[0] in ('ref', 'deref'):
                    le = le[1]
                while re_[0] in ('ref', 'deref'):
                    re_ = re_[1]
                out.append((b, eb, blk.idx, t, le, re_))
    return out


def _roots(e):
    return {x[1] for x in subexprs(e) if x[0] in ('var', 'arg')}


def _mutated_between(b, guards, bb, roots):
    """is one of the root locals written or mutably borrowed on a path from a guard to the site?"""
    from .util import reachable_without
    region = set()
    for g in guards:
        for s in b.succs(g):
            r = reachable_without(b, s, avoid_blocks=[g])
            if bb in r:
                # blocks on some path s ->* bb
                region |= {x for x in r if bb in reachable_without(b, x, avoid_blocks=[g])}
    for x in region:
        blk = b.blocks[x]
        for st in blk.stmts:
            if st.k == 'assign':
                if st.place.local in roots:
                    return True
                if st.rv.k == 'ref' and st.rv.j.get('bk') == 'mut' and st.rv.place.local in roots:
                    return True
        t = blk.term
        if t.k == 'call' and x != bb and t.dest.local in roots:
            return True
    return False


def discharged_by_path(b, eb, bb, le, re_):
    """True iff on the grid the path condition to bb implies le >= re_.  Leaves that cannot be expressed over the atoms of
    le / re_ are free (tried both ways).  Two syntactically equal pure reads (x.len() at the guard and at the site) are
    identified only if x is not written or mutably borrowed between the guard and the site."""
    atoms = []
    _atoms(le, atoms)
    _atoms(re_, atoms)
    if not atoms or len(atoms) > 4:
        return False, 'too many atoms'
    keys = [show(a) for a in atoms]
    try:
        F = reach_formula(b, eb, 0, bb, back_edges_ok=True)
    except Exception as ex:        # formula construction failed: not discharged automatically
        return False, 'no path formula (%s)' % type(ex).__name__

    def leaf_env(env):
        def leaf(x):
            k = show(x)
            if k in env:
                return env[k]
            raise Unevaluable()
        return leaf
    free = []
    used_guard_exprs = []

    def collect(f):
        if f is True or f is False:
            return
        if f[0] == 'sw':
            try:
                eval_expr(f[1], leaf_env(dict((k, 0) for k in keys)))
                used_guard_exprs.append(f[1])
            except Unevaluable:
                if f[1] not in free:          # keyed by the expression itself (call nodes carry their site): distinct calls stay distinct
                    free.append(f[1])
            return
        for g in f[1:]:
            collect(g)
    collect(F)
    if not used_guard_exprs:
        return False, 'no guard on its path mentions the operands'
    gshow = {show(g) for g in used_guard_exprs}
    guards = [g for g in b.dominators()[bb] if b.blocks[g].term.k == 'switch' and show(eb.operand(b.blocks[g].term.discr)) in gshow]
    roots = set()
    for a_ in atoms:
        roots |= _roots(a_)
    if _mutated_between(b, guards, bb, roots):
        return False, 'an operand is modified between the guard and the subtraction'
    for vals in itertools.product(GRID, repeat=len(atoms)):
        env = dict(zip(keys, vals))
        try:
            a = eval_expr(le, leaf_env(env))
            c = eval_expr(re_, leaf_env(env))
        except Unevaluable:
            return False, 'operands not evaluable'
        if a >= c:
            continue
        # leaves that do not speak about the operands are over-approximated by "can be true" (the formula has negation only
        # at its leaves, so this is monotone: it can only make a site harder to discharge)
        def holds(f):
            if f is True or f is False:
                return f
            if f[0] == 'sw':
                try:
                    v = eval_expr(f[1], leaf_env(env))
                except Unevaluable:
                    return True
                return (v in f[2]) == f[3]
            if f[0] == 'and':
                return holds(f[1]) and holds(f[2])
            if f[0] == 'or':
                return holds(f[1]) or holds(f[2])
            return True
        feasible = holds(F)
        if feasible:
            return False, 'e.g. %s' % ', '.join('%s=%d' % kv for kv in env.items())
    return True, 'path condition implies %s >= %s on the grid (guards: %s)' % (show(le), show(re_), sorted(gshow)[:2])


def _subst(e, amap):
    if not isinstance(e, tuple):
        return e
    if e and e[0] == 'arg' and e[1] in amap:
        return amap[e[1]]
    return tuple(_subst(x, amap) if isinstance(x, (tuple, list)) else x for x in e) if not any(isinstance(x, list) for x in e) else \
        tuple([_subst(y, amap) for y in x] if isinstance(x, list) else (_subst(x, amap) if isinstance(x, tuple) else x) for x in e)


def _skeleton(s):
    """expression text without borrows, re-borrows and auto-deref calls: `len(&*deref(&seq))` and `len(&seq)` (a String read through
    a &str formal, or directly) have the same skeleton `len(seq)`.  Used only to match a helper's obligation, after substitution of
    the actual arguments, against the invariant recorded for the caller."""
    prev = None
    while prev != s:
        prev = s
        s = re.sub(r"\bderef\(([^()]*)\)", r"\1", s)
        s = re.sub(r"&(mut )?", '', re.sub(r"(^|[(\s,-])\*+(?=[\w(])", r"\1", s))
    return s.replace('  ', ' ')


def _via_callers(facts, b, le, re_, depth=2):
    """a site in a helper function: for every crate-local call site of the helper (all must be inside the skalo scope), substitute
    the actual arguments for the formals and look the obligation up under the caller - recorded invariant, or the same question
    one level further up.  -> [(caller, expression, how)] if every call site is covered, else None."""
    from ..facts import callers_of
    if depth == 0:
        return None
    if b.kind == 'Closure':
        # a closure inside a helper: its variables are closure parameters, locals or captures of the helper.  If the expression names
        # none of the helper's own parameters, nothing needs substituting: the obligation is looked up under each caller of the helper.
        own = _owner(b.name)
        ob = facts.by_name.get(own)
        if not ob or len(ob) != 1:
            return None
        ob = ob[0]
        expr = _norm('%s - %s' % (show(le), show(re_)))
        formals = [ob.local_names.get(i) for i in range(1, ob.arg_count + 1)]
        if any(f and re.search(r'\b%s\b' % re.escape(f), expr) for f in formals):
            return None
        callers = callers_of(facts).get(own)
        if not callers:
            return None
        out = []
        for cn in sorted(callers):
            if not cn.startswith(SCOPE):
                return None
            cown = _owner(cn)
            inv = next((v for (o, e), v in INVARIANTS.items() if o == cown and _skeleton(e) == _skeleton(expr)), None)
            if inv is None:
                return None
            out.append((cown.replace(SCOPE, ''), expr, 'recorded invariant'))
        return out or None
    callers = callers_of(facts).get(b.name)
    if not callers:
        return None
    out = []
    for cn in sorted(callers):
        if not cn.startswith(SCOPE):
            return None
        for cb in facts.by_name.get(cn, []):
            ceb = ExprBuilder(cb, through_vars=False)
            for bb, t in cb.calls():
                if (t.callee.name or '') != b.name:
                    continue
                amap = {i + 1: ceb.operand(a) for i, a in enumerate(t.args)}
                l2, r2 = _subst(le, amap), _subst(re_, amap)
                expr = _norm('%s - %s' % (show(l2), show(r2)))
                own = _owner(cb.name)
                inv = next((v for (o, e), v in INVARIANTS.items() if o == own and _skeleton(e) == _skeleton(expr)), None)
                if inv is not None:
                    out.append((own.replace(SCOPE, ''), expr, 'recorded invariant'))
                    continue
                ok, why = discharged_by_path(cb, ceb, bb, l2, r2)
                if ok:
                    out.append((own.replace(SCOPE, ''), expr, 'path condition at the call site'))
                    continue
                up = _via_callers(facts, cb, l2, r2, depth - 1)
                if up is None:
                    return None
                out.extend(up)
    return out or None


def check(facts, chk, rule):
    ss = sites(facts)
    chk.floor(rule, 'unsigned subtraction sites in skalo', len(ss), 10)
    seen = set()
    used = set()
    for b, eb, bb, t, le, re_ in ss:
        expr = _norm('%s - %s' % (show(le), show(re_)))
        key = '%s:%s:%s' % (rule, _owner(b.name).replace(SCOPE, ''), expr.replace(' ', ''))
        if key in seen:
            continue
        seen.add(key)
        ok, why = discharged_by_path(b, eb, bb, le, re_)
        if ok:
            chk.ok(rule, key, t.span, why, evals=len(GRID) ** 2)
            continue
        inv = INVARIANTS.get((_owner(b.name), expr))
        if inv is None:          # the same expression read through another layer of borrows (a borrowed iterator instead of an owned one ..)
            inv = next((v for (o, e), v in INVARIANTS.items() if o == _owner(b.name) and _skeleton(e) == _skeleton(expr)), None)
        if inv is not None:
            used.add((_owner(b.name), expr))
            chk.ok(rule, key, t.span, 'data invariant (confirmed by reading): %s' % inv, nontrivial=False)
            continue
        # the function was renamed: an entry recorded for a function that no longer exists, in the same module, for the same expression
        mod = _owner(b.name).rsplit('::', 1)[0]
        orphan = next(((o, e, v) for (o, e), v in INVARIANTS.items() if o not in facts.by_name and o.rsplit('::', 1)[0] == mod
                       and _skeleton(e) == _skeleton(expr)), None)
        if orphan is not None:
            used.add((orphan[0], orphan[1]))
            chk.ok(rule, key, t.span, 'data invariant (confirmed by reading; recorded under the former name %s, which no longer exists in %s): %s'
                   % (orphan[0].rsplit('::', 1)[1], mod, orphan[2]), nontrivial=False)
            continue
        moved = _via_callers(facts, b, le, re_)
        if moved is not None:
            chk.ok(rule, key, t.span, 'the subtraction sits in a helper; at every call site, with the actual arguments substituted, it is an obligation already discharged '
                   'for the caller: %s' % '; '.join('%s `%s` (%s)' % m for m in moved), nontrivial=False)
        else:
            chk.violation(rule, key, where=t.span,
                          detail='unsigned subtraction `%s` in %s is neither guarded on its path (%s) nor covered by a recorded data invariant: '
                                 'when it is negative `ska lo` aborts (debug profile) or continues with a wrapped value (release profile)' % (expr, b.name, why),
                          construct=dict(function=b.name, expression=expr, site=t.span))
