"""C05 - the VCF from map carries the same information as the mapped alignment.

Decided clauses (that noodles_vcf prints what it is given is trusted):
  C05.case   = C04.case sink (b): the reference base compared with mapped bases is upper case
  C05.gt     per-sample genotype decision: "0" iff mapped == ref; "." iff mapped == '-'; otherwise 1-based index of
             the base among the ALT alleles; `variant` is set exactly on the two latter paths; a record is written
             iff `variant`
  C05.base   u8_to_base: A,C,G,T map to themselves, every other byte to N (256 cells)
  C05.coord  record position = map_pos + 1, contig name = chrom_names[map_chrom], ref base = seq[map_chrom][map_pos];
             header contigs / samples iterate chrom_names / mapped_names; IdxCheck yields (contig, offset) for the
             concatenated index (all contig-length vectors with <=3 contigs of length 1..3)
Not decided: IdxCheckIter::next advances by at most one contig per call, which is correct only because FASTA
records are non-empty (parser invariant).
"""
from ..facts import AnchorLost
from ..expr import ExprBuilder, show, subexprs, affine
from ..cond import reach_formula, eval_formula, eval_expr, Unevaluable
from ..absint.interp import Interp, Panic
from ..absint.values import BV, Agg, RefV, Cell
from .util import reachable_without
from . import c04
from .c12 import _region_head

EXPLANATION = 'Path-condition truth tables for the genotype decision, finite-domain interpretation of u8_to_base and IdxCheck, provenance of record coordinates.'
ASSUMPTIONS = ['noodles_vcf writes the record it is given', 'FASTA records are non-empty']
RS = 'ska_ref::RefSka'


def run(facts, chk, tier, only=None):
    from . import cli_e2e
    # the subcommand through ska::main() itself (argument parser replaced by a constructed Args value): hand-over of CLI values, width dispatch
    chk.guard('C05.cli', 'C05.cli:run0', lambda: cli_e2e.check_map(facts, chk, 'C05.cli', tier, 'Vcf'))
    from . import vcf_e2e
    # the whole of `ska map -f vcf`, functionally, with the noodles builders recorded symbolically
    chk.guard('C05.e2e', 'C05.e2e:run', lambda: vcf_e2e.check_vcf_e2e(facts, chk, 'C05.e2e', tier))
    chk.guard('C05.case', 'C05.case:run', lambda: c04.check_case(facts, chk, 'C05'))
    from ..facts import fn_with_helpers
    # private helpers holding the header / record builders are inlined so that the anchors stay visible
    wv = fn_with_helpers(facts, RS + '::write_vcf', lambda c: (c.name or '').endswith(('add_contig', 'add_sample_name', 'set_chromosome', 'set_genotypes', 'set_position'))
                         or ((c.name or '').endswith('::from') and 'Position' in (c.full or '')), keep=(RS + '::pseudoalignment',))

    # ---------------------------------------------------------------- genotype decision
    def gt():
        eb = ExprBuilder(wv, through_vars=False)
        sf = [(bb, t) for bb, t in wv.calls() if (t.callee.name or '').endswith('From<&str>>::from') and t.args and t.args[0].j.get('str') in ('0', '.')]
        zero = [bb for bb, t in sf if t.args[0].j['str'] == '0']
        dot = [bb for bb, t in sf if t.args[0].j['str'] == '.']
        ts = [bb for bb, t in wv.calls() if (t.callee.name or '').endswith('ToString>::to_string') and 'usize' in (t.callee.full or '')]
        if len(zero) != 1 or len(dot) != 1 or len(ts) != 1:
            raise AnchorLost('write_vcf: genotype strings: %d "0", %d ".", %d index' % (len(zero), len(dot), len(ts)))
        # inner loop head: the `next` call whose Some edge dominates the "0" block
        nx = [bb for bb, t in wv.calls() if (t.callee.name or '').endswith('::next') and wv.dominates(bb, zero[0])]
        inner = [x for x in nx if all(wv.dominates(y, x) for y in nx)][0]      # innermost loop head
        sb = wv.blocks[inner].term.target
        st = wv.blocks[sb].term
        head = next(tg for v, tg in st.targets if v == 1)
        var_l = wv.locals_named('variant')
        if len(var_l) != 1:
            raise AnchorLost('write_vcf: local `variant`')
        var_l = var_l[0]
        sets = [b.idx for b in wv.blocks if b.idx in wv.live_blocks() for s in b.stmts
                if s.k == 'assign' and s.place.local == var_l and not s.place.proj and s.rv.k == 'use' and s.rv.ops[0].const_int() == 1]
        tabs = {}
        targets = {'zero': _region_head(wv, zero[0]), 'dot': _region_head(wv, dot[0]), 'index': None}
        # the index path: the block(s) setting variant that are not on the dot path
        for nm, tb in (('zero', zero[0]), ('dot', dot[0]), ('index', ts[0])):
            f = reach_formula(wv, eb, head, tb, stop=[inner], back_edges_ok=True)
            tab = {}
            for E in (0, 1):
                for G in (0, 1):
                    def leaf(x, E=E, G=G):
                        if x[0] == 'bin' and x[1] == 'Eq':
                            s = show(x)
                            if 'ref_base' in s and 'mapped_base' in s:
                                return E
                            if 'mapped_base' in s and x[3] == ('const', 45, 'u8'):
                                return G
                        if x[0] == 'call':
                            return 1      # helper predicates on the index path (contains etc.): either way leads to to_string
                        raise Unevaluable()
                    try:
                        tab[(E, G)] = bool(eval_formula(f, lambda ex: eval_expr(ex, leaf)))
                    except Unevaluable as u:
                        raise AnchorLost('genotype predicate not evaluable: %s' % u)
            tabs[nm] = tab
        # variant := true exactly on dot / index paths
        v_on_zero = any(s in reachable_without(wv, _region_head(wv, zero[0]), avoid_blocks=[inner]) for s in sets)
        v_on_dot = any(s in reachable_without(wv, _region_head(wv, dot[0]), avoid_blocks=[inner]) or wv.dominates(s, dot[0]) for s in sets)
        v_on_idx = any(wv.dominates(s, ts[0]) or s in reachable_without(wv, ts[0], avoid_blocks=[inner]) for s in sets)
        # write_record dominated by the true edge of a switch on `variant`
        wr = [bb for bb, t in wv.calls() if (t.callee.name or '').endswith('write_record')]
        if len(wr) != 1:
            raise AnchorLost('write_vcf: %d write_record calls' % len(wr))
        gated = False
        for b in wv.dominators()[wr[0]]:
            t = wv.blocks[b].term
            if t.k == 'switch' and eb.operand(t.discr) == ('var', var_l, 'variant'):
                fe = next((tg for v, tg in t.targets if v == 0), None)
                if fe is not None and wr[0] not in reachable_without(wv, fe, avoid_blocks=[b] + [x for x in nx]):
                    gated = True
        # alt index is position + 1
        idx_e = ExprBuilder(wv).operand(wv.blocks[ts[0]].term.args[0])
        plus1 = any(x[0] == 'bin' and x[1] == 'Add' and x[3] == ('const', 1, 'usize') and 'position' in show(x[2]) for x in subexprs(idx_e))
        return tabs, (v_on_zero, v_on_dot, v_on_idx), gated, plus1, wv.blocks[zero[0]].term.span
    r = chk.guard('C05.gt', 'C05.gt:write_vcf', gt)
    if r is not None:
        tabs, (vz, vd, vi), gated, plus1, sp = r
        spec = {'zero': lambda E, G: bool(E), 'dot': lambda E, G: (not E) and bool(G), 'index': lambda E, G: (not E) and (not G)}
        bad = [(nm, k) for nm in tabs for k in tabs[nm] if tabs[nm][k] != spec[nm](*k)]
        if bad:
            chk.violation('C05.gt', 'C05.gt:write_vcf:table', where=sp, evals=12,
                          detail='genotype decision differs from {"0" iff mapped==ref; "." iff mapped==\'-\'; else ALT index} at (string, (eq_ref, is_gap)) = %s' % (bad[:3],))
        else:
            chk.ok('C05.gt', 'C05.gt:write_vcf:table', sp, '"0" iff mapped == ref; "." iff mapped == \'-\' (and != ref); otherwise ALT index: 3 x 4 rows', evals=12)
        if vz or not vd or not vi:
            chk.violation('C05.gt', 'C05.gt:write_vcf:variant-flag', where=sp,
                          detail='`variant` set on the "0" path=%s, on the "." path=%s, on the ALT path=%s (expected False/True/True)' % (vz, vd, vi))
        else:
            chk.ok('C05.gt', 'C05.gt:write_vcf:variant-flag', sp, '`variant` is set exactly on the "." and ALT paths')
        if gated:
            chk.ok('C05.gt', 'C05.gt:write_vcf:record-gate', sp, 'write_record only under `variant`')
        else:
            chk.violation('C05.gt', 'C05.gt:write_vcf:record-gate', where=sp, detail='write_record is not gated by `variant`')
        if plus1:
            chk.ok('C05.gt', 'C05.gt:write_vcf:alt-index', sp, 'genotype of an ALT base = position in alt_bases + 1')
        else:
            chk.violation('C05.gt', 'C05.gt:write_vcf:alt-index', where=sp, detail='ALT genotype is not 1-based (position + 1)')

    # ---------------------------------------------------------------- u8_to_base
    def base():
        b = facts.fn('ska_ref::u8_to_base')
        # variant names from the aggregates in the body
        names = {}
        for blk in b.blocks:
            for s in blk.stmts:
                if s.k == 'assign' and s.rv.k == 'aggregate' and s.rv.j['kind'].get('k') == 'adt':
                    names[s.rv.j['kind']['variant']] = s.rv.j['kind']['vname']
        I = Interp(facts)
        bad = []
        for x in range(256):
            r = I.call_fn('ska_ref::u8_to_base', [BV(8, x)])
            got = names.get(r.variant)
            want = chr(x) if chr(x) in 'ACGT' else 'N'
            if got != want:
                bad.append((x, got, want))
        return bad
    r = chk.guard('C05.base', 'C05.base:u8_to_base', base)
    if r is not None:
        if r:
            chk.violation('C05.base', 'C05.base:u8_to_base', where='ska_ref::u8_to_base', evals=256, detail='(byte, got, expected) = %s' % (r[:4],))
        else:
            chk.ok('C05.base', 'C05.base:u8_to_base', 'ska_ref::u8_to_base', 'A,C,G,T -> themselves; every other byte -> N (256 cells)', evals=256)

    # ---------------------------------------------------------------- coordinates
    def coord():
        eb = ExprBuilder(wv, through_vars=False)
        ebt = ExprBuilder(wv)
        res = []
        pos = [(bb, t) for bb, t in wv.calls() if 'Position' in (t.callee.full or '') and (t.callee.name or '').endswith('::from')]
        if len(pos) != 1:
            raise AnchorLost('write_vcf: %d Position::from calls' % len(pos))
        pe = affine(eb.operand(pos[0][1].args[0]), atom_of=lambda e: e[2] if e[0] in ('var', 'arg') else show(e))
        res.append(('position', pe == ({'map_pos': 1}, 1), 'POS = %s' % show(eb.operand(pos[0][1].args[0]))))
        names_idx = facts.field_index(RS, 'chrom_names')
        seq_idx = facts.field_index(RS, 'seq')
        mn_idx = facts.field_index(RS, 'mapped_names')
        # chromosome: parse(chrom_names[map_chrom])
        sc = [(bb, t) for bb, t in wv.calls() if (t.callee.name or '').endswith('set_chromosome')]
        if len(sc) != 1:
            raise AnchorLost('write_vcf: %d set_chromosome calls' % len(sc))
        ce = ebt.operand(sc[0][1].args[1])
        ok_c = any(x[0] == 'call' and x[1].endswith('::index') and any(y[0] == 'field' and y[2] == names_idx for y in subexprs(x[2][0])) and
                   'map_chrom' in show(ExprBuilder(wv, through_vars=False).operand(wv.blocks[x[3]].term.args[1])) for x in subexprs(ce))
        res.append(('contig', ok_c, 'CHROM = chrom_names[map_chrom]'))
        # ref_base = seq[map_chrom][map_pos]
        rb = wv.locals_named('ref_base')[0]
        rbe = ebt.local_expr(rb)
        idxs = [x for x in subexprs(rbe) if x[0] == 'call' and x[1].endswith('::index')]
        shows = [show(ExprBuilder(wv, through_vars=False).operand(wv.blocks[x[3]].term.args[1])) for x in idxs]
        ok_r = len(idxs) == 2 and shows == ['map_pos', 'map_chrom'] and any(y[0] == 'field' and y[2] == seq_idx for y in subexprs(rbe))
        res.append(('ref-base', ok_r, 'REF = seq[map_chrom][map_pos] (%s)' % shows))
        # header loops
        ac = [(bb, t) for bb, t in wv.calls() if (t.callee.name or '').endswith('add_contig')]
        asn = [(bb, t) for bb, t in wv.calls() if (t.callee.name or '').endswith('add_sample_name')]
        its = [(bb, t, ebt.operand(t.args[0])) for bb, t in wv.calls() if (t.callee.name or '').endswith('into_iter')]

        def loop_source(call_bb, fidx):
            for bb, t, e in its:
                if wv.dominates(bb, call_bb) and any(y[0] == 'field' and y[2] == fidx for y in subexprs(e)):
                    return True
            return False
        # the per-position rows come from the transpose of the (samples x positions) alignment array
        asg = [(bb, t) for bb, t in wv.calls() if (t.callee.name or '').endswith('::assign')]
        tr = any(any(x[0] == 'call' and x[1].endswith('::t') for x in subexprs(ebt.operand(t.args[1]))) for _, t in asg)
        zp = [(bb, t) for bb, t in wv.calls() if (t.callee.name or '').endswith('Iterator::zip') and 'IdxCheckIter' in (t.callee.full or '')]
        ok_z = len(zp) == 1 and any(x[0] == 'call' and x[1].endswith('outer_iter') for x in subexprs(ebt.operand(zp[0][1].args[0])))
        res.append(('transpose', tr and ok_z, 'positions = outer_iter of the transposed alignment array, zipped with IdxCheck'))
        # recognised layout: one add_contig / add_sample_name call inside a `for` over the field; a fold / map / helper is "not recognised"
        # (the header content and order are decided end to end by C05.e2e:vcf)
        if len(ac) != 1 or len(asn) != 1:
            raise AnchorLost('write_vcf: %d add_contig / %d add_sample_name calls in the function body (header built elsewhere)' % (len(ac), len(asn)))
        if not any(wv.dominates(bb, ac[0][0]) for bb, t, e in its) or not any(wv.dominates(bb, asn[0][0]) for bb, t, e in its):
            raise AnchorLost('write_vcf: header calls are not inside a for loop')
        res.append(('header-contigs', len(ac) == 1 and loop_source(ac[0][0], names_idx), 'header contigs iterate chrom_names in order'))
        res.append(('header-samples', len(asn) == 1 and loop_source(asn[0][0], mn_idx), 'header samples iterate mapped_names in order'))
        return res
    r = chk.guard('C05.coord', 'C05.coord:write_vcf', coord)
    if r is not None:
        for nm, ok, why in r:
            if ok:
                chk.ok('C05.coord', 'C05.coord:write_vcf:%s' % nm, RS + '::write_vcf', why)
            else:
                chk.violation('C05.coord', 'C05.coord:write_vcf:%s' % nm, where=RS + '::write_vcf', detail='violated: ' + why)

    # ---------------------------------------------------------------- IdxCheck
    def idx():
        import itertools
        bad = []
        n = 0
        IC = 'ska_ref::idx_check::'
        maxc, maxl = (4, 4) if tier == 'thorough' else (3, 3)
        for nc in range(1, maxc + 1):
            for lens in itertools.product(range(1, maxl + 1), repeat=nc):
                I = Interp(facts)
                seqs = Cell(Agg('array', 0, [Agg('array', 0, [BV(8, 65)] * L) for L in lens]), 'ref')
                ic = Cell(I.call_fn(IC + 'IdxCheck::new', [RefV(seqs, (), (0, nc))]), 'ic')
                it = Cell(I.call_fn(IC + 'IdxCheck::iter', [RefV(ic)]), 'it')
                got = []
                for _ in range(sum(lens) + 1):
                    try:
                        r = I.call_fn('<' + IC + 'IdxCheckIter as std::iter::Iterator>::next', [RefV(it)])
                    except Panic as p:
                        got.append('panic:%s' % p.kind)
                        break
                    if r.variant == 0:
                        got.append(None)
                        break
                    got.append((r.fields[0].fields[0].val, r.fields[0].fields[1].val))
                want = [(c, p) for c, L in enumerate(lens) for p in range(L)]
                n += 1
                # the iterator is only driven for sum(lens) items by the zip with the alignment columns
                if got[:len(want)] != want:
                    bad.append((lens, got, want))
        return n, bad
    r = chk.guard('C05.coord', 'C05.coord:IdxCheck', idx)
    if r is not None:
        n, bad = r
        if bad:
            chk.violation('C05.coord', 'C05.coord:IdxCheck', where='ska_ref::idx_check', evals=n,
                          detail='contig lengths %s: IdxCheck yields %s, expected %s' % bad[0])
        else:
            chk.ok('C05.coord', 'C05.coord:IdxCheck', 'ska_ref::idx_check', 'absolute index -> (contig, offset) for all %d contig-length vectors (<=%d contigs, lengths 1..%d)' % (n, 4 if tier == 'thorough' else 3, 4 if tier == 'thorough' else 3), evals=n)
