"""C01 - build yields exactly the split k-mers of the input, IUPAC-merged per k-mer.

Decided clauses (the end-to-end statement follows only together with C15/C16 and the trusted parser):
  C01.guard   every end-of-record guard in SplitKmer::build / roll_fwd is *tight*: the guard lets control
              continue exactly when all the sequence reads it protects are in bounds (a window ending at the
              record end is kept; no read can go out of bounds)
  C01.args    all SplitKmer::new call sites pass seq() and num_bases() of the same record
  C01.canon   get_curr_kmer: (min(fwd, rc), its middle base, chosen != fwd); forward form when strands are off
  C01.pal     add_palindrome_to_dict / add_to_dict decision tables = IUPAC union
  C01.blocks  first-k-mer block and loop block of add_file_kmers apply the same predicate:
              (!is_reads || (middle_base_qual && is_eq(filter))) -> self_palindrome ? add_palindrome : add_to_dict
  C01.roll    = C16 obligations (layout, rolling = scratch, rc, decode)
Not decided: that needletail delivers records as written (wrapping, gzip).
"""
from ..facts import AnchorLost
from ..expr import ExprBuilder, show, subexprs, affine
from ..cond import reach_formula, eval_formula, eval_expr, Unevaluable, edge_conds, f_or, show_formula
from ..absint.interp import Interp, Panic, NONE, some, MapV
from ..absint.values import BV, Agg, RefV, Cell, Opaque
from .util import reachable_without
from .c12 import _region_head

EXPLANATION = ('Predicate extraction for the end-of-record guards (tightness against the bounds checks they protect, decided '
               'on a grid complete for unit-coefficient affine comparisons), decision tables by finite-domain abstract '
               'interpretation, sibling-block comparison of the dictionary update logic.')
ASSUMPTIONS = ['needletail yields each record\'s bases as written', 'SplitKmer::new is called with seq_len = len(seq) (C01.args)']
SK = 'ska_dict::split_kmer::SplitKmer::'
SETS = {'A': 'A', 'C': 'C', 'G': 'G', 'T': 'T', 'R': 'AG', 'Y': 'CT', 'S': 'CG', 'W': 'AT', 'K': 'GT', 'M': 'AC',
        'B': 'CGT', 'D': 'AGT', 'H': 'ACT', 'V': 'ACG', 'N': 'ACGT'}
CODE_OF = {frozenset(v): k for k, v in SETS.items()}
DEC = {0: 'A', 1: 'C', 2: 'T', 3: 'G'}
COMP = {'A': 'T', 'T': 'A', 'C': 'G', 'G': 'C'}
GRID = [(i, k, n) for i in range(0, 7) for k in range(1, 7) for n in range(0, 14)]


def _leaf_build(idx, k, n, i=None):
    def leaf(x):
        x0 = x
        while x0[0] == 'cast':
            x0 = x0[1]
        if x0[0] == 'deref' and x0[1][0] == 'arg' and x0[1][2] == 'idx':
            return idx
        if x0[0] == 'arg' and x0[2] == 'k':
            return k
        if x0[0] == 'arg' and x0[2] == 'seq_len':
            return n
        if x0[0] == 'len':
            return n
        if x0[0] == 'var' and x0[2] == 'i':
            if i is None:
                raise Unevaluable('loop variable outside the loop')
            return i
        if x0[0] == 'call' and x0[1].endswith('div_ceil'):
            a, b = eval_expr(x0[2][0], leaf), eval_expr(x0[2][1], leaf)
            return -(-a // b)
        raise Unevaluable()
    return leaf


def _expand_named(body, eb, e, keep=('i',)):
    """replace named single-assignment locals (e.g. `let pos = i + *idx;`) by their defining expression, so that hoisting a
    sub-expression into a `let` does not hide it from the grid evaluation; loop variables in `keep` stay symbolic"""
    if not isinstance(e, tuple):
        return e
    if e[0] == 'var' and e[2] not in keep:
        ds = [d for d in eb._defs.get(e[1], []) if not d[3]]
        if len(ds) == 1 and ds[0][1] != 'term':
            return _expand_named(body, eb, eb.rvalue(ds[0][2].rv), keep)
        return e
    return tuple(_expand_named(body, eb, x, keep) if isinstance(x, tuple) else
                 ([_expand_named(body, eb, y, keep) for y in x] if isinstance(x, list) else x) for x in e)


def check_guards(facts, chk, rule='C01.guard'):
    build = facts.fn(SK + 'build')
    eb = ExprBuilder(build, through_vars=False)
    # blocks that return None
    none_blocks = [b.idx for b in build.blocks if b.idx in build.live_blocks() and any(
        s.k == 'assign' and s.place.local == 0 and s.rv.k == 'aggregate' and s.rv.j['kind'].get('vname') == 'None' for s in b.stmts)]
    guards = []
    for b in build.blocks:
        if b.idx in build.live_blocks() and b.term.k == 'switch':
            for s, c in edge_conds(build, eb, b.idx):
                if s in none_blocks:
                    cont = [(s2, c2) for s2, c2 in edge_conds(build, eb, b.idx) if s2 != s]
                    guards.append((b.idx, s, cont))
    reads = [(b.idx, b.term) for b in build.blocks if b.idx in build.live_blocks() and b.term.k == 'assert' and b.term.msg == 'BoundsCheck'
             and 'seq' in show(eb.operand(b.term.msg_ops[0]))]
    chk.floor(rule, 'end-of-record guards in build', len(guards), 2)
    chk.floor(rule, 'guarded sequence reads in build', len(reads), 1)      # hoisting seq[i + idx] into a local leaves one read
    # loop bound i < k
    heads = [b.idx for b in build.blocks if b.idx in build.live_blocks() and b.term.k == 'switch' and
             eb.operand(b.term.discr)[0] == 'bin' and eb.operand(b.term.discr)[1] == 'Lt' and build.in_cycle(b.idx) and
             show(eb.operand(b.term.discr)[2]) == 'i' and show(eb.operand(b.term.discr)[3]) == 'k']
    if len(heads) != 1:
        raise AnchorLost('build: loop head `i < k` not found (%d candidates)' % len(heads))
    he = eb.operand(build.blocks[heads[0]].term.discr)
    if not (he[2][0] == 'var' and he[2][2] == 'i' and he[3][0] == 'arg' and he[3][2] == 'k'):
        raise AnchorLost('build: loop condition is %s, expected i < k' % show(he))
    # each read index must be i + *idx and each read must be inside the loop
    ridx = []
    for rb, t in reads:
        ie = _expand_named(build, eb, eb.operand(t.msg_ops[1]))
        af = affine(ie, atom_of=lambda e: ('idx' if (e[0] == 'deref' and e[1][0] == 'arg' and e[1][2] == 'idx') else
                                           ('i' if e[0] == 'var' and e[2] == 'i' else show(e))))
        ridx.append((rb, ie, af))
    order = sorted(guards, key=lambda g: g[0])
    names = ['entry', 'restart'] + ['extra%d' % i for i in range(len(order))]
    for gi, (gb, nb, cont) in enumerate(order):
        key = rule + ':SplitKmer::build:%s' % names[gi]

        def go(gb=gb, cont=cont):
            if len(cont) != 1:
                raise AnchorLost('guard bb%d has %d continue edges' % (gb, len(cont)))
            cform = cont[0][1]
            too_strict = []
            too_weak = []
            for (idx, k, n) in GRID:
                g = bool(eval_formula(cform, lambda ex: eval_expr(ex, _leaf_build(idx, k, n))))
                r = True
                for rb, ie, af in ridx:
                    for i in range(k):
                        if not (eval_expr(ie, _leaf_build(idx, k, n, i)) < n):
                            r = False
                if g and not r:
                    too_weak.append((idx, k, n))
                if r and not g:
                    too_strict.append((idx, k, n))
            return show_formula(cform, show), too_strict, too_weak
        r = chk.guard(rule, key, go)
        if r is None:
            continue
        form, strict, weak = r
        sp = build.blocks[gb].term.span
        if weak:
            chk.violation(rule, key, where=sp, evals=len(GRID),
                          detail='guard lets control continue (%s) although a read seq[i + *idx], i < k, is out of bounds, e.g. (idx,k,seq_len)=%s' % (form, weak[0]))
        elif strict:
            chk.violation(rule, key, where=sp, evals=len(GRID),
                          detail='guard is tighter than the reads it protects: it returns None although every read seq[i + *idx], i < k, is in '
                                 'bounds, e.g. (idx,k,seq_len)=%s - a window ending exactly at the record end is dropped. continue-condition: %s'
                                 % (strict[0], form),
                          construct=dict(function=SK + 'build', guard=sp, example=strict[0], reads=[show(x[1]) for x in ridx]))
        else:
            chk.ok(rule, key, sp, 'continue <=> all %d read sites in bounds (%s)' % (len(ridx), form), evals=len(GRID),
                   sample=dict(guard=form, reads=[show(x[1]) for x in ridx]))
    # unsigned arithmetic on the way to the guards must not underflow for any record length (a record shorter than k
    # must be skipped, not panic in debug builds / wrap in release builds)
    subs = [(b.idx, b.term) for b in build.blocks if b.idx in build.live_blocks() and b.term.k == 'assert' and b.term.msg.startswith('Overflow:Sub')]
    for sb, t in subs:
        le, re_ = eb.operand(t.msg_ops[0]), eb.operand(t.msg_ops[1])
        if any(x[0] == 'var' and x[2] == 'i' for x in list(subexprs(le)) + list(subexprs(re_))):
            continue
        # only subtractions evaluated before a window is known to fit: those not dominated by a guard's continue edge
        protected = False
        for gb, nb, cont in guards:
            if len(cont) == 1 and build.dominates(cont[0][0], sb):
                protected = True
        bad = []
        try:
            for (idx, k, n) in GRID:
                if protected and not (idx + k <= n):
                    continue
                if eval_expr(le, _leaf_build(idx, k, n)) - eval_expr(re_, _leaf_build(idx, k, n)) < 0:
                    bad.append((idx, k, n))
        except Unevaluable:
            continue
        key = rule + ':SplitKmer::build:underflow:%s' % show(('bin', 'Sub', le, re_)).replace(' ', '')
        if bad:
            chk.violation(rule, key, where=t.span, evals=len(GRID),
                          detail='unsigned subtraction %s - %s underflows for (idx,k,seq_len)=%s: a record shorter than k panics (debug) or wraps (release) instead of being skipped'
                                 % (show(le), show(re_), bad[0]))
        else:
            chk.ok(rule, key, t.span, '%s - %s cannot underflow on the grid' % (show(le), show(re_)), evals=len(GRID), nontrivial=False)
    # roll_fwd
    roll = facts.fn(SK + 'roll_fwd')
    ebr = ExprBuilder(roll, through_vars=False)
    fi = facts.field_index('ska_dict::split_kmer::SplitKmer', 'index')
    fn_ = facts.field_index('ska_dict::split_kmer::SplitKmer', 'seq_len')

    def go_roll():
        reads = [(b.idx, b.term) for b in roll.blocks if b.idx in roll.live_blocks() and b.term.k == 'assert' and b.term.msg == 'BoundsCheck']
        if len(reads) != 1:
            raise AnchorLost('roll_fwd: %d bounds-checked reads' % len(reads))
        rb, rt = reads[0]
        sw = [b.idx for b in roll.blocks if b.idx in roll.live_blocks() and b.term.k == 'switch' and roll.dominates(b.idx, rb) and
              any(x[0] == 'field' and x[2] == fn_ for x in subexprs(ebr.operand(b.term.discr)))]
        if len(sw) != 1:
            raise AnchorLost('roll_fwd: %d end-of-sequence guards' % len(sw))
        gb = sw[0]
        cont = [(s, c) for s, c in edge_conds(roll, ebr, gb) if rb in reachable_without(roll, s) and roll.dominates(s, rb)]
        if len(cont) != 1:
            raise AnchorLost('roll_fwd guard: %d continue edges' % len(cont))

        def leaf_for(idx, n):
            def leaf(x):
                x0 = x
                while x0[0] == 'cast':
                    x0 = x0[1]
                if x0[0] == 'field' and x0[2] == fi:
                    return idx
                if x0[0] == 'field' and x0[2] == fn_:
                    return n
                if x0[0] == 'len':
                    return n
                if x0[0] == 'var' and 'index' in x0[2]:
                    return idx
                raise Unevaluable()
            return leaf
        ie = ebr.operand(rt.msg_ops[1])
        strict, weak = [], []
        for idx in range(0, 10):
            for n in range(0, 10):
                g = bool(eval_formula(cont[0][1], lambda ex: eval_expr(ex, leaf_for(idx, n))))
                r = eval_expr(ie, leaf_for(idx, n)) < n
                if g and not r:
                    weak.append((idx, n))
                if r and not g:
                    strict.append((idx, n))
        return roll.blocks[gb].term.span, show_formula(cont[0][1], show), strict, weak
    r = chk.guard(rule, rule + ':SplitKmer::roll_fwd:end', go_roll)
    if r is not None:
        sp, form, strict, weak = r
        key = rule + ':SplitKmer::roll_fwd:end'
        if weak or strict:
            chk.violation(rule, key, where=sp, evals=100,
                          detail='end-of-sequence guard in roll_fwd is not tight: too weak at %s, too strict at %s (continue: %s)' % (weak[:1], strict[:1], form))
        else:
            chk.ok(rule, key, sp, 'continue <=> self.seq[self.index] in bounds (%s)' % form, evals=100)


def check_args(facts, chk):
    sites = []
    for b in facts.bodies.values():
        if b.kind == 'Promoted':
            continue
        for bb, t in b.calls():
            if (t.callee.name or '') == SK + 'new':
                sites.append((b, t))
    chk.floor('C01.args', 'SplitKmer::new call sites', len(sites), 3)
    for b, t in sites:
        key = 'C01.args:%s' % b.name

        def go(b=b, t=t):
            eb = ExprBuilder(b)
            s = eb.operand(t.args[0])
            n = eb.operand(t.args[1])
            is_seq = s[0] == 'call' and s[1].endswith('SequenceRecord::seq')
            is_nb = n[0] == 'call' and n[1].endswith('SequenceRecord::num_bases')
            if not (is_seq and is_nb):
                # the sequence / its length arrive some other way (parameters of a helper, a local slice ..): not a shape this rule
                # can judge - the functional rules decide what is enumerated
                raise AnchorLost('SplitKmer::new(%s, %s, ..) in %s: arguments are not record.seq() / record.num_bases()' % (show(s)[:60], show(n)[:60], b.name))
            ok = show(s[2][0]) == show(n[2][0])
            return ok, show(s), show(n)
        r = chk.guard('C01.args', key, go)
        if r is None:
            continue
        ok, s, n = r
        if ok:
            chk.ok('C01.args', key, t.span, 'SplitKmer::new(%s, %s, ..)' % (s, n))
        else:
            chk.violation('C01.args', key, where=t.span, detail='SplitKmer::new called with seq=%s but seq_len=%s' % (s, n))


def _mk_sk(facts, up, lo, mid, rcu, rcl, rcmid, rc):
    names = [f['name'] for f in facts.adt('ska_dict::split_kmer::SplitKmer')['variants'][0]['fields']]
    vals = dict(k=BV(64, 5), upper_mask=BV(64, 0xF0), lower_mask=BV(64, 0x0F), seq=Opaque('seq'), seq_len=BV(64, 9), qual=NONE,
                qual_filter=Agg('adt:QualFilter', 0, []), min_qual=BV(8, 0), index=BV(64, 4), upper=BV(64, up), lower=BV(64, lo),
                middle_base=BV(8, mid), rc=BV(1, rc), rc_upper=BV(64, rcu), rc_lower=BV(64, rcl), rc_middle_base=BV(8, rcmid), hash_gen=NONE)
    return Agg('adt:ska_dict::split_kmer::SplitKmer', 0, [vals[n] for n in names])


def check_canon(facts, chk):
    def go():
        I = Interp(facts, {'IntT': 'u64'})
        bad = []
        n = 0
        # representatives of the three orderings of (fwd, rc) split k-mers; values are only compared
        for (fu, fl, ru, rl) in ((0x10, 0x01, 0x20, 0x02), (0x20, 0x02, 0x20, 0x02), (0x30, 0x03, 0x20, 0x02), (0x20, 0x03, 0x20, 0x02), (0x20, 0x01, 0x20, 0x02)):
            for rc in (0, 1):
                n += 1
                sk = Cell(_mk_sk(facts, fu, fl, 1, ru, rl, 3, rc), 'sk')
                r = I.call_fn(SK + 'get_curr_kmer', [RefV(sk)])
                fwd, rcv = fu | fl, ru | rl
                if rc and rcv < fwd:
                    want = (rcv, 3, 1)
                else:
                    want = (fwd, 1, 0)
                got = (r.fields[0].val, r.fields[1].val, r.fields[2].val)
                if got != want:
                    bad.append(((fu | fl, ru | rl, rc), got, want))
                # self_palindrome <=> rc && arms equal
                sp = I.call_fn(SK + 'self_palindrome', [RefV(sk)]).val
                wsp = 1 if (rc and fu == ru and fl == rl) else 0
                if sp != wsp:
                    bad.append((('self_palindrome', fu, fl, ru, rl, rc), sp, wsp))
        return n, bad
    r = chk.guard('C01.canon', 'C01.canon:get_curr_kmer', go)
    if r is not None:
        n, bad = r
        if bad:
            chk.violation('C01.canon', 'C01.canon:get_curr_kmer', where=SK + 'get_curr_kmer', evals=n,
                          detail='(fwd, rc, strands) = %s gives %s, expected %s' % bad[0])
        else:
            chk.ok('C01.canon', 'C01.canon:get_curr_kmer', SK + 'get_curr_kmer',
                   'lower-ordered orientation with its own middle base; forward when strands are off or on a tie; self_palindrome <=> rc && arms equal', evals=2 * n)


def check_tables(facts, chk, rule='C01.pal'):
    SD = 'ska_dict::SkaDict'
    names = [f['name'] for f in facts.adt(SD)['variants'][0]['fields']]

    def mk(existing):
        m = MapV()
        if existing is not None:
            m.d[('bv', 64, 7)] = (BV(64, 7), Cell(BV(8, existing), 'mapval'))
        vals = dict(k=BV(64, 5), rc=BV(1, 1), sample_idx=BV(64, 0), name=Opaque('name'), split_kmers=m, kmer_filter=Opaque('kf'))
        return Cell(Agg('adt:' + SD, 0, [vals[n] for n in names]), 'dict'), m

    def go_pal():
        I = Interp(facts, {'IntT': 'u64'})
        bad = []
        n = 0
        for ex in (None, ord('W'), ord('S'), ord('N')):
            for b in range(4):
                n += 1
                d, m = mk(ex)
                try:
                    I.call_fn(SD + '::add_palindrome_to_dict', [RefV(d), BV(64, 7), BV(8, b)])
                    got = chr(m.d[('bv', 64, 7)][1].v.val)
                except Panic as p:
                    got = 'panic'
                have = set(SETS[chr(ex)]) if ex else set()
                want = CODE_OF[frozenset(have | {DEC[b], COMP[DEC[b]]})]
                if got != want:
                    bad.append((chr(ex) if ex else None, b, got, want))
        # other stored values must not be silently merged
        for ex in (ord('A'), ord('R')):
            n += 1
            d, m = mk(ex)
            try:
                I.call_fn(SD + '::add_palindrome_to_dict', [RefV(d), BV(64, 7), BV(8, 1)])
                bad.append((chr(ex), 1, chr(m.d[('bv', 64, 7)][1].v.val), 'panic'))
            except Panic:
                pass
        return n, bad
    r = chk.guard(rule, rule + ':add_palindrome_to_dict', go_pal)
    if r is not None:
        n, bad = r
        if bad:
            chk.violation(rule, rule + ':add_palindrome_to_dict', where=SD + '::add_palindrome_to_dict', evals=n,
                          detail='(existing, base, got, expected code of existing | {b, comp b}) = %s' % (bad[:4],))
        else:
            chk.ok(rule, rule + ':add_palindrome_to_dict', SD + '::add_palindrome_to_dict', '{absent,W,S,N} x 4 bases = code(existing | {b, comp b}); other stored values diverge', evals=n)

    def go_add():
        I = Interp(facts, {'IntT': 'u64'})
        bad = []
        n = 0
        for ex in [None] + [ord(c) for c in SETS]:
            for b in range(4):
                n += 1
                d, m = mk(ex)
                I.call_fn(SD + '::add_to_dict', [RefV(d), BV(64, 7), BV(8, b)])
                got = chr(m.d[('bv', 64, 7)][1].v.val)
                have = set(SETS[chr(ex)]) if ex else set()
                want = CODE_OF[frozenset(have | {DEC[b]})]
                if got != want:
                    bad.append((chr(ex) if ex else None, b, got, want))
        return n, bad
    r = chk.guard(rule, rule + ':add_to_dict', go_add)
    if r is not None:
        n, bad = r
        if bad:
            chk.violation(rule, rule + ':add_to_dict', where=SD + '::add_to_dict', evals=n,
                          detail='(existing, base, got, expected) = %s' % (bad[:4],))
        else:
            chk.ok(rule, rule + ':add_to_dict', SD + '::add_to_dict', '{absent + 15 codes} x 4 bases = code(existing | {b})', evals=n)


def block_tables(facts, body, heads, targets):
    """for each region head, truth tables (over is_reads R, middle_base_qual M, filter-equal F, self_palindrome P)
    of reaching each target call"""
    eb = ExprBuilder(body)
    out = []
    for head, tgts, stop in heads:
        tabs = {}
        for tname, tb in tgts.items():
            f = reach_formula(body, eb, head, tb, stop=stop, back_edges_ok=True)
            tab = {}
            for R in (0, 1):
                for M in (0, 1):
                    for F in (0, 1):
                        for P in (0, 1):
                            def leaf(x, R=R, M=M, F=F, P=P):
                                if x[0] == 'arg' and x[2] == 'is_reads':
                                    return R
                                if x[0] == 'call':
                                    n = x[1]
                                    if n.endswith('::middle_base_qual'):
                                        return M
                                    if n.endswith('Ordering::is_eq'):
                                        return F
                                    if n.endswith('::self_palindrome'):
                                        return P
                                raise Unevaluable()
                            tab[(R, M, F, P)] = bool(eval_formula(f, lambda ex: eval_expr(ex, leaf)))
            tabs[tname] = tab
        out.append(tabs)
    return out


def check_blocks(facts, chk):
    def go():
        # private helpers wrapping the two insert routines are inlined (MIR level), so that moving the
        # `if palindrome { add_palindrome_to_dict } else { add_to_dict }` choice into a helper keeps the anchors
        from ..facts import fn_with_helpers
        b = fn_with_helpers(facts, 'ska_dict::SkaDict::add_file_kmers',
                            lambda c: (c.name or '').endswith(('::add_palindrome_to_dict', '::add_to_dict')))
        ap = [bb for bb, t in b.calls() if (t.callee.name or '').endswith('::add_palindrome_to_dict')]
        ad = [bb for bb, t in b.calls() if (t.callee.name or '').endswith('::add_to_dict')]
        nk = [bb for bb, t in b.calls() if (t.callee.name or '').endswith('::get_next_kmer')]
        newc = [(bb, t) for bb, t in b.calls() if (t.callee.name or '') == SK + 'new']
        if len(ap) != 2 or len(ad) != 2 or len(nk) != 1 or len(newc) != 1:
            raise AnchorLost('add_file_kmers: %d/%d/%d/%d palindrome/add/next/new call sites' % (len(ap), len(ad), len(nk), len(newc)))
        # region heads: the Some-edge targets of `if let Some(kmer_it)` and `while let Some(..) = get_next_kmer()`
        def some_target(call_bb):
            sb = b.blocks[call_bb].term.target
            t = b.blocks[sb].term
            if t.k != 'switch':
                raise AnchorLost('call at bb%d not followed by a discriminant switch' % call_bb)
            return next(tg for v, tg in t.targets if v == 1)
        h1 = some_target(newc[0][0])
        h2 = some_target(nk[0])
        ap1, ap2 = sorted(ap)
        ad1, ad2 = sorted(ad)
        nkh = _region_head(b, nk[0])
        tabs = block_tables(facts, b, [(h1, dict(pal=_region_head(b, ap1), add=_region_head(b, ad1)), [nkh]),
                                       (h2, dict(pal=_region_head(b, ap2), add=_region_head(b, ad2)), [nkh])], None)
        return tabs
    r = chk.guard('C01.blocks', 'C01.blocks:add_file_kmers', go)
    if r is None:
        return
    first, loop = r
    spec = {}
    for R in (0, 1):
        for M in (0, 1):
            for F in (0, 1):
                for P in (0, 1):
                    acc = (not R) or (M and F)
                    spec[(R, M, F, P)] = (bool(acc and P), bool(acc and not P))
    for nm, tabs in (('first', first), ('loop', loop)):
        bad = [k for k in spec if (tabs['pal'][k], tabs['add'][k]) != spec[k]]
        key = 'C01.blocks:add_file_kmers:%s' % nm
        if bad:
            chk.violation('C01.blocks', key, where='ska_dict::SkaDict::add_file_kmers', evals=16,
                          detail='%s-k-mer block: (add_palindrome, add_to_dict) differs from the specified predicate at (is_reads, middle_qual_ok, count_reached, palindrome)=%s: got %s'
                                 % (nm, bad[0], (tabs['pal'][bad[0]], tabs['add'][bad[0]])))
        else:
            chk.ok('C01.blocks', key, 'ska_dict::SkaDict::add_file_kmers', '16-row truth table matches (!reads || (mid_qual && count_reached)) -> palindrome ? add_palindrome : add_to_dict', evals=16)
    if first != loop:
        chk.violation('C01.blocks', 'C01.blocks:add_file_kmers:siblings', where='ska_dict::SkaDict::add_file_kmers',
                      detail='first-k-mer block and loop block apply different predicates')
    else:
        chk.ok('C01.blocks', 'C01.blocks:add_file_kmers:siblings', 'ska_dict::SkaDict::add_file_kmers', 'first-k-mer block and loop block agree', evals=32)


def check_report(facts, chk):
    """`ska nk --full-info`: decode_kmer receives the masks in the order generate_masks returns them;
    per-sample counts count every symbol other than '-'"""
    MSA = 'merge_ska_array::MergeSkaArray'

    def go():
        fmt = facts.fn('<%s<IntT> as std::fmt::Debug>::fmt' % MSA)
        eb = ExprBuilder(fmt)
        # (lower_mask, upper_mask) = generate_masks(k): which tuple field feeds which captured name
        cl = [c for c in facts.closures_of(fmt.name) if any((t.callee.name or '').endswith('bit_encoding::decode_kmer') for _, t in c.calls())]
        if len(cl) != 1:
            raise AnchorLost('Debug::fmt: closure calling decode_kmer not found')
        c = cl[0]
        caps = [x['name'] for x in c.captures]
        # the closure aggregate in fmt: operands in capture order
        agg = [s for b in fmt.blocks for s in b.stmts if s.k == 'assign' and s.rv.k == 'aggregate' and s.rv.j['kind'].get('def') == c.path]
        if len(agg) != 1:
            raise AnchorLost('Debug::fmt: closure construction')
        prov = {}
        for nm, o in zip(caps, agg[0].rv.ops):
            e = eb.operand(o)
            while e[0] in ('ref', 'deref'):
                e = e[1]
            prov[nm] = e
        gm = facts.fn('<u64 as ska_dict::bit_encoding::UInt>::generate_masks')
        # generate_masks returns (lower_mask, upper_mask): field 0 = lower, field 1 = upper (checked under C16.O1)
        lo, up = prov.get('lower_mask'), prov.get('upper_mask')
        ok_prov = lo is not None and up is not None and lo[0] == 'field' and lo[2] == 0 and up[0] == 'field' and up[2] == 1 and \
            lo[1][0] == 'call' and lo[1][1].endswith('generate_masks') and up[1] == lo[1]
        ebc = ExprBuilder(c)
        t = [t for _, t in c.calls() if (t.callee.name or '').endswith('bit_encoding::decode_kmer')][0]
        dk = facts.fn('ska_dict::bit_encoding::decode_kmer')
        pn = [dk.local_names.get(i + 1) for i in range(dk.arg_count)]
        an = [show(ebc.operand(a)) for a in t.args]
        ok_args = pn == ['k', 'kmer', 'upper_mask', 'lower_mask'] and 'upper_mask' in an[2] and 'lower_mask' in an[3] and an[0].endswith('self.0')
        # n_sample_kmers closure: 1 iff v != '-'
        from ..absint.interp import Interp
        from ..absint.values import BV, Agg, RefV, Cell
        nk = facts.closures_of(MSA + '::n_sample_kmers')
        if len(nk) != 1:
            raise AnchorLost('n_sample_kmers closure')
        I = Interp(facts)
        bad = []
        for x in range(256):
            env = Agg('closure:' + nk[0].path, 0, [])
            envv = RefV(Cell(env, 'env')) if nk[0].local_ty(1).startswith('&') else env
            r = I.exec_body(nk[0], [envv, RefV(Cell(BV(8, x), 'v'))])
            if r.val != (0 if x == 45 else 1):
                bad.append(x)
        return ok_prov, ok_args, bad, an
    r = chk.guard('C01.report', 'C01.report:nk', go)
    if r is not None:
        ok_prov, ok_args, bad, an = r
        if ok_prov and ok_args:
            chk.ok('C01.report', 'C01.report:nk:masks', 'merge_ska_array', 'decode_kmer(k, kmer, upper_mask, lower_mask) with (lower, upper) = generate_masks(k): %s' % an)
        else:
            chk.violation('C01.report', 'C01.report:nk:masks', where='merge_ska_array',
                          detail='mask provenance into decode_kmer: tuple fields ok=%s, argument order ok=%s (%s)' % (ok_prov, ok_args, an))
        if bad:
            chk.violation('C01.report', 'C01.report:nk:sample-counts', where='merge_ska_array::MergeSkaArray::n_sample_kmers', detail='per-sample count predicate differs from v != gap at bytes %s' % bad[:5])
        else:
            chk.ok('C01.report', 'C01.report:nk:sample-counts', 'merge_ska_array::MergeSkaArray::n_sample_kmers', "a k-mer counts for a sample iff its symbol is not '-' (256 cells)", evals=256)


def run(facts, chk, tier, only=None):
    from . import cli_e2e
    # the subcommand through ska::main() itself (argument parser replaced by a constructed Args value): hand-over of CLI values, width dispatch
    chk.guard('C01.cli', 'C01.cli:run0', lambda: cli_e2e.check_build(facts, chk, 'C01.cli', tier))
    from . import cli_more2
    chk.guard('C01.cli', 'C01.cli:run2', lambda: cli_more2.check_build_proportion(facts, chk, 'C01.cli', tier))
    chk.guard('C01.cli', 'C01.cli:run1', lambda: cli_e2e.check_nk_distance(facts, chk, 'C01.cli', tier, 'nk'))
    from . import nk_e2e
    chk.guard('C01.e2e', 'C01.e2e:run', lambda: nk_e2e.check_nk_e2e(facts, chk, 'C01.e2e', tier))
    from . import skiter
    # the iterator itself, functionally, on a bounded family of sequences (complements the guard-tightness rule)
    chk.guard('C01.func', 'C01.func:iterator', lambda: skiter.check_contigs(facts, chk, 'C01.func', tier))
    chk.guard('C01.func', 'C01.func:dictionary', lambda: skiter.check_dict(facts, chk, 'C01.func', tier))
    chk.guard('C01.report', 'C01.report:run', lambda: check_report(facts, chk))
    chk.guard('C01.guard', 'C01.guard:run', lambda: check_guards(facts, chk))
    chk.guard('C01.args', 'C01.args:run', lambda: check_args(facts, chk))
    chk.guard('C01.canon', 'C01.canon:run', lambda: check_canon(facts, chk))
    chk.guard('C01.pal', 'C01.pal:run', lambda: check_tables(facts, chk))
    chk.guard('C01.blocks', 'C01.blocks:run', lambda: check_blocks(facts, chk))
