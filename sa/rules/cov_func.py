"""Functional rules for the model side of `ska cov` (C20.func:likelihood / C20.func:plot_hist), by numeric abstract
interpretation of the crate's own bodies (f64 arithmetic, ln / exp / lgamma modelled by libm semantics) on a grid of
parameter points and histograms; nothing is matched on the shape of the code.

  likelihood  log_likelihood(pars, counts) == sum_i counts[i] * ln( w0 Pois(i+1; 1) + (1 - w0) Pois(i+1; c) )   and
              grad_ll(pars, counts) == its analytic gradient (cross-checked here against central differences of the stated
              mixture), and MixPoisson::cost / ::gradient are their negations, at every grid point (relative tolerance 1e-9):
              row i of the table is multiplicity i+1 in the readers, and the gradient used by the fit is the true one.
  plot_hist   the printed table has one row per table entry: multiplicity i+1, counts[i], the mixture density at i+1 in {:e}
              form, and "Error" iff i+1 < cutoff else "Coverage" - for cut-offs below, inside, at and above the table and
              parameter points where the direct component comparison disagrees with the stored cut-off.
"""
import math

from ..facts import AnchorLost
from ..absint.interp import Interp, Panic
from ..absint.values import BV, Agg, RefV, Cell, Opaque
from ..absint.models_io import fmt_f64

CV = 'coverage::'
CH = 'coverage::CoverageHistogram'
MP = 'coverage::MixPoisson'


def _lse(a, b):
    m = max(a, b)
    return m + math.log(math.exp(a - m) + math.exp(b - m))


def _lnpois(x, lam):
    return x * math.log(lam) - math.lgamma(x + 1.0) - lam


def spec_ll(w0, c, counts):
    return sum(n * _lse(math.log(w0) + _lnpois(i + 1.0, 1.0), math.log(1.0 - w0) + _lnpois(i + 1.0, c)) for i, n in enumerate(counts))


def spec_grad(w0, c, counts):
    gw = gc = 0.0
    for i, n in enumerate(counts):
        x = i + 1.0
        la = math.log(w0) + _lnpois(x, 1.0)
        lb = math.log(1.0 - w0) + _lnpois(x, c)
        ra = 1.0 / (1.0 + math.exp(lb - la)) if lb - la < 700 else 0.0
        rb = 1.0 / (1.0 + math.exp(la - lb)) if la - lb < 700 else 0.0
        gw += n * (ra / w0 - rb / (1.0 - w0))
        gc += n * rb * (x / c - 1.0)
    return gw, gc


def _close(a, b, tol=1e-9):
    if a == b:
        return True
    return abs(a - b) <= tol * max(1.0, abs(a), abs(b))


def _grid(tier):
    hists = [[100.0, 50.0, 3.0, 20.0], [5000.0, 300.0, 20.0, 11.0, 40.0, 90.0, 160.0, 210.0, 190.0, 120.0, 70.0], [7.0], [0.0, 0.0, 12.0, 30.0, 12.0],
             [float(x) for x in (90000, 4000, 300, 60, 55, 70, 120, 260, 480, 760, 1020, 1210, 1260, 1180, 990, 760, 530, 340, 200, 110, 60)]]
    pts = [(0.6, 20.0), (0.8, 20.0), (0.3, 4.5), (0.95, 9.0), (0.05, 1.0), (0.5, 2.0)]
    if tier == 'thorough':
        pts += [(w, c) for w in (0.01, 0.2, 0.4, 0.7, 0.99) for c in (1.5, 3.0, 7.0, 12.0, 33.0, 80.0)]
        hists += [[float((i * 37) % 101) for i in range(1, 30)], [1.0] * 40]
    return pts, hists


def check_likelihood(facts, chk, rule, tier):
    key = rule + ':likelihood'
    pts, hists = _grid(tier)
    bad = []
    n = 0
    # the reference gradient must itself be the gradient of the stated mixture: central differences
    for w0, c in pts[:6]:
        for h in hists[:3]:
            gw, gc = spec_grad(w0, c, h)
            e = 1e-6
            nw = (spec_ll(w0 + e, c, h) - spec_ll(w0 - e, c, h)) / (2 * e) if e < w0 < 1 - e else gw
            nc = (spec_ll(w0, c + e, h) - spec_ll(w0, c - e, h)) / (2 * e)
            if not (_close(gw, nw, 1e-4) and _close(gc, nc, 1e-4)):
                raise AnchorLost('reference gradient disagrees with central differences at %s' % ((w0, c),))
    cost = [nm for nm in facts.by_name if nm.startswith('<' + MP) and nm.endswith('CostFunction>::cost')]
    grad = [nm for nm in facts.by_name if nm.startswith('<' + MP) and nm.endswith('Gradient>::gradient')]
    if len(cost) != 1 or len(grad) != 1:
        raise AnchorLost('MixPoisson cost / gradient impls: %d / %d' % (len(cost), len(grad)))
    mpf = [f['name'] for f in facts.adt(MP)['variants'][0]['fields']]
    if mpf != ['counts']:
        raise AnchorLost('MixPoisson fields are %s' % mpf)
    for w0, c in pts:
        for h in hists:
            I = Interp(facts)
            pars = Cell(Agg('array', 0, [w0, c]), 'pars')
            counts = Cell(Agg('array', 0, list(h)), 'counts')
            pr, cr = RefV(pars, (), (0, 2)), RefV(counts, (), (0, len(h)))
            want_ll = spec_ll(w0, c, h)
            want_g = spec_grad(w0, c, h)
            n += 1
            try:
                ll = I.call_fn(CV + 'log_likelihood', [pr, cr])
                g = I.call_fn(CV + 'grad_ll', [pr, cr])
                gv = [x for x in g.fields]
                mp = Cell(Agg('adt:' + MP, 0, [Agg('array', 0, list(h))]), 'mp')
                pv = RefV(Cell(Agg('array', 0, [w0, c]), 'p'))
                co = I.call_fn(cost[0], [RefV(mp), pv])
                gr = I.call_fn(grad[0], [RefV(mp), pv])
            except Panic as p:
                bad.append(((w0, c), h, 'panic: %s' % p.kind))
                continue
            if not _close(ll, want_ll):
                bad.append(((w0, c), h, 'log_likelihood = %r, the stated mixture (row i = multiplicity i+1) gives %r' % (ll, want_ll)))
            elif len(gv) != 2 or not (_close(gv[0], want_g[0]) and _close(gv[1], want_g[1])):
                bad.append(((w0, c), h, 'grad_ll = %r, the gradient of the stated mixture is %r' % (gv, list(want_g))))
            elif co.variant != 0 or not _close(co.fields[0], -want_ll):
                bad.append(((w0, c), h, 'cost = %r, expected the negated log-likelihood %r' % (co.fields[:1], -want_ll)))
            elif gr.variant != 0 or len(gr.fields[0].fields) != 2 or not all(_close(x, -y) for x, y in zip(gr.fields[0].fields, want_g)):
                bad.append(((w0, c), h, 'gradient = %r, expected the negated gradient %r' % (gr.fields[0].fields, [-x for x in want_g])))
    if bad:
        chk.violation(rule, key, where=CV + 'log_likelihood / grad_ll / MixPoisson', evals=n,
                      detail='%d of %d (parameter point, histogram) cases differ; first: (w0, c)=%s counts=%s: %s' % ((len(bad), n) + bad[0]))
    else:
        chk.ok(rule, key, CV + 'log_likelihood / grad_ll / MixPoisson::cost / ::gradient',
               'log-likelihood and gradient equal the stated two-Poisson mixture with row i = multiplicity i+1 and its true gradient (reference gradient cross-checked by central differences), '
               'cost and gradient negated, at %d parameter points x %d histograms (relative tolerance 1e-9)' % (len(pts), len(hists)), evals=n)


def _hist_value(facts, counts, w0, c, cutoff, fitted=1):
    names = [f['name'] for f in facts.adt(CH)['variants'][0]['fields']]
    vals = dict(k=BV(64, 31), rc=BV(1, 1), kmer_dict=Opaque('kmer_dict'), counts=Agg('array', 0, [BV(32, x) for x in counts]), w0=w0, c=c,
                cutoff=BV(64, cutoff), verbose=BV(1, 0), fitted=BV(1, fitted))
    if sorted(vals) != sorted(names):
        raise AnchorLost('CoverageHistogram fields are %s' % names)
    return Agg('adt:' + CH, 0, [vals[n] for n in names])


def check_plot_hist(facts, chk, rule, tier):
    key = rule + ':plot_hist'
    bad = []
    n = 0
    hists = [[5000, 300, 20, 11, 40, 90, 160, 210, 190, 120, 70], [100, 50], [9]]
    # (w0, c): in the first the components cross near 5, in the others the direct comparison says Coverage / Error everywhere
    pts = [(0.8, 8.0), (0.001, 1.0), (0.999, 1.0)]
    for h in hists:
        for w0, c in pts:
            for cutoff in sorted({0, 1, 2, 5, len(h) - 1, len(h), len(h) + 3}):
                if cutoff < 0:
                    continue
                I = Interp(facts, {'IntT': 'u64'})
                I.stdout_text = []
                hv = Cell(_hist_value(facts, h, w0, c, cutoff), 'hist')
                n += 1
                try:
                    I.call_fn(CH + '::plot_hist', [RefV(hv)])
                except Panic as p:
                    bad.append((h, (w0, c), cutoff, 'panic: %s' % p.kind))
                    continue
                got = ''.join(I.stdout_text).splitlines()
                want = ['Count\tK_mers\tMixture_density\tComponent']
                for i, cnt in enumerate(h):
                    x = i + 1.0
                    dens = math.exp(_lse(math.log(w0) + _lnpois(x, 1.0), math.log(1.0 - w0) + _lnpois(x, c)))
                    want.append('%d\t%d\t%s\t%s' % (i + 1, cnt, fmt_f64(dens, 'lower_exp'), 'Error' if i + 1 < cutoff else 'Coverage'))
                if len(got) != len(want):
                    bad.append((h, (w0, c), cutoff, '%d lines printed for a table of %d rows' % (len(got), len(h))))
                    continue
                for g, w in zip(got, want):
                    if g == w:
                        continue
                    gf, wf = g.split('\t'), w.split('\t')
                    if len(gf) == 4 and gf[:2] == wf[:2] and gf[3] == wf[3]:
                        try:
                            if _close(float(gf[2]), float(wf[2]), 1e-9):
                                continue
                        except ValueError:
                            pass
                    bad.append((h, (w0, c), cutoff, 'row printed as %r, the property gives %r' % (g, w)))
                    break
    # an unfitted histogram is not printed
    I = Interp(facts, {'IntT': 'u64'})
    I.stdout_text = []
    n += 1
    try:
        I.call_fn(CH + '::plot_hist', [RefV(Cell(_hist_value(facts, [3, 2], 0.8, 8.0, 0, fitted=0), 'hist'))])
        if ''.join(I.stdout_text).strip():
            bad.append(([3, 2], (0.8, 8.0), 0, 'a table is printed for a histogram that has not been fitted'))
    except Panic:
        pass
    if bad:
        chk.violation(rule, key, where=CH + '::plot_hist', evals=n,
                      detail='%d of %d cases differ; first: counts=%s (w0, c)=%s cutoff=%s: %s' % ((len(bad), n) + bad[0]))
    else:
        chk.ok(rule, key, CH + '::plot_hist', 'printed row i = (i+1, counts[i], mixture density at i+1, Error iff i+1 < cutoff else Coverage) for %d (table, parameters, cutoff) cases '
               'incl. cut-offs 0, 1, at and beyond the table end and parameters whose components never cross' % n, evals=n)


def check_counter_width(facts, chk, rule, tier):
    """the per-k-mer multiplicity counter and the histogram rows must not be narrower than 32 bits: read sets of the property's domain
    (coverage up to 80x, low-complexity reads) give single split k-mers tens of thousands of occurrences; a 16-bit counter aborts
    (debug profile) or wraps (release profile) there, and no bounded input family reaches that count"""
    import re
    key = rule + ':counter-width'
    fields = {f['name']: f['ty'] for f in facts.adt(CH)['variants'][0]['fields']}
    if 'kmer_dict' not in fields or 'counts' not in fields:
        raise AnchorLost('CoverageHistogram fields are %s' % sorted(fields))
    widths = {'u8': 8, 'u16': 16, 'u32': 32, 'u64': 64, 'u128': 128, 'usize': 64, 'i8': 8, 'i16': 16, 'i32': 32, 'i64': 64, 'isize': 64}
    m1 = re.search(r"HashMap<[^,]+,\s*(\w+)", fields['kmer_dict'])
    m2 = re.search(r"Vec<(\w+)", fields['counts'])
    if not m1 or not m2 or m1.group(1) not in widths or m2.group(1) not in widths:
        raise AnchorLost('counter types not recognised: kmer_dict %s, counts %s' % (fields['kmer_dict'], fields['counts']))
    w1, w2 = widths[m1.group(1)], widths[m2.group(1)]
    if w1 < 32 or w2 < 32:
        chk.violation(rule, key, where=CH, detail='multiplicity counter %s (kmer_dict value) / histogram row %s (counts): narrower than 32 bits - a split k-mer seen more than %d times overflows it'
                      % (m1.group(1), m2.group(1), (1 << min(w1, w2)) - 1))
    else:
        chk.ok(rule, key, CH, 'multiplicity counter %s, histogram rows %s: at least 32 bits' % (m1.group(1), m2.group(1)))
