"""C11.order - results must not depend on the iteration order of hash maps and sets.

Each real process draws fresh hash seeds, so HashMap / HashSet / DashMap iteration order differs from run to run (the
property's "any repetition gives the same result").  The interpreter models these containers with a defined order; this rule
interprets whole subcommands a second time with that order REVERSED (interp.HASH_ORDER) and requires the same result as the
specification - identical output for map / align / distance / `ska lo -r`, the same column set for reference-free `ska lo`.
Two orders are not all orders; what this decides is that no step takes "the first" / "the last" element of a hash container or
carries state across the iteration in an order-sensitive way on these families (ties in a vote, first-come assignment, a flag
that is set but never reset).
"""
import random
from ..facts import AnchorLost
from ..absint import interp
from ..absint.interp import Panic
from . import e2e, lo_e2e


class _Reversed:
    def __enter__(self):
        interp.HASH_ORDER[0] = 'reverse'

    def __exit__(self, *a):
        interp.HASH_ORDER[0] = 'insertion'


def check_pipelines_reversed(facts, chk, rule, tier):
    """the end-to-end rules of map / align / distance / lo, run under the reversed iteration order, report under this rule's keys"""
    with _Reversed():
        e2e.check_map_e2e(facts, chk, rule, 'quick')
        e2e.check_align_e2e(facts, chk, rule, 'quick')
        e2e.check_distance_e2e(facts, chk, rule, 'quick')
        lo_e2e.check_snps(facts, chk, rule, 'quick')


def check_lo_ref_repeats(facts, chk, rule, tier):
    """`ska lo -r` on a reference that carries extra copies of the sequence around each SNP (repeats absent from the samples): every
    variant group collects a few votes for two spurious offsets besides the many for its true offset.  Under both iteration orders
    every planted SNP must be reported at its true coordinate with the true alleles."""
    key = rule + ':lo-ref-repeats'
    k = 9
    rng = random.Random(41)
    bad = []
    n = 0
    sets = 1 if tier != 'thorough' else 3
    for case in range(sets):
        ns = 4
        sites = [14, 34, 54]
        L = 70

        def variants(s, sites=sites):
            return [s[:st] + b + s[st + 1:] for st in sites for b in 'ACGT' if b != s[st]]
        anc = lo_e2e.ancestor(L, k, rng, variants)
        truth = []
        for st in sites:
            alt = rng.choice([b for b in 'ACGT' if b != anc[st]])
            col = [anc[st] if i % 2 == 0 else alt for i in range(ns)]
            truth.append(col)
        samples = []
        for i in range(ns):
            g = list(anc)
            for st, col in zip(sites, truth):
                g[st] = col[i]
            samples.append(('s%d' % i, [''.join(g)]))
        # two extra copies of an 11-base stretch next to each site (3 graph k-mers each): spurious offsets with equal vote counts
        ref = anc
        for st in sites:
            seg = anc[st - 12:st - 1]
            ref += 'TTTTT' + seg + 'GGGGG' + seg
        outs = {}
        for order in ('insertion', 'reverse'):
            n += 1
            interp.HASH_ORDER[0] = order
            try:
                out = lo_e2e.run_lo(facts, samples, k, 1, reference=('anc', ref))
            except Panic as p:
                bad.append((order, 'ska lo -r aborts: %s' % p.kind))
                continue
            finally:
                interp.HASH_ORDER[0] = 'insertion'
            recs = {}
            for line in out.get('out_snps.vcf', '').splitlines():
                if line.startswith('#') or not line.strip():
                    continue
                f = line.split('\t')
                recs[int(f[1])] = (f[3], sorted(f[4].split(',')))
            want = {st + 1: (anc[st], sorted(set(col) - {anc[st]})) for st, col in zip(sites, truth)}
            outs[order] = recs
            if recs != want:
                bad.append((order, 'SNP records %s, planted %s' % (recs, want)))
        if len(outs) == 2 and outs['insertion'] != outs['reverse'] and not bad:
            bad.append(('both', 'the two iteration orders give different records'))
    if bad:
        chk.violation(rule, key, where='generic_modes::skalo (reference mode, repeats in the reference)', evals=n,
                      detail='%d problems in %d runs; first (hash iteration order = %s): %s' % (len(bad), n, bad[0][0], bad[0][1][:400]))
    else:
        chk.ok(rule, key, 'generic_modes::skalo (reference mode, repeats in the reference)',
               'every planted SNP is placed at its true coordinate although each variant group also collects equal numbers of votes for two spurious offsets, under both hash iteration orders (%d runs)' % n, evals=n)


def check_vote(facts, chk, rule, tier):
    """skalo::positioning::most_frequent_position (the vote that places a variant group on the reference) interpreted on vote vectors
    with a clear winner and tied minor offsets, with a tie at the top, and with a weak winner, under many iteration orders of its
    count map: the result is the specified one - (winner, count) iff the maximum is unique and >= 10 votes, else (0, 0) - whatever
    the order"""
    from ..absint.interp import Interp
    from ..absint.values import BV, Agg, RefV, Cell
    key = rule + ':most_frequent_position'
    fn = 'skalo::positioning::most_frequent_position'
    if fn not in facts.by_name:
        raise AnchorLost('%s not found' % fn)
    vectors = [[14] * 30 + [99] * 12 + [115] * 12 + [111] * 12, [99] * 12 + [14] * 30 + [115] * 12, [7] * 11 + [8] * 11 + [9] * 3, [5] * 9 + [6] * 2 + [7] * 2,
               [3] * 10, [], [21] * 12 + [22] * 12 + [23] * 40 + [24] * 12, [1] * 10 + [2] * 9 + [3] * 9 + [4] * 9 + [5] * 9]
    orders = ['insertion', 'reverse'] + ['shuffle:%d' % i for i in range(1, 9 if tier != 'thorough' else 40)]
    bad = []
    n = 0
    for nums in vectors:
        cnt = {}
        for x in nums:
            cnt[x] = cnt.get(x, 0) + 1
        top = max(cnt.values()) if cnt else 0
        winners = [x for x, c in cnt.items() if c == top]
        want = (winners[0], top) if len(winners) == 1 and top >= 10 else (0, 0)
        for o in orders:
            n += 1
            interp.HASH_ORDER[0] = o
            try:
                I = Interp(facts, {'IntT': 'u64'})
                arr = Cell(Agg('array', 0, [BV(32, x) for x in nums]), 'votes')
                r = I.call_fn(fn, [RefV(arr, (), (0, len(nums)))])
                got = (r.fields[0].val, r.fields[1].val) if hasattr(r, 'fields') else tuple(x.val for x in r)
            except Panic as p:
                got = 'panic: %s' % p.kind
            finally:
                interp.HASH_ORDER[0] = 'insertion'
            if got != want:
                bad.append((cnt, o, got, want))
    if bad:
        chk.violation(rule, key, where=fn, evals=n, detail='%d of %d (vote vector, iteration order) cases; first: votes %s iterated in order %s give %s, specified %s' % ((len(bad), n) + bad[0]))
    else:
        chk.ok(rule, key, fn, 'the vote result is (unique maximum with >= 10 votes) or (0, 0), independent of the iteration order of the count map (%d vote vectors x %d orders)' % (len(vectors), len(orders)), evals=n)
