"""Functional small-scope verification of the parallel build (merge_ska_dict::parallel_append / multi_append / append /
merge) by abstract interpretation: which column and which name each input sample ends up in, for every recursion depth.

`SkaDict::new` (which reads sequence files) is replaced by an abstract sample constructor keyed by the *file name* of the
input tuple; rayon::join is modelled as "run both closures" (C11.capture establishes that they share no mutable state).
The interpreted `parallel_append(depth, 0, files, n, ..)` must return the dictionary in which sample i (by position in
the input list) owns name i and column i of every row:  used by C11.func, C03.func and C02.func (sample index = input
position).
"""
from ..facts import AnchorLost
from ..absint.interp import Interp, Panic, MapV, StrV, NONE, UNIT
from ..absint.values import BV, Agg, RefV, Cell, Opaque

MSD = 'merge_ska_dict::MergeSkaDict'
SD = 'ska_dict::SkaDict'
SHARED = 7
PROP = Agg('adt:std::option::Option', 1, [0.5])          # --proportion-reads as handed to the build


def _sample_dict(facts, I, args, seen=None):
    """abstract SkaDict::new(k, sample_idx, (file1, file2), name, rc, qual, proportion_reads); the build options each sample is
    constructed with are recorded in `seen`"""
    names = [f['name'] for f in facts.adt(SD)['variants'][0]['fields']]
    k, idx, files, name, rc = args[0], args[1], args[2], args[3], args[4]
    if seen is not None:
        q = args[5]
        while isinstance(q, RefV):
            q = I.load(q)
        pr = args[6]
        seen.append((I.conc(k), I.conc(rc), q.tag if isinstance(q, Opaque) else repr(q), (pr.variant, pr.fields[0] if pr.variant == 1 else None)))
    f1 = files.fields[0]
    fs = I.load(f1) if isinstance(f1, RefV) else f1
    while isinstance(fs, RefV):
        fs = I.load(fs)
    fname = ''.join(fs.chars)
    j = int(fname[1:])                       # true identity of the sample: file "f<j>"
    nm = I.load(name) if isinstance(name, RefV) else name
    while isinstance(nm, RefV):
        nm = I.load(nm)
    m = MapV()
    for kmer, base in ((SHARED, ord('ACGT'[j % 4])), (100 + j, ord('A'))):
        kv = BV(64, kmer)
        m.d[('bv', 64, kmer)] = (kv, Cell(BV(8, base), 'base'))
    if j % 3 == 0:
        kv = BV(64, 50)
        m.d[('bv', 64, 50)] = (kv, Cell(BV(8, ord('C')), 'base'))
    vals = dict(k=k, rc=rc, sample_idx=idx, name=StrV(list(nm.chars)), split_kmers=m, kmer_filter=Opaque('kf'))
    if sorted(vals) != sorted(names):
        raise AnchorLost('SkaDict fields are %s' % names)
    return Agg('adt:' + SD, 0, [vals[n] for n in names])


def run_parallel(facts, n, depth, seen=None):
    I = Interp(facts, {'IntT': 'u64'})
    I.overrides[SD + '::new'] = lambda I_, a, t, c: _sample_dict(facts, I_, a, seen)
    files = Agg('array', 0, [Agg('tuple', 0, [StrV(list('n%d' % i)), StrV(list('f%d' % i)), NONE]) for i in range(n)])
    fc = Cell(files, 'files')
    qual = RefV(Cell(Opaque('qual'), 'qual'))
    if depth == 0:
        r = I.call_fn('merge_ska_dict::multi_append', [RefV(fc, (), (0, n)), BV(64, 0), BV(64, n), BV(64, 31), BV(1, 1), qual, PROP])
    else:
        r = I.call_fn('merge_ska_dict::parallel_append', [BV(64, depth), BV(64, 0), RefV(fc, (), (0, n)), BV(64, n), BV(64, 31), BV(1, 1), qual, PROP])
    names = [f['name'] for f in facts.adt(MSD)['variants'][0]['fields']]
    d = dict(zip(names, r.fields))
    got_names = [''.join(s.chars) if isinstance(s, StrV) else repr(s) for s in d['names'].fields]
    rows = {}
    for key, (kv, cell) in d['split_kmers'].d.items():
        rows[kv.val] = [x.val for x in cell.v.fields]
    return got_names, rows, d['n_samples'].val


def spec(n):
    rows = {SHARED: [ord('ACGT'[i % 4]) for i in range(n)]}
    for i in range(n):
        rows[100 + i] = [ord('A') if j == i else 0 for j in range(n)]
    if n > 0:
        rows[50] = [ord('C') if j % 3 == 0 else 0 for j in range(n)]
    return ['n%d' % i for i in range(n)], rows


def check_parallel_append(facts, chk, rule, tier):
    key = rule + ':parallel_append'
    bad = []
    nrun = 0
    sizes = (2, 3, 4, 5, 7, 8, 9) if tier != 'thorough' else tuple(range(2, 18))
    for n in sizes:
        for depth in (0, 1, 2, 3):
            if depth and (1 << depth) > n:
                continue
            nrun += 1
            seen = []
            try:
                names, rows, ns = run_parallel(facts, n, depth, seen)
            except Panic as p:
                bad.append((n, depth, 'panic: %s' % p.kind))
                continue
            wn, wr = spec(n)
            opts = set(seen)
            if len(seen) != n or opts != {(31, 1, 'qual', (1, 0.5))}:
                odd = [i for i, o in enumerate(seen) if o != (31, 1, 'qual', (1, 0.5))][:4]
                bad.append((n, depth, '%d samples constructed; samples (in construction order) %s were built with options (k, rc, quality options, proportion of reads) = %s instead of the ones given (31, 1, qual, Some(0.5))'
                            % (len(seen), odd, [seen[i] for i in odd][:2])))
                continue
            if names != wn:
                bad.append((n, depth, 'names %s, specified %s' % (names, wn)))
            elif rows != wr:
                k = [x for x in sorted(set(rows) | set(wr)) if rows.get(x) != wr.get(x)][0]
                bad.append((n, depth, 'k-mer %d: row %s, specified %s' % (k, [chr(x) if x else '0' for x in rows.get(k, [])], [chr(x) if x else '0' for x in wr.get(k, [])])))
            elif ns != n:
                bad.append((n, depth, 'n_samples %s' % ns))
    if bad:
        chk.violation(rule, key, where='merge_ska_dict::parallel_append', evals=nrun,
                      detail='%d of %d (samples, recursion depth) cases differ; first: %d samples, depth %d: %s' % ((len(bad), nrun) + bad[0]))
    else:
        chk.ok(rule, key, 'merge_ska_dict::parallel_append',
               'sample i (position in the input list) owns name i and column i of every row, and every sample is constructed with the k, strand mode, quality options and --proportion-reads given, for %s samples x recursion depth 0..3 (%d runs; SkaDict::new abstracted, rayon::join = both closures)' % (list(sizes), nrun), evals=nrun)
