"""C12 - read filtering keeps exactly the k-mers seen min-count times at passing quality.

Decided clauses:
  C12.qualcmp  valid_qual: None -> true; Some(q) -> q[idx]-33 >= min_qual   (complete grid)
  C12.sibling  the accept predicate in build is the exact negation of the restart predicate in roll_fwd
               (8-row truth table) and both test the position they are about to consume
  C12.middle   middle_base_qual decision table over {qual present?} x QualFilter
  C12.count    KmerFilter::filter: the Ordering returned for the j-th observation of one key is Equal
               exactly when the count reaches min_count (min_count 0..7 x 9 observations), bloom word
               update is w|f with test w&f==f
  C12.life     one filter per SkaDict; init() before use; filter only reached for reads; both files share it
  C12.hash     = C16 (O6/O7)
Not decided: Bloom-filter collision rate (<0.1%), a probabilistic runtime quantity.
"""
from ..facts import AnchorLost
from ..expr import ExprBuilder, show, subexprs
from ..cond import reach_formula, eval_formula, eval_expr, Unevaluable, atoms, show_formula
from ..absint.interp import Interp, Panic, NONE, some, MapV
from ..absint.values import BV, Agg, RefV, Cell, Opaque
from .util import reachable_without

EXPLANATION = ('Predicate extraction (path conditions over switch edges, truth tables) for the quality/accept/restart '
               'logic, and finite-domain abstract interpretation of valid_qual, middle_base_qual and the counting filter.')
ASSUMPTIONS = ['hashbrown HashMap entry API as documented', 'Bloom collision rate not decided']
SK = 'ska_dict::split_kmer::SplitKmer::'
KF = 'ska_dict::bloom_filter::KmerFilter'


def _qf(facts, name):
    return Agg('adt:QualFilter', facts.variant_index('QualFilter', name), [])


def _strict_promoted(facts, body, e):
    """is expression e (a promoted constant reference) QualFilter::Strict?"""
    for x in subexprs(e):
        if x[0] == 'promoted':
            pb = facts.bodies.get('%s::{promoted#%d}' % (x[1], x[2]))
            if pb is None:
                continue
            for blk in pb.blocks:
                for s in blk.stmts:
                    if s.k == 'assign' and s.rv.k == 'aggregate' and s.rv.j['kind'].get('adt') == 'QualFilter':
                        return s.rv.j['kind']['vname']
        if x[0] == 'agg' and x[1].startswith('adt:QualFilter::'):
            return x[1].split('::')[-1]
    return None


def accept_formula(facts, body, start, accept_blocks, stop):
    eb = ExprBuilder(body)
    f = False
    from ..cond import f_or
    for ab in accept_blocks:
        f = f_or(f, reach_formula(body, eb, start, ab, stop=stop, back_edges_ok=True))
    return eb, f


FILTERS = ('NoFilter', 'Middle', 'Strict')


def truth(facts, body, f):
    """evaluate formula over A = valid_base, the QualFilter value, V = valid_qual (12 rows)"""
    rows = {}
    for A in (0, 1):
        for F in FILTERS:
            for V in (0, 1):
                def leaf(x, A=A, F=F, V=V):
                    if x[0] == 'call':
                        n = x[1]
                        if n.endswith('bit_encoding::valid_base'):
                            return A
                        if n.endswith('::valid_qual'):
                            return V
                        if n.endswith('PartialEq>::ne') or n.endswith('PartialEq>::eq') or n.endswith('::ne') or n.endswith('::eq'):
                            which = [w for w in (_strict_promoted(facts, body, a) for a in x[2]) if w]
                            if len(which) != 1:
                                raise Unevaluable('comparison is not against a QualFilter constant: %r' % (which,))
                            same = int(which[0] == F)
                            return same if n.endswith('eq') else 1 - same
                    raise Unevaluable()
                rows[(A, F, V)] = bool(eval_formula(f, lambda ex: eval_expr(ex, leaf)))
    return rows


def run(facts, chk, tier, only=None):
    from . import cli_parsers
    cli_parsers.check_min_count_option(facts, chk, 'C12.opt')
    from . import skiter
    chk.guard('C12.func', 'C12.func:iterator-quality', lambda: skiter.check_reads(facts, chk, 'C12.func', tier))
    chk.guard('C12.func', 'C12.func:dictionary-reads', lambda: skiter.check_dict_reads(facts, chk, 'C12.func', tier))
    # the same through ska::main(): --min-count / --min-qual / --qual-filter reach the dictionary in both width arms of `ska build`
    from . import cli_e2e
    chk.guard('C12.cli', 'C12.cli:run0', lambda: cli_e2e.check_build_reads(facts, chk, 'C12.cli', tier))
    # ---------------------------------------------------------------- qualcmp
    def qualcmp():
        I = Interp(facts, {'IntT': 'u64'})
        bad = []
        n = 0
        for q in range(33, 127):
            cell = Cell(Agg('array', 0, [BV(8, 0), BV(8, q), BV(8, 0)]), 'qual')
            qs = some(RefV(cell, (), (0, 3)))
            for mq in range(0, 94):
                n += 1
                try:
                    r = I.call_fn(SK + 'valid_qual', [BV(64, 1), qs, BV(8, mq)])
                    got = r.val
                except Panic as p:
                    got = 'panic:%s' % p.kind
                want = 1 if (q - 33) >= mq else 0
                if got != want:
                    bad.append((q, mq, got, want))
        r = I.call_fn(SK + 'valid_qual', [BV(64, 1), NONE, BV(8, 20)])
        if r.val != 1:
            bad.append(('None', 20, r.val, 1))
        return n + 1, bad
    r = chk.guard('C12.qualcmp', 'C12.qualcmp:valid_qual', qualcmp)
    if r is not None:
        n, bad = r
        if bad:
            q, mq, got, want = bad[0]
            chk.violation('C12.qualcmp', 'C12.qualcmp:valid_qual', where=SK + 'valid_qual',
                          detail='valid_qual with quality char %r (PHRED %s) and min_qual %s gives %s, "at least minimum" requires %s '
                                 '(%d of %d grid points differ; all at PHRED == min_qual: %s)'
                                 % (chr(q) if isinstance(q, int) else q, q - 33 if isinstance(q, int) else '-', mq, got, want, len(bad), n,
                                    all(isinstance(b[0], int) and b[0] - 33 == b[1] for b in bad)),
                          evals=n, construct=dict(function=SK + 'valid_qual', failing=dict(phred=q - 33 if isinstance(q, int) else None, min_qual=mq)))
        else:
            chk.ok('C12.qualcmp', 'C12.qualcmp:valid_qual', SK + 'valid_qual', 'PHRED >= min_qual on the complete 94 x 94 grid; no quality -> true',
                   evals=n, sample=dict(fn='valid_qual', grid='q in 33..=126 x min_qual in 0..=93'))

    # ---------------------------------------------------------------- sibling predicates
    def sibling():
        build = facts.fn(SK + 'build')
        roll = facts.fn(SK + 'roll_fwd')
        ebb = ExprBuilder(build)
        # build: loop head = switch on Lt(i, k); body start = its true target; accept = block calling encode_base;
        heads = [b.idx for b in build.blocks if b.idx in build.live_blocks() and b.term.k == 'switch' and
                 ebb.operand(b.term.discr)[0] == 'bin' and ebb.operand(b.term.discr)[1] == 'Lt' and build.in_cycle(b.idx) and
                 show(ExprBuilder(build, through_vars=False).operand(b.term.discr)[2]) == 'i']
        if len(heads) != 1:
            raise AnchorLost('build: %d loop heads `i < k`' % len(heads))
        head = heads[0]
        body_start = build.blocks[head].term.otherwise
        acc = [bb for bb, t in build.calls() if (t.callee.name or '').endswith('bit_encoding::encode_base')]
        if len(acc) != 1:
            raise AnchorLost('build: %d encode_base calls' % len(acc))
        # walk back from the encode_base call to the start of its straight-line region
        eb1, f_build = accept_formula(facts, build, body_start, [_region_head(build, acc[0])], stop=[head])
        tb = truth(facts, build, f_build)
        # roll_fwd: restart = block calling Self::build ; start = block after the end-of-sequence guard that reads seq[index]
        ebr = ExprBuilder(roll)
        rs = [bb for bb, t in roll.calls() if (t.callee.name or '') == SK + 'build']
        vb = [bb for bb, t in roll.calls() if (t.callee.name or '').endswith('bit_encoding::valid_base')]
        if len(rs) != 1 or len(vb) != 1:
            raise AnchorLost('roll_fwd: %d build calls, %d valid_base calls' % (len(rs), len(vb)))
        eb2, f_roll = accept_formula(facts, roll, _region_head(roll, vb[0]), [_region_head(roll, rs[0])], stop=[])
        tr = truth(facts, roll, f_roll)
        # positions
        pos = []
        for body, eb in ((build, eb1), (roll, eb2)):
            vbe = [eb.operand(t.args[0]) for bb, t in body.calls() if (t.callee.name or '').endswith('bit_encoding::valid_base')]
            vqe = [eb.operand(t.args[0]) for bb, t in body.calls() if (t.callee.name or '') == SK + 'valid_qual']
            idx_vb = [x[2] for e in vbe for x in subexprs(e) if x[0] == 'index'][:1]
            pos.append((body.name, idx_vb, vqe))
        return tb, tr, pos, show_formula(f_build, show), show_formula(f_roll, show)
    r = chk.guard('C12.sibling', 'C12.sibling:build/roll_fwd', sibling)
    if r is not None:
        tb, tr, pos, fb, fr = r
        spec_acc = {(A, F, V): bool(A and ((F != 'Strict') or V)) for A in (0, 1) for F in FILTERS for V in (0, 1)}
        bad_b = [k for k in spec_acc if tb[k] != spec_acc[k]]
        bad_r = [k for k in spec_acc if tr[k] != (not spec_acc[k])]
        if bad_b:
            chk.violation('C12.sibling', 'C12.sibling:build:accept', where=SK + 'build',
                          detail='accept predicate in build differs from valid_base && (filter != Strict || valid_qual) at (valid, filter, qual_ok)=%s; extracted: %s' % (bad_b, fb), evals=12)
        else:
            chk.ok('C12.sibling', 'C12.sibling:build:accept', SK + 'build', 'accept <=> valid_base && (filter != Strict || valid_qual): 12 rows', evals=12,
                   sample=dict(fn='build', formula=fb[:300]))
        if bad_r:
            chk.violation('C12.sibling', 'C12.sibling:roll_fwd:restart', where=SK + 'roll_fwd',
                          detail='restart predicate in roll_fwd is not the negation of the accept predicate at (valid, filter, qual_ok)=%s; extracted: %s' % (bad_r, fr), evals=12)
        else:
            chk.ok('C12.sibling', 'C12.sibling:roll_fwd:restart', SK + 'roll_fwd', 'restart <=> !accept: 12 rows', evals=12,
                   sample=dict(fn='roll_fwd', formula=fr[:300]))
        for name, idx_vb, vqe in pos:
            key = 'C12.sibling:position:%s' % name.split('::')[-1]
            ok = bool(idx_vb) and bool(vqe) and all(_same_pos(idx_vb[0], q) for q in vqe)
            if ok:
                chk.ok('C12.sibling', key, name, 'valid_base and valid_qual test the same position %s' % show(idx_vb[0]),
                       sample=dict(fn=name, position=show(idx_vb[0])))
            else:
                chk.violation('C12.sibling', key, where=name, detail='valid_base tests position %s but valid_qual tests %s'
                              % ([show(x) for x in idx_vb], [show(x) for x in vqe]))

    # ---------------------------------------------------------------- middle_base_qual table
    def middle():
        bad = []
        n = 0
        k = 5
        L = 7
        for fname in ('NoFilter', 'Middle', 'Strict'):
            for has_q in (0, 1):
                for midq in (52, 53, 54):
                    I = Interp(facts, {'IntT': 'u64'})
                    seqc = Cell(Agg('array', 0, [BV(8, ord('A'))] * L), 'seq')
                    seq = Agg('cow', 0, [RefV(seqc, (), (0, L))])
                    qv = [BV(8, 70)] * L
                    qv[2] = BV(8, midq)          # middle position of the first 5-mer
                    qc = Cell(Agg('array', 0, qv), 'qual')
                    q = some(RefV(qc, (), (0, L))) if has_q else NONE
                    r = I.call_fn(SK + 'new', [seq, BV(64, L), q, BV(64, k), BV(1, 1), BV(8, 20), _qf(facts, fname), BV(1, 0)])
                    if r.variant != 1:
                        if fname == 'Strict' and has_q:
                            # strict mode drops the whole window when its middle base fails: no k-mer to ask about
                            n += 1
                            if midq - 33 >= 20:
                                bad.append((fname, has_q, midq - 33, 'no k-mer', 'k-mer with passing middle base'))
                            continue
                        raise AnchorLost('SplitKmer::new returned None in the middle_base_qual harness (filter %s)' % fname)
                    skc = Cell(r.fields[0], 'sk')
                    got = I.call_fn(SK + 'middle_base_qual', [RefV(skc)]).val
                    want = 1 if (not has_q or fname == 'NoFilter') else (1 if midq - 33 >= 20 else 0)
                    n += 1
                    if got != want:
                        bad.append((fname, has_q, midq - 33, got, want))
        return n, bad
    r = chk.guard('C12.middle', 'C12.middle:middle_base_qual', middle)
    if r is not None:
        n, bad = r
        if bad:
            chk.violation('C12.middle', 'C12.middle:middle_base_qual', where=SK + 'middle_base_qual',
                          detail='(filter, has_qual, PHRED, got, want) = %s' % (bad[:4],), evals=n)
        else:
            chk.ok('C12.middle', 'C12.middle:middle_base_qual', SK + 'middle_base_qual',
                   'no qual -> true; NoFilter -> true; Middle/Strict -> PHRED(middle) >= min_qual (%d cells)' % n, evals=n)

    # ---------------------------------------------------------------- counting filter
    def count():
        bad = []
        n = 0
        kfields = [f['name'] for f in facts.adt(KF)['variants'][0]['fields']]
        if kfields != ['buf_size', 'buffer', 'counts', 'min_count']:
            raise AnchorLost('KmerFilter fields are %s' % kfields)
        for mc in range(0, 8):
            I = Interp(facts, {'IntT': 'u64'})
            I.overrides[SK + 'get_hash'] = lambda I_, a, t, c: BV(64, 0x1234_5678_9abc_def1)
            kf = Cell(Agg('adt:' + KF, 0, [BV(64, 8), Agg('array', 0, [BV(64, 0)] * 8), MapV(), BV(16, mc)]), 'kf')
            for j in range(1, 10):
                r = I.call_fn(KF + '::filter', [RefV(kf), RefV(Cell(Opaque('kmer'), 'kmer'))])
                is_eq = (r.variant == 1)
                want = True if mc <= 1 else (j == mc) if mc >= 3 else (j >= 2)
                # min_count == 2: bloom only; every observation from the second on reports Equal
                n += 1
                if is_eq != want:
                    bad.append((mc, j, r, want))
        # bloom word algebra: bloom_add_and_check returns (w & f == f) and stores w | f
        I = Interp(facts, {'IntT': 'u64'})
        for w0 in (0, 0b1011, (1 << 64) - 1, 0x8000_0000_0000_0001):
            for key in (0, 1, 0x0fff_ffff, 0x1234_5678_9abc_def1):
                kf = Cell(Agg('adt:' + KF, 0, [BV(64, 1), Agg('array', 0, [BV(64, w0)]), MapV(), BV(16, 2)]), 'kf')
                fp = I.call_fn(KF + '::fingerprint', [BV(64, key)]).val
                r = I.call_fn(KF + '::bloom_add_and_check', [RefV(kf), BV(64, key)]).val
                w1 = kf.v.fields[1].fields[0].val
                n += 1
                if r != int(w0 & fp == fp) or w1 != (w0 | fp) or bin(fp).count('1') > 5 or fp == 0:
                    bad.append(('bloom', w0, key, (r, w1, fp)))
        # location < buf_size for extreme keys
        for key in (0, 1, (1 << 64) - 1, 0x8000_0000_0000_0000, 0x1234_5678_9abc_def1):
            for rng in (1, 8, 3145728, 25165824):
                loc = I.call_fn(KF + '::location', [BV(64, key), BV(64, rng)]).val
                n += 1
                if not (0 <= loc < rng):
                    bad.append(('location', key, rng, loc))
        return n, bad
    r = chk.guard('C12.count', 'C12.count:KmerFilter::filter', count)
    if r is not None:
        n, bad = r
        if bad:
            chk.violation('C12.count', 'C12.count:KmerFilter::filter', where=KF + '::filter',
                          detail='(min_count, observation, result, expected Equal?) = %s' % (bad[:4],), evals=n)
        else:
            chk.ok('C12.count', 'C12.count:KmerFilter::filter', KF + '::filter',
                   'Equal exactly when the observation count reaches min_count (0..7 x 9 observations); bloom word = w|f, test w&f==f; location < range',
                   evals=n, sample=dict(min_counts='0..7', observations=9))

    # ---------------------------------------------------------------- the counter is keyed by the full hash
    def key():
        b = facts.fn(KF + '::filter')
        eb = ExprBuilder(b)
        ent = [(bb, t) for bb, t in b.calls() if (t.callee.name or '').endswith('HashMap::entry')]
        bl = [(bb, t) for bb, t in b.calls() if (t.callee.name or '').endswith('bloom_add_and_check')]
        if not ent or not bl:
            raise AnchorLost('KmerFilter::filter: %d entry calls, %d bloom calls' % (len(ent), len(bl)))
        # every count-table key (and, below, every bloom key) must be the full hash, however many sites there are
        kes = [eb.operand(t.args[1]) for _, t in ent]
        ke = kes[0]
        full = all(x[0] == 'call' and x[1].endswith('SplitKmer::get_hash') for x in kes)
        kty = [f['ty'] for f in facts.adt(KF)['variants'][0]['fields'] if f['name'] == 'counts'][0]
        ty_ok = 'HashMap<u64,' in kty.replace(' ', '') or 'HashMap<u64, u16>' in kty
        blooms = [eb.operand(t.args[1]) for _, t in bl]
        bloom_ok = all(x[0] == 'call' and x[1].endswith('SplitKmer::get_hash') for x in blooms)
        # inside bloom_add_and_check: fingerprint and location are taken from the same, unmodified key
        ba = facts.fn(KF + '::bloom_add_and_check')
        eba = ExprBuilder(ba)
        fp = [eba.operand(t.args[0]) for _, t in ba.calls() if (t.callee.name or '').endswith('::fingerprint')]
        lc = [eba.operand(t.args[0]) for _, t in ba.calls() if (t.callee.name or '').endswith('::location')]
        same_key = len(fp) == 1 and len(lc) == 1 and fp[0] == lc[0] == ('arg', 2, 'key')
        return full and ty_ok, bloom_ok and same_key, show(ke), kty
    r = chk.guard('C12.count', 'C12.count:key', key)
    if r is not None:
        okk, okb, ke, kty = r
        if okk and okb:
            chk.ok('C12.count', 'C12.count:key', KF + '::filter', 'count table (%s) keyed by the full 64-bit hash %s; bloom word and fingerprint from the same key' % (kty, ke))
        else:
            chk.violation('C12.count', 'C12.count:key', where=KF + '::filter',
                          detail='the count table must be keyed by the full 64-bit k-mer hash (distinct k-mers must not share a counter beyond hash collisions): key=%s, table type %s, bloom keys ok=%s' % (ke, kty, okb))

    # ---------------------------------------------------------------- life cycle
    def life():
        res = []
        new = facts.fn('ska_dict::SkaDict::new')
        eb = ExprBuilder(new)
        kn = [(bb, t) for bb, t in new.calls() if (t.callee.name or '') == KF + '::new']
        init = [(bb, t) for bb, t in new.calls() if (t.callee.name or '') == KF + '::init']
        afk = [(bb, t) for bb, t in new.calls() if (t.callee.name or '') == 'ska_dict::SkaDict::add_file_kmers']
        # the rule knows the pinned layout (one KmerFilter::new, one init, two add_file_kmers calls in SkaDict::new, two filter sites in
        # add_file_kmers); any other layout is "not recognised" (soft: C12.func / C12.cli decide these clauses functionally), not a violation
        if len(kn) != 1 or len(init) != 1 or len(afk) != 2:
            raise AnchorLost('SkaDict::new: %d KmerFilter::new, %d init, %d add_file_kmers calls (1 / 1 / 2 on the pinned tree)' % (len(kn), len(init), len(afk)))
        res.append(('one-filter', len(kn) == 1 and not new.in_cycle(kn[0][0]), '%d KmerFilter::new calls in SkaDict::new' % len(kn)))
        res.append(('two-files-share', len(afk) == 2 and all(show(eb.operand(t.args[0])) == show(eb.operand(afk[0][1].args[0])) for _, t in afk)
                    and all(show(eb.operand(t.args[2])) == show(eb.operand(afk[0][1].args[2])) for _, t in afk),
                    '%d add_file_kmers calls on the same dictionary with the same is_reads' % len(afk)))
        # init() precedes add_file_kmers on every path on which is_reads is set to true
        if len(init) == 1:
            ib = init[0][0]
            # is_reads = true assignment lives in the region dominated by the Fastq test; init must dominate it
            tr = [b.idx for b in new.blocks if b.idx in new.live_blocks() for s in b.stmts
                  if s.k == 'assign' and new.local_names.get(s.place.local) == 'is_reads' and s.rv.k == 'use'
                  and s.rv.ops[0].const_int() == 1]
            if not tr:
                raise AnchorLost('SkaDict::new: no `is_reads = true` assignment found')
            ok = bool(tr) and all(new.dominates(ib, x) for x in tr) and all(new.dominates(ib, a[0]) or True for a in afk)
            res.append(('init-before-use', ok, 'init() dominates `is_reads = true` (%s)' % tr))
        else:
            res.append(('init-before-use', False, '%d init() calls' % len(init)))
        # in add_file_kmers the filter is consulted only under is_reads
        afkb = facts.fn('ska_dict::SkaDict::add_file_kmers')
        eba = ExprBuilder(afkb)
        fc = [(bb, t) for bb, t in afkb.calls() if (t.callee.name or '') == KF + '::filter']
        if len(fc) != 2:
            raise AnchorLost('add_file_kmers: %d KmerFilter::filter call sites (first k-mer and loop on the pinned tree)' % len(fc))
        res.append(('filter-sites', len(fc) == 2, '%d filter call sites (first k-mer, loop)' % len(fc)))
        for bb, t in fc:
            # every path to the call passes the true edge of a switch on is_reads
            sw = [b.idx for b in afkb.blocks if b.idx in afkb.live_blocks() and b.term.k == 'switch' and
                  eba.operand(b.term.discr) == ('arg', 3, 'is_reads')]
            guarded = False
            for s in sw:
                tterm = afkb.blocks[s].term
                f_edge = next((tg for v, tg in tterm.targets if v == 0), None)
                if afkb.dominates(s, bb) and f_edge is not None and bb not in reachable_without(afkb, f_edge, avoid_blocks=[s]):
                    guarded = True
            res.append(('filter-under-is_reads:%s' % t.span.split(':')[1], guarded, 'filter call at %s guarded by is_reads' % t.span))
            # the counting filter has a side effect: it may only be consulted for observations whose middle base passed the quality rule
            mq = [(b2, c2) for b2, c2 in afkb.calls() if (c2.callee.name or '').endswith('::middle_base_qual')]
            after_mq = False
            for b2, c2 in mq:
                sw2 = c2.target
                st2 = afkb.blocks[sw2].term
                if st2.k == 'switch' and afkb.dominates(sw2, bb):
                    f_edge = next((tg for v, tg in st2.targets if v == 0), None)
                    if f_edge is not None and bb not in reachable_without(afkb, f_edge, avoid_blocks=[sw2] + [x for x, c3 in afkb.calls() if (c3.callee.name or '').endswith('get_next_kmer') or (c3.callee.name or '').endswith('FastxReader::next')]):
                        after_mq = True
            res.append(('filter-after-midqual:%s' % t.span.split(':')[1], after_mq, 'filter call at %s is reached only after middle_base_qual() returned true (low-quality observations are not counted)' % t.span))
        return res
    r = chk.guard('C12.life', 'C12.life:SkaDict', life)
    if r is not None:
        for nm, ok, why in r:
            key = 'C12.life:%s' % nm.split(':')[0] if nm.startswith('filter-under') else 'C12.life:%s' % nm
            if nm.startswith('filter-under'):
                key = 'C12.life:filter-under-is_reads:%s' % ('first' if not any(i['key'] == 'C12.life:filter-under-is_reads:first' for i in chk.instances) else 'loop')
            if nm.startswith('filter-after'):
                key = 'C12.life:filter-after-midqual:%s' % ('first' if not any(i['key'] == 'C12.life:filter-after-midqual:first' for i in chk.instances) else 'loop')
            if ok:
                chk.ok('C12.life', key, 'ska_dict::SkaDict', why)
            else:
                chk.violation('C12.life', key, where='ska_dict::SkaDict', detail=why)


def _region_head(body, bb):
    """first block of the straight-line chain (unique predecessor/unique successor) ending in bb"""
    preds = body.preds()
    cur = bb
    while True:
        ps = [p for p in preds[cur] if p in body.live_blocks()]
        if len(ps) != 1:
            return cur
        p = ps[0]
        if len(set(body.succs(p))) != 1 or body.blocks[p].term.k == 'switch':
            return cur
        cur = p


def _same_pos(a, b):
    from ..expr import affine
    fa = affine(a, atom_of=_posatom)
    fb = affine(b, atom_of=_posatom)
    return fa is not None and fa == fb


def _posatom(e):
    x = e
    while x[0] in ('cast', 'ref'):
        x = x[1]
    if x[0] == 'deref' and x[1][0] in ('arg', 'var'):
        return x[1][2]
    if x[0] in ('arg', 'var'):
        return x[2]
    return show(x)
