"""C06 - align emits exactly the k-mer columns that pass the requested filters.

Decided clauses:
  C06.thresh  apply_filters: threshold = ceil(nsamples * min_freq) as usize; filter keeps a row only if count >= min_count
  C06.func    MergeSkaArray::filter and update_counts, interpreted (abstract interpretation of their MIR with models of
              Vec / HashSet / ndarray::Array2) on every row over a symbol alphabet^n (n = 1..3 samples), every filter type,
              all 16 flag combinations, every threshold 0..n+1 and arbitrary stored counts, equal the plain-table model:
              recount in the requested mode, drop empty rows, keep iff count >= threshold and the site predicate holds,
              mask ambiguity codes to N afterwards, k-mers / rows / counts stay aligned, return value = rows removed
  C06.stale   after apply_filters (k-mers not updated) only filter/apply_filters/update_counts/distance/write_fasta/
              names/nsamples are reached on that array before it is dropped
  C06.flags   CLI flag -> parameter provenance (no swapped same-typed flags); C06.fasta = C03.fasta
Not decided: tables wider than the bound; HashSet / ndarray semantics are modelled (assumed), not analysed.
"""
from ..facts import AnchorLost, _strip_generics
from ..expr import ExprBuilder, show, subexprs
from ..cond import reach_formula, eval_formula, eval_expr, Unevaluable
from ..absint.interp import Interp, Panic, some
from ..absint.values import BV, Agg, Cell, RefV
from .util import reachable_without
from . import c04
from .c12 import _region_head

EXPLANATION = ('Expression-tree extraction of the threshold; small-scope abstract interpretation of filter / update_counts against the '
               'plain-table model; typestate of the k-mers-stale array; flag provenance.')
ASSUMPTIONS = ['models of hashbrown::HashSet (new/insert/len/into_iter), ndarray::Array2 (zeros/push_row/axis_iter/mapv_inplace) and Vec are faithful',
               'rows wider than 3 samples behave like the narrower ones (the code treats a row as an unordered multiset of symbols)']
MSA = 'merge_ska_array::MergeSkaArray'


def run(facts, chk, tier, only=None):
    from . import cli_parsers
    cli_parsers.check_frequency_options(facts, chk, 'C06.opt')
    from . import cli_e2e
    # the subcommand through ska::main() itself (argument parser replaced by a constructed Args value): hand-over of CLI values, width dispatch
    chk.guard('C06.cli', 'C06.cli:run0', lambda: cli_e2e.check_align(facts, chk, 'C06.cli', tier))
    filt = facts.fn(MSA + '::filter')
    ebf = ExprBuilder(filt, through_vars=False)
    ebt = ExprBuilder(filt)

    # ---------------------------------------------------------------- threshold
    def thresh():
        af = facts.fn('generic_modes::apply_filters')
        eb = ExprBuilder(af)
        fc = [(bb, t) for bb, t in af.calls() if (t.callee.name or '') == MSA + '::filter']
        if len(fc) != 1:
            raise AnchorLost('apply_filters: %d filter calls' % len(fc))
        e = eb.operand(fc[0][1].args[1])
        # (ceil(nsamples as f64 * min_freq)) as usize
        ok = False
        s = show(e)
        if e[0] == 'cast' and e[2] == 'usize' and e[1][0] == 'call' and e[1][1].endswith('f64>::ceil') or (e[0] == 'cast' and e[1][0] == 'call' and e[1][1].endswith('::ceil')):
            inner = e[1][2][0]
            if inner[0] == 'bin' and inner[1] == 'Mul':
                ops = [show(inner[2]), show(inner[3])]
                ok = any('nsamples(' in o and 'as f64' in o for o in ops) and any(o == 'min_freq' for o in ops)
        uk = eb.operand(fc[0][1].args[6])
        return ok, s, uk, fc[0][1].span
    r = chk.guard('C06.thresh', 'C06.thresh:apply_filters', thresh)
    if r is not None:
        ok, s, uk, sp = r
        if ok:
            chk.ok('C06.thresh', 'C06.thresh:apply_filters', sp, 'threshold = %s' % s, sample=dict(threshold=s))
        else:
            chk.violation('C06.thresh', 'C06.thresh:apply_filters', where=sp, detail='frequency threshold is %s, specified ceil(nsamples * min_freq) as usize' % s)

    # ---------------------------------------------------------------- the operation itself (functional, small scope)
    # filter / update_counts are interpreted on every table of a bounded family and compared with the plain-table
    # model (predicates, threshold comparison, recount in the requested mode, masking, row alignment of
    # variants / variant_count / split_kmers, return value).  Replaces the earlier shape rules C06.pred / C06.order /
    # C06.rows, which raised false alarms on behaviour-preserving rewrites (see DESIGN.md section 12).
    from . import tableops
    chk.guard('C06.func', 'C06.func:filter', lambda: tableops.check_filter(facts, chk, 'C06.func', tier))
    chk.guard('C06.func', 'C06.func:update_counts', lambda: tableops.check_update_counts(facts, chk, 'C06.func', tier))
    chk.guard('C06.func', 'C06.func:wide:run', lambda: tableops.check_wide(facts, chk, 'C06.func', tier))
    chk.guard('C06.func', 'C06.func:apply_filters', lambda: tableops.check_apply_filters(facts, chk, 'C06.func', tier))
    ft = facts.adt('cli::FilterType')
    vnames = [v['name'] for v in ft['variants']]

    # ---------------------------------------------------------------- stale typestate
    def stale():
        allowed = {'filter', 'apply_filters', 'update_counts', 'distance', 'write_fasta', 'names', 'nsamples'}
        res = []
        for fn in ('generic_modes::align', 'generic_modes::distance'):
            b = facts.fn(fn)
            eb = ExprBuilder(b)
            af = [(bb, t) for bb, t in b.calls() if (t.callee.name or '') == 'generic_modes::apply_filters']
            if not af:
                raise AnchorLost('%s does not call apply_filters' % fn)
            first = min(bb for bb, t in af)
            after = reachable_without(b, b.blocks[first].term.target)
            bad = []
            for bb, t in b.calls():
                if bb not in after or t.callee.krate != 'ska':
                    continue
                n = t.callee.name or ''
                # the call receives the array itself (a re-borrow of the parameter), not a value derived from it by an allowed method
                def is_arr(e):
                    while e[0] in ('ref', 'deref'):
                        e = e[1]
                    return e[0] == 'arg' and e[2] == 'ska_array'
                uses_arr = any(is_arr(eb.operand(a)) for a in t.args)
                if uses_arr and n.split('::')[-1] not in allowed:
                    bad.append((n, t.span))
                # formatting the array ({ska_array} / {:?}) reads ksize / split_kmers
            for bb, t in b.calls():
                if bb in after and ('new_display' in (t.callee.name or '') or 'new_debug' in (t.callee.name or '')) and 'MergeSkaArray' in (t.callee.full or ''):
                    bad.append(('fmt of MergeSkaArray', t.span))
            res.append((fn, bad))
        # callers: after align()/distance() return, the array is not used again
        main = facts.fn('main')
        ebm = ExprBuilder(main)
        for callee in ('generic_modes::align', 'generic_modes::distance'):
            for bb, t in main.calls():
                if (t.callee.name or '') == callee:
                    arr = show(ebm.operand(t.args[0]))
                    after = reachable_without(main, t.target)
                    later = [(c.callee.name, c.span) for b2, c in main.calls() if b2 in after and c.callee.krate == 'ska' and
                             any(show(ebm.operand(a)) == arr for a in c.args)]
                    res.append(('main->%s@%s' % (callee.split('::')[-1], 'u128' if 'u128' in t.callee.full else 'u64'), later))
        return res
    r = chk.guard('C06.stale', 'C06.stale:scan', stale)
    if r is not None:
        chk.floor('C06.stale', 'entry points', len(r), 2)
        for nm, bad in r:
            key = 'C06.stale:%s' % nm
            if bad:
                chk.violation('C06.stale', key, where=bad[0][1],
                              detail='after apply_filters (update_kmers = false) the array has fewer rows than split k-mers; %s is reached on it' % bad[0][0])
            else:
                chk.ok('C06.stale', key, nm, 'only row-count-agnostic methods are reached on the k-mers-stale array')

    # ---------------------------------------------------------------- flags
    chk.guard('C06.flags', 'C06.flags:run', lambda: c04.check_flags(facts, chk, 'C06.flags'))

    def chain():
        """align's parameters reach filter's parameters of the same meaning"""
        want = {'min_freq': 'min_freq', 'filter_ambig_as_missing': 'filter_ambig_as_missing', 'filter': 'filter',
                'mask_ambig': 'ambig_mask', 'ignore_const_gaps': 'ignore_const_gaps'}
        al = facts.fn('generic_modes::align')
        eb = ExprBuilder(al, through_vars=False)
        af = facts.fn('generic_modes::apply_filters')
        t = [t for _, t in al.calls() if (t.callee.name or '') == 'generic_modes::apply_filters'][0]
        pn = [af.local_names.get(i + 1) for i in range(af.arg_count)]
        bad = []
        for a, p in zip(t.args, pn):
            s = c04._src_name(eb.operand(a), facts)
            if s in want and c04._nm(want[s]) != c04._nm(p):
                bad.append((s, p))
        ebf2 = ExprBuilder(af, through_vars=False)
        tf = [t for _, t in af.calls() if (t.callee.name or '') == MSA + '::filter'][0]
        pn2 = [filt.local_names.get(i + 1) for i in range(filt.arg_count)]
        for a, p in zip(tf.args, pn2):
            s = c04._src_name(ebf2.operand(a), facts)
            if s and p and s in ('filter_ambig_as_missing', 'filter', 'ambig_mask', 'ignore_const_gaps', 'update_kmers') and c04._nm(s) != c04._nm(p):
                bad.append((s, p))
        # main -> align
        main = facts.fn('main')
        ebm = ExprBuilder(main, through_vars=False)
        pn3 = [al.local_names.get(i + 1) for i in range(al.arg_count)]
        for _, tm in main.calls():
            if (tm.callee.name or '') == 'generic_modes::align':
                for a, p in zip(tm.args, pn3):
                    s = c04._src_name(ebm.operand(a), facts)
                    if s and p and s not in ('ska_array',) and c04._nm(s) != c04._nm(p) and s in ('min_freq', 'filter_ambig_as_missing', 'filter', 'ambig_mask', 'no_gap_only_sites', 'output'):
                        bad.append((s, p))
        return bad
    r = chk.guard('C06.flags', 'C06.flags:align-chain', chain)
    if r is not None:
        if r:
            chk.violation('C06.flags', 'C06.flags:align-chain', where='generic_modes::align', detail='CLI flag reaches a parameter of another meaning: %s' % r)
        else:
            chk.ok('C06.flags', 'C06.flags:align-chain', 'generic_modes::align', 'main -> align -> apply_filters -> filter: every flag reaches the parameter of the same name')

    # ---------------------------------------------------------------- fasta
    from . import c03
    chk.guard('C06.fasta', 'C06.fasta:run', lambda: c03.check_fasta(facts, chk, 'C06.fasta'))


def _can_reach(b, src, dst):
    return dst in reachable_without(b, src)
