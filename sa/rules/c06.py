"""C06 - align emits exactly the k-mer columns that pass the requested filters.

Decided clauses:
  C06.thresh  apply_filters: threshold = ceil(nsamples * min_freq) as usize; filter keeps a row only if count >= min_count
  C06.pred    per site filter: NoConst inserts a symbol iff !ignore_const_gaps || sym != '-' and keeps iff |set| > 1;
              NoAmbig rejects iff some symbol is ambiguous; NoAmbigOrConst contribution table over 256 bytes x flag
              (1 iff A/C/G/T/U in either case, or '-' when gaps count) and keeps iff the sum > 1; NoFilter keeps;
              the FilterType match is exhaustive
  C06.order   masking happens after the row loop and maps exactly the ambiguous symbols to 'N'
  C06.rows    in every function replacing variants / split_kmers / variant_count the pushes are control-equivalent
              (one frozen exception: filter's k-mer push is additionally guarded by update_kmers)
  C06.stale   after apply_filters (k-mers not updated) only filter/apply_filters/update_counts/distance/write_fasta/
              names/nsamples are reached on that array before it is dropped
  C06.flags   CLI flag -> parameter provenance (no swapped same-typed flags); C06.fasta = C03.fasta
Not decided: HashSet semantics of the distinct-symbol sets (library).
"""
from ..facts import AnchorLost, _strip_generics
from ..expr import ExprBuilder, show, subexprs
from ..cond import reach_formula, eval_formula, eval_expr, Unevaluable
from ..absint.interp import Interp, Panic, some
from ..absint.values import BV, Agg, Cell, RefV
from .util import reachable_without
from . import c04
from .c12 import _region_head

EXPLANATION = ('Expression-tree extraction of the threshold, path-condition truth tables and region-wise abstract interpretation of '
               'the per-symbol filter logic, control-equivalence of row-aligned pushes, typestate of the k-mers-stale array.')
ASSUMPTIONS = ['hashbrown::HashSet insert/len semantics', 'ndarray push_row keeps row order']
MSA = 'merge_ska_array::MergeSkaArray'


def run(facts, chk, tier, only=None):
    filt = facts.fn(MSA + '::filter')
    ebf = ExprBuilder(filt, through_vars=False)
    ebt = ExprBuilder(filt)

    # ---------------------------------------------------------------- threshold
    def thresh():
        af = facts.fn('generic_modes::apply_filters')
        eb = ExprBuilder(af)
        fc = [(bb, t) for bb, t in af.calls() if (t.callee.name or '') == MSA + '::filter']
        if len(fc) != 1:
            raise AnchorLost('apply_filters: %d filter calls' % len(fc))
        e = eb.operand(fc[0][1].args[1])
        # (ceil(nsamples as f64 * min_freq)) as usize
        ok = False
        s = show(e)
        if e[0] == 'cast' and e[2] == 'usize' and e[1][0] == 'call' and e[1][1].endswith('f64>::ceil') or (e[0] == 'cast' and e[1][0] == 'call' and e[1][1].endswith('::ceil')):
            inner = e[1][2][0]
            if inner[0] == 'bin' and inner[1] == 'Mul':
                ops = [show(inner[2]), show(inner[3])]
                ok = any('nsamples(' in o and 'as f64' in o for o in ops) and any(o == 'min_freq' for o in ops)
        uk = eb.operand(fc[0][1].args[6])
        return ok, s, uk, fc[0][1].span
    r = chk.guard('C06.thresh', 'C06.thresh:apply_filters', thresh)
    if r is not None:
        ok, s, uk, sp = r
        if ok:
            chk.ok('C06.thresh', 'C06.thresh:apply_filters', sp, 'threshold = %s' % s, sample=dict(threshold=s))
        else:
            chk.violation('C06.thresh', 'C06.thresh:apply_filters', where=sp, detail='frequency threshold is %s, specified ceil(nsamples * min_freq) as usize' % s)

    # structure of the row loop in filter
    def structure():
        pr = [bb for bb, t in filt.calls() if 'push_row' in (t.callee.name or '')]
        if len(pr) != 1:
            raise AnchorLost('filter: %d push_row calls' % len(pr))
        nx = [bb for bb, t in filt.calls() if (t.callee.name or '').endswith('::next') and filt.dominates(bb, pr[0]) and 'Zip' in (t.callee.full or '')]
        if len(nx) != 1:
            raise AnchorLost('filter: row loop head not found')
        head = nx[0]
        body = next(tg for v, tg in filt.blocks[filt.blocks[head].term.target].term.targets if v == 1)
        # frequency guard: first switch in the body on count >= min_count
        g = None
        for b in sorted(reachable_without(filt, body, avoid_blocks=[head])):
            t = filt.blocks[b].term
            if t.k == 'switch':
                e = ebf.operand(t.discr)
                if e[0] == 'bin' and 'min_count' in show(e):
                    g = b
                    break
        if g is None:
            raise AnchorLost('filter: frequency guard not found')
        # filter-type dispatch
        d = None
        for b in sorted(reachable_without(filt, body, avoid_blocks=[head])):
            t = filt.blocks[b].term
            if t.k == 'switch' and ebt.operand(t.discr)[0] == 'discr' and filt.dominates(g, b) and len(t.targets) >= 3:
                d = b
                break
        if d is None:
            raise AnchorLost('filter: FilterType dispatch not found')
        # keep_var test: the switch that separates push_row from the else-branch
        kv = [b for b in filt.dominators()[pr[0]] if filt.blocks[b].term.k == 'switch' and filt.dominates(d, b) and b != d]
        kv = [b for b in kv if all(filt.dominates(b, x) for x in [pr[0]])]
        keep_sw = max(kv) if kv else None
        if keep_sw is None:
            raise AnchorLost('filter: keep_var test not found')
        return dict(head=head, body=body, guard=g, dispatch=d, keep=keep_sw, push=pr[0])
    S = chk.guard('C06', 'C06:filter-structure', structure)
    if S is None:
        return
    ft = facts.adt('cli::FilterType')
    vnames = [v['name'] for v in ft['variants']]

    def guard_rule():
        t = filt.blocks[S['guard']].term
        e = ebf.operand(t.discr)
        # evaluate: pass edge dominates dispatch
        pass_edge = [s for s in set(t.succs()) if filt.dominates(s, S['dispatch']) or s == S['dispatch']]
        if len(pass_edge) != 1:
            raise AnchorLost('frequency guard: pass edge')
        from ..cond import edge_conds
        c = next(c for s, c in edge_conds(filt, ebf, S['guard']) if s == pass_edge[0])
        bad = []
        for cnt in range(0, 5):
            for mc in range(0, 5):
                def leaf(x, cnt=cnt, mc=mc):
                    s = show(x)
                    if x[0] == 'arg' and x[2] == 'min_count':
                        return mc
                    if s in ('*count', 'count') or (x[0] == 'deref' and 'count' in s):
                        return cnt
                    raise Unevaluable()
                if bool(eval_formula(c, lambda ex: eval_expr(ex, leaf))) != (cnt >= mc):
                    bad.append((cnt, mc))
        return bad, show(e), t.span
    r = chk.guard('C06.thresh', 'C06.thresh:filter:count-guard', guard_rule)
    if r is not None:
        bad, s, sp = r
        if bad:
            chk.violation('C06.thresh', 'C06.thresh:filter:count-guard', where=sp, evals=25, detail='row passes the frequency filter under %s; differs from count >= min_count at %s' % (s, bad[:3]))
        else:
            chk.ok('C06.thresh', 'C06.thresh:filter:count-guard', sp, 'row considered iff count >= min_count (%s)' % s, evals=25)

    # ---------------------------------------------------------------- per-filter predicates
    def preds():
        res = []
        dt = filt.blocks[S['dispatch']].term
        arms = {}
        for v, tg in dt.targets:
            if v < len(vnames):
                arms[vnames[v]] = tg
        res.append(('exhaustive', sorted(arms) == sorted(vnames) and not _can_reach(filt, dt.otherwise, S['keep']), 'FilterType arms: %s' % sorted(arms)))
        keep_local = filt.blocks[S['keep']].term.discr.place.local
        kv_defs = ebf._defs.get(keep_local, [])
        kv_src = kv_defs[0][2].rv.ops[0].place.local if kv_defs and kv_defs[0][1] != 'term' and kv_defs[0][2].rv.k == 'use' and kv_defs[0][2].rv.ops[0].place else keep_local

        def defs_in_arm(arm):
            reach = reachable_without(filt, arms[arm], avoid_blocks=[S['keep'], S['head']])
            out = []
            for (bb, idx, node, _p) in ebf._defs.get(kv_src, []):
                if bb in reach and idx != 'term':
                    out.append((bb, ebt.rvalue(node.rv)))
            return out, reach
        # NoFilter
        d, _ = defs_in_arm('NoFilter')
        res.append(('NoFilter', len(d) == 1 and d[0][1] == ('const', 1, 'bool'), 'NoFilter: keep_var = %s' % [show(x[1]) for x in d]))
        # NoConst
        d, reach = defs_in_arm('NoConst')
        ok = len(d) == 1 and d[0][1][0] == 'bin' and d[0][1][1] == 'Gt' and d[0][1][3] == ('const', 1, 'usize') and 'len(' in show(d[0][1][2])
        ins = [bb for bb, t in filt.calls() if bb in reach and (t.callee.name or '').endswith('HashSet::insert')]
        nxt = [bb for bb, t in filt.calls() if bb in reach and (t.callee.name or '').endswith('::next')]
        if len(ins) == 1 and len(nxt) == 1:
            body = next(tg for v, tg in filt.blocks[filt.blocks[nxt[0]].term.target].term.targets if v == 1)
            f = reach_formula(filt, ebf, body, _region_head(filt, ins[0]), stop=[nxt[0]], back_edges_ok=True)
            rows = []
            for flag in (0, 1):
                for isgap in (0, 1):
                    def leaf(x, flag=flag, isgap=isgap):
                        if x[0] == 'arg' and x[2] == 'ignore_const_gaps':
                            return flag
                        if x[0] == 'bin' and x[1] in ('Ne', 'Eq') and x[3] == ('const', 45, 'u8'):
                            return int(isgap == 0) if x[1] == 'Ne' else isgap
                        raise Unevaluable()
                    rows.append(bool(eval_formula(f, lambda ex: eval_expr(ex, leaf))) == ((not flag) or (not isgap)))
            ok = ok and all(rows)
        else:
            ok = False
        res.append(('NoConst', ok, 'NoConst: insert iff !ignore_const_gaps || sym != gap; keep iff |set| > 1 (%s)' % [show(x[1]) for x in d]))
        # NoAmbig
        d, reach = defs_in_arm('NoAmbig')
        amb = [bb for bb, t in filt.calls() if bb in reach and (t.callee.name or '').endswith('is_ambiguous')]
        ok = False
        if len(amb) == 1:
            sw = filt.blocks[amb[0]].term.target
            st = filt.blocks[sw].term
            if st.k == 'switch':
                tedge = st.otherwise
                # the `keep` flag local (source of keep_var in this arm)
                srcs = [x[1] for x in d]
                flag_locals = [x[1] for x in srcs if x[0] == 'var']
                ebl = ExprBuilder(filt, through_vars=False)
                srcl = [ebl.rvalue(node.rv) for (bb, idx, node, _p) in ebf._defs.get(kv_src, []) if bb in reach and idx != 'term']
                fl = [x[1] for x in srcl if x[0] == 'var']
                if len(fl) == 1:
                    sets0 = [bb for (bb, idx, node, _p) in ebf._defs.get(fl[0], []) if idx != 'term' and node.rv.k == 'use' and node.rv.ops[0].const_int() == 0]
                    sets1 = [bb for (bb, idx, node, _p) in ebf._defs.get(fl[0], []) if idx != 'term' and node.rv.k == 'use' and node.rv.ops[0].const_int() == 1]
                    fedge = next(tg for v, tg in st.targets if v == 0)
                    ok = len(sets0) == 1 and len(sets1) == 1 and sets0[0] in reachable_without(filt, tedge, avoid_blocks=[sw]) and \
                        sets0[0] not in reachable_without(filt, fedge, avoid_blocks=[sw, sets1[0]]) and filt.dominates(sets1[0], amb[0])
        res.append(('NoAmbig', ok, 'NoAmbig: keep starts true and becomes false exactly when is_ambiguous(sym)'))
        # NoAmbigOrConst: contribution table by region interpretation
        d, reach = defs_in_arm('NoAmbigOrConst')
        okc = len(d) == 1 and d[0][1][0] == 'bin' and d[0][1][1] == 'Gt' and d[0][1][3][0] == 'const' and d[0][1][3][1] == 1
        nxt = [bb for bb, t in filt.calls() if bb in reach and (t.callee.name or '').endswith('::next') and 'hash_set' in (t.callee.full or '')]
        tab_ok = False
        ncell = 0
        if okc and len(nxt) == 1:
            cnt_local = d[0][1][2][1] if d[0][1][2][0] == 'var' else None
            cexpr = ExprBuilder(filt, through_vars=False).rvalue([node for (bb, idx, node, _p) in ebf._defs.get(kv_src, []) if bb in reach and idx != 'term'][0].rv)
            cnt_local = cexpr[2][1] if cexpr[0] == 'bin' and cexpr[2][0] == 'var' else None
            sw = filt.blocks[nxt[0]].term.target
            body = next(tg for v, tg in filt.blocks[sw].term.targets if v == 1)
            opt_local = filt.blocks[nxt[0]].term.dest.local
            flag_arg = [i for i in range(1, filt.arg_count + 1) if filt.local_names.get(i) == 'ignore_const_gaps'][0]
            bad = []
            if cnt_local is not None:
                for flag in (0, 1):
                    for x in range(256):
                        I = Interp(facts, {'IntT': 'u64'})
                        fr = I.new_frame(filt)
                        fr[opt_local].v = some(BV(8, x))
                        fr[flag_arg].v = BV(1, flag)
                        fr[cnt_local].v = BV(32, 0, signed=True)
                        r = I.exec_body(filt, [], start=body, stop=[nxt[0]], frame=fr)
                        got = fr[cnt_local].v.val
                        ch = chr(x | 0x20)
                        want = 1 if ch in 'acgtu' else (1 if (ch == '-' and not flag) else 0)
                        ncell += 1
                        if got != want:
                            bad.append((x, flag, got, want))
                tab_ok = not bad
        res.append(('NoAmbigOrConst', okc and tab_ok, 'NoAmbigOrConst: contribution 1 iff A/C/G/T/U (either case) or gap when gaps count (%d cells); keep iff sum > 1' % ncell))
        return res
    r = chk.guard('C06.pred', 'C06.pred:filter', preds)
    if r is not None:
        for nm, ok, why in r:
            if ok:
                chk.ok('C06.pred', 'C06.pred:filter:%s' % nm, MSA + '::filter', why, evals=512 if nm == 'NoAmbigOrConst' else 4)
            else:
                chk.violation('C06.pred', 'C06.pred:filter:%s' % nm, where=MSA + '::filter', detail='violated: ' + why)

    # the counts compared with the threshold are recounted in the requested mode first (shared with C10.recount)
    from . import c10
    chk.guard('C06.order', 'C06.order:recount:run', lambda: c10.check_recount(facts, chk, 'C06.order:recount'))

    # ---------------------------------------------------------------- masking
    def mask():
        mv = [(bb, t) for bb, t in filt.calls() if 'mapv_inplace' in (t.callee.name or '')]
        if len(mv) != 1:
            raise AnchorLost('filter: %d mapv_inplace calls' % len(mv))
        after = S['head'] not in reachable_without(filt, mv[0][0])
        eb = ExprBuilder(filt)
        ce = eb.operand(mv[0][1].args[1])
        cl = [x[1][8:] for x in subexprs(ce) if x[0] == 'agg' and x[1].startswith('closure:')]
        if len(cl) != 1:
            raise AnchorLost('mask closure not found')
        c = facts.bodies[cl[0]]
        I = Interp(facts)
        bad = []
        for x in range(256):
            cnt = Cell(BV(32, 0, signed=True), 'masked')
            env = Agg('closure:' + c.path, 0, [RefV(cnt)])
            envv = RefV(Cell(env, 'env')) if c.local_ty(1).startswith('&') else env
            r = I.exec_body(c, [envv, BV(8, x)])
            amb = I.call_fn('ska_dict::bit_encoding::is_ambiguous', [BV(8, x)]).val
            want = ord('N') if amb else x
            if r.val != want:
                bad.append((x, r.val, want))
        # guarded by mask_ambig
        g = [b for b in filt.dominators()[mv[0][0]] if filt.blocks[b].term.k == 'switch' and ebf.operand(filt.blocks[b].term.discr) == ('arg', 4, 'mask_ambig')
             or (filt.blocks[b].term.k == 'switch' and show(ebf.operand(filt.blocks[b].term.discr)) == 'mask_ambig')]
        return after, bad, bool(g), mv[0][1].span
    r = chk.guard('C06.order', 'C06.order:filter:mask', mask)
    if r is not None:
        after, bad, g, sp = r
        if after and not bad and g:
            chk.ok('C06.order', 'C06.order:filter:mask', sp, "masking after the row loop, under mask_ambig, maps is_ambiguous(v) -> 'N' and fixes the rest (256 cells)", evals=256)
        else:
            chk.violation('C06.order', 'C06.order:filter:mask', where=sp, evals=256,
                          detail='mask after loop=%s, guarded by mask_ambig=%s, cells differing from (is_ambiguous -> N): %s' % (after, g, bad[:3]))

    # ---------------------------------------------------------------- row-aligned triple
    def rows():
        res = []
        for fn, exc in ((MSA + '::update_counts', None), (MSA + '::filter', 'update_kmers'), (MSA + '::weed', None), (MSA + '::new', None)):
            b = facts.fn(fn)
            eb = ExprBuilder(b, through_vars=False)
            pr = [bb for bb, t in b.calls() if 'push_row' in (t.callee.name or '')]
            pushes = [(bb, t) for bb, t in b.calls() if (t.callee.name or '').endswith('Vec::push')]
            cnt_p = [bb for bb, t in pushes if 'Vec::<usize>' in (t.callee.full or '')]
            kmer_p = [bb for bb, t in pushes if 'Vec::<IntT>' in (t.callee.full or '')]
            if len(pr) != 1 or len(cnt_p) != 1 or len(kmer_p) != 1:
                res.append((fn, False, '%d push_row / %d count pushes / %d k-mer pushes' % (len(pr), len(cnt_p), len(kmer_p))))
                continue
            # control equivalence: same set of controlling switch edges. compare by mutual (post)dominance within the loop body
            def ctrl(bb):
                # switches that dominate bb and on which bb depends: one successor cannot reach bb without passing the switch again
                out = set()
                for d in b.dominators()[bb]:
                    t = b.blocks[d].term
                    if t.k == 'switch':
                        for s in set(t.succs()):
                            if bb not in reachable_without(b, s, avoid_blocks=[d]):
                                out.add((d, s))
                return out
            cr, cc, ck = ctrl(pr[0]), ctrl(cnt_p[0]), ctrl(kmer_p[0])
            ok = cr == cc
            extra = ck - cr
            if exc is None:
                ok = ok and ck == cr
                why = 'row / count / k-mer pushes are control-equivalent'
            else:
                # exactly one extra controlling edge: the false edge of a switch on the named flag
                names = set()
                for d, s in extra:
                    names.add(show(eb.operand(b.blocks[d].term.discr)))
                ok = ok and cr <= ck and names == {exc}
                why = 'row / count pushes control-equivalent; k-mer push additionally under `%s` only (%s)' % (exc, sorted(names))
            # all three fields assigned before return
            fi = [facts.field_index(MSA, x) for x in ('split_kmers', 'variants', 'variant_count')]
            if fn.endswith('::new'):
                asg = True
            else:
                from .util import field_writes
                asg = all(field_writes(b, 1, i) for i in fi)
            res.append((fn, ok and asg, why + ('' if asg else '; not all three fields are assigned')))
        return res
    r = chk.guard('C06.rows', 'C06.rows:scan', rows)
    if r is not None:
        chk.floor('C06.rows', 'functions rebuilding the table', len(r), 4)
        for fn, ok, why in r:
            if ok:
                chk.ok('C06.rows', 'C06.rows:%s' % fn, fn, why)
            else:
                chk.violation('C06.rows', 'C06.rows:%s' % fn, where=fn, detail='rows of variants / variant_count / split_kmers can get out of step: ' + why)

    # ---------------------------------------------------------------- stale typestate
    def stale():
        allowed = {'filter', 'apply_filters', 'update_counts', 'distance', 'write_fasta', 'names', 'nsamples'}
        res = []
        for fn in ('generic_modes::align', 'generic_modes::distance'):
            b = facts.fn(fn)
            eb = ExprBuilder(b)
            af = [(bb, t) for bb, t in b.calls() if (t.callee.name or '') == 'generic_modes::apply_filters']
            if not af:
                raise AnchorLost('%s does not call apply_filters' % fn)
            first = min(bb for bb, t in af)
            after = reachable_without(b, b.blocks[first].term.target)
            bad = []
            for bb, t in b.calls():
                if bb not in after or t.callee.krate != 'ska':
                    continue
                n = t.callee.name or ''
                uses_arr = any('ska_array' in show(eb.operand(a)) for a in t.args)
                if uses_arr and n.split('::')[-1] not in allowed:
                    bad.append((n, t.span))
                # formatting the array ({ska_array} / {:?}) reads ksize / split_kmers
            for bb, t in b.calls():
                if bb in after and ('new_display' in (t.callee.name or '') or 'new_debug' in (t.callee.name or '')) and 'MergeSkaArray' in (t.callee.full or ''):
                    bad.append(('fmt of MergeSkaArray', t.span))
            res.append((fn, bad))
        # callers: after align()/distance() return, the array is not used again
        main = facts.fn('main')
        ebm = ExprBuilder(main)
        for callee in ('generic_modes::align', 'generic_modes::distance'):
            for bb, t in main.calls():
                if (t.callee.name or '') == callee:
                    arr = show(ebm.operand(t.args[0]))
                    after = reachable_without(main, t.target)
                    later = [(c.callee.name, c.span) for b2, c in main.calls() if b2 in after and c.callee.krate == 'ska' and
                             any(show(ebm.operand(a)) == arr for a in c.args)]
                    res.append(('main->%s@%s' % (callee.split('::')[-1], 'u128' if 'u128' in t.callee.full else 'u64'), later))
        return res
    r = chk.guard('C06.stale', 'C06.stale:scan', stale)
    if r is not None:
        chk.floor('C06.stale', 'entry points', len(r), 2)
        for nm, bad in r:
            key = 'C06.stale:%s' % nm
            if bad:
                chk.violation('C06.stale', key, where=bad[0][1],
                              detail='after apply_filters (update_kmers = false) the array has fewer rows than split k-mers; %s is reached on it' % bad[0][0])
            else:
                chk.ok('C06.stale', key, nm, 'only row-count-agnostic methods are reached on the k-mers-stale array')

    # ---------------------------------------------------------------- flags
    chk.guard('C06.flags', 'C06.flags:run', lambda: c04.check_flags(facts, chk, 'C06.flags'))

    def chain():
        """align's parameters reach filter's parameters of the same meaning"""
        want = {'min_freq': 'min_freq', 'filter_ambig_as_missing': 'filter_ambig_as_missing', 'filter': 'filter',
                'mask_ambig': 'ambig_mask', 'ignore_const_gaps': 'ignore_const_gaps'}
        al = facts.fn('generic_modes::align')
        eb = ExprBuilder(al, through_vars=False)
        af = facts.fn('generic_modes::apply_filters')
        t = [t for _, t in al.calls() if (t.callee.name or '') == 'generic_modes::apply_filters'][0]
        pn = [af.local_names.get(i + 1) for i in range(af.arg_count)]
        bad = []
        for a, p in zip(t.args, pn):
            s = c04._src_name(eb.operand(a), facts)
            if s in want and c04._nm(want[s]) != c04._nm(p):
                bad.append((s, p))
        ebf2 = ExprBuilder(af, through_vars=False)
        tf = [t for _, t in af.calls() if (t.callee.name or '') == MSA + '::filter'][0]
        pn2 = [filt.local_names.get(i + 1) for i in range(filt.arg_count)]
        for a, p in zip(tf.args, pn2):
            s = c04._src_name(ebf2.operand(a), facts)
            if s and p and s in ('filter_ambig_as_missing', 'filter', 'ambig_mask', 'ignore_const_gaps', 'update_kmers') and c04._nm(s) != c04._nm(p):
                bad.append((s, p))
        # main -> align
        main = facts.fn('main')
        ebm = ExprBuilder(main, through_vars=False)
        pn3 = [al.local_names.get(i + 1) for i in range(al.arg_count)]
        for _, tm in main.calls():
            if (tm.callee.name or '') == 'generic_modes::align':
                for a, p in zip(tm.args, pn3):
                    s = c04._src_name(ebm.operand(a), facts)
                    if s and p and s not in ('ska_array',) and c04._nm(s) != c04._nm(p) and s in ('min_freq', 'filter_ambig_as_missing', 'filter', 'ambig_mask', 'no_gap_only_sites', 'output'):
                        bad.append((s, p))
        return bad
    r = chk.guard('C06.flags', 'C06.flags:align-chain', chain)
    if r is not None:
        if r:
            chk.violation('C06.flags', 'C06.flags:align-chain', where='generic_modes::align', detail='CLI flag reaches a parameter of another meaning: %s' % r)
        else:
            chk.ok('C06.flags', 'C06.flags:align-chain', 'generic_modes::align', 'main -> align -> apply_filters -> filter: every flag reaches the parameter of the same name')

    # ---------------------------------------------------------------- fasta
    from . import c03
    chk.guard('C06.fasta', 'C06.fasta:run', lambda: c03.check_fasta(facts, chk, 'C06.fasta'))


def _can_reach(b, src, dst):
    return dst in reachable_without(b, src)
