"""C15 - ambiguity codes form the union algebra over {A,C,G,T}; complement respects it.

Decided completely: the constant-evaluated tables IUPAC / RC_IUPAC / LETTER_CODE and the decision
structure (MIR, evaluated by the leaf abstract interpreter over the whole u8 domain) of
is_ambiguous / base_to_prob / encode_base / decode_base / rc_base / valid_base are compared cell by
cell with the IUPAC set algebra.  Also checks the two uses named in the anchors: the index
expression in SkaDict::add_to_dict and the strand correction closure in RefSka::map.
"""
from ..facts import AnchorLost
from ..absint.interp import Interp, Panic
from ..absint.values import BV, Agg
from ..expr import ExprBuilder, show, subexprs

LEVEL = 'proof'
EXPLANATION = ('Finite domains enumerated completely from const-evaluated tables and from the MIR decision '
               'structure of the classification functions (abstract interpretation over all 256 byte values).')
ASSUMPTIONS = ['rustc const-eval of the tables equals the tables compiled into the stable build',
               'U is left unconstrained in RC_IUPAC (never occurs in stored data)']
TRUSTED_BASE = ['rustc nightly MIR construction and const evaluation', 'sa/absint leaf interpreter (integer ops, switchInt, array index)']

BE = 'ska_dict::bit_encoding::'
SETS = {'A': 'A', 'C': 'C', 'G': 'G', 'T': 'T', 'R': 'AG', 'Y': 'CT', 'S': 'CG', 'W': 'AT', 'K': 'GT', 'M': 'AC',
        'B': 'CGT', 'D': 'AGT', 'H': 'ACT', 'V': 'ACG', 'N': 'ACGT'}
CODE_OF = {frozenset(v): k for k, v in SETS.items()}
COMP = {'A': 'T', 'T': 'A', 'C': 'G', 'G': 'C'}
ENC = {'A': 0, 'C': 1, 'T': 2, 'G': 3}
DEC = {v: k for k, v in ENC.items()}


def run(facts, chk, tier, only=None):
    I = Interp(facts)

    # ---------------------------------------------------------------- IUPAC (1024 cells)
    def iupac():
        t = facts.const_bytes(BE + 'IUPAC')
        if len(t) != 1024:
            raise AnchorLost('IUPAC has %d cells' % len(t))
        bad = []
        for n in range(4):
            for e in range(256):
                ch = chr(e).upper()
                if ch in SETS and chr(e).isalpha():
                    want = ord(CODE_OF[frozenset(SETS[ch]) | {DEC[n]}])
                else:
                    want = 0
                if t[n * 256 + e] != want:
                    bad.append((n, e, t[n * 256 + e], want))
        return t, bad

    r = chk.guard('C15.iupac', 'C15.iupac:IUPAC', iupac)
    if r:
        t, bad = r
        if bad:
            for n, e, got, want in bad[:8]:
                chk.violation('C15.iupac', 'C15.iupac:IUPAC[%d,%d]' % (n, e), where=BE + 'IUPAC',
                              detail='IUPAC[base %s][%r] = %r, union algebra says %r' % (DEC[n], chr(e), chr(got), chr(want)),
                              evals=1)
        else:
            chk.ok('C15.iupac', 'C15.iupac:IUPAC', BE + 'IUPAC', '1024 cells = code(set(e) | {base}) / 0', evals=1024,
                   sample={'table': 'IUPAC', 'cell': 'IUPAC[A][Y]', 'value': chr(t[ord('Y')])})
            # algebraic consequences on the table itself
            def add(code, n):
                return t[n * 256 + code]
            viol = 0
            codes = [ord(c) for c in SETS]
            for c in codes:
                for a in range(4):
                    if add(add(c, a), a) != add(c, a):
                        viol += 1
                    for b in range(4):
                        if add(add(c, a), b) != add(add(c, b), a):
                            viol += 1
            if viol:
                chk.violation('C15.iupac', 'C15.iupac:algebra', detail='%d commutativity/idempotence failures' % viol)
            else:
                chk.ok('C15.iupac', 'C15.iupac:algebra', BE + 'IUPAC', 'idempotent and order-independent on 15 codes x 4 x 4',
                       evals=15 * 4 * 5)

    # ---------------------------------------------------------------- RC_IUPAC (256 cells)
    def rc():
        t = facts.const_bytes(BE + 'RC_IUPAC')
        if len(t) != 256:
            raise AnchorLost('RC_IUPAC has %d cells' % len(t))
        bad = []
        for e in range(256):
            ch = chr(e).upper()
            if chr(e).isalpha() and ch == 'U':
                continue
            if chr(e).isalpha() and ch in SETS:
                want = ord(CODE_OF[frozenset(COMP[x] for x in SETS[ch])])
            else:
                want = ord('-')
            if t[e] != want:
                bad.append((e, t[e], want))
        return t, bad

    r = chk.guard('C15.rc', 'C15.rc:RC_IUPAC', rc)
    if r:
        t, bad = r
        for e, got, want in bad[:8]:
            chk.violation('C15.rc', 'C15.rc:RC_IUPAC[%d]' % e, where=BE + 'RC_IUPAC',
                          detail='RC_IUPAC[%r] = %r, complement of the set is %r' % (chr(e), chr(got), chr(want)))
        if not bad:
            inv = all(t[t[ord(c)]] == ord(c) for c in SETS)
            fix = all(t[ord(c)] == ord(c) for c in 'SWN-')
            if inv and fix:
                chk.ok('C15.rc', 'C15.rc:RC_IUPAC', BE + 'RC_IUPAC', '255 constrained cells; involution; fixes S W N -',
                       evals=256 + 19, sample={'table': 'RC_IUPAC', 'cell': 'K', 'value': chr(t[ord('K')])})
            else:
                chk.violation('C15.rc', 'C15.rc:involution', detail='involution=%s fixes=%s' % (inv, fix))

    # ---------------------------------------------------------------- leaf functions over all bytes
    def leaf(name, spec, dom, key, post=lambda v: v.val):
        def go():
            bad = []
            n = 0
            for x in dom:
                want = spec(x)
                if want is None:
                    continue
                n += 1
                try:
                    got = post(I.call_fn(BE + name, [BV(8, x)]))
                except Panic as p:
                    got = 'panic:%s' % p.kind
                if got != want:
                    bad.append((x, got, want))
            return n, bad
        r = chk.guard('C15.' + key, 'C15.%s:%s' % (key, name), go)
        if r is None:
            return
        n, bad = r
        for x, got, want in bad[:8]:
            chk.violation('C15.' + key, 'C15.%s:%s[%d]' % (key, name, x), where=BE + name,
                          detail='%s(%r) = %r, specified %r' % (name, chr(x), got, want))
        if not bad:
            chk.ok('C15.' + key, 'C15.%s:%s' % (key, name), BE + name, '%d cells agree with the specification' % n,
                   evals=n, sample={'fn': name, 'cells': n})

    letters = [ord(c) for c in SETS] + [ord('U'), ord('-')]
    both = letters + [x | 0x20 for x in letters if chr(x).isalpha()]

    def amb_spec(x):
        if x not in both:
            return None
        return 0 if chr(x).upper() in 'ACGTU-' else 1
    leaf('is_ambiguous', amb_spec, range(256), 'ambig')

    def prob_spec(x):
        ch = chr(x)
        if ch == 'U':
            ch = 'T'
        if ch == 'N' or ch == '-':
            return (0.0, 0.0, 0.0, 0.0)
        if ch in SETS:
            s = SETS[ch]
            p = 1.0 / len(s)
            return tuple(p if b in s else 0.0 for b in 'ACTG')
        return None
    leaf('base_to_prob', prob_spec, range(256), 'prob', post=lambda v: tuple(v.fields))

    leaf('encode_base', lambda x: ENC.get(chr(x).upper()) if chr(x).upper() in ENC else None, range(256), 'enc')
    leaf('decode_base', lambda x: ord(DEC[x]) if x < 4 else None, range(4), 'dec')
    leaf('rc_base', lambda x: ENC[COMP[DEC[x]]] if x < 4 else None, range(4), 'rcb')
    # valid_base: A/C/G/T in either case are valid, N/n are not
    leaf('valid_base', lambda x: (1 if chr(x).upper() in 'ACGT' else 0) if chr(x).upper() in 'ACGTN' and chr(x).isalpha() else None,
         range(256), 'valid')

    # ---------------------------------------------------------------- uses
    # use site 1: SkaDict::add_to_dict / add_palindrome_to_dict applied to every (stored code, new base) cell give the code of
    # the union (interpreted; shared with C01.pal).  Was a shape rule on the IUPAC[...] index expression inside the closure.
    from . import c01
    chk.guard('C15.use', 'C15.use:tables', lambda: c01.check_tables(facts, chk, 'C15.use'))
    # the union table in use: the dictionary of small multi-record files (repeated split k-mers in one sample) holds the code of the observed base set
    from . import skiter
    chk.guard('C15.use', 'C15.use:dictionary:run', lambda: skiter.check_dict(facts, chk, 'C15.use', tier))
    # the distance weights in use: variant_dist on every pair of codes == 1 - sum_b p1(b) p2(b), p uniform over the code's base set (N: no weight)
    from . import c14
    r = chk.guard('C15.use', 'C15.use:variant_dist', lambda: c14.pair_table(facts))
    if r is not None:
        n_, bad_ = r
        if bad_:
            chk.violation('C15.use', 'C15.use:variant_dist', where='merge_ska_array::MergeSkaArray::variant_dist', evals=n_,
                          detail='(code1, code2, constant, got, expected from uniform weights) = %s (%d cells differ)' % (bad_[0], len(bad_)))
        else:
            chk.ok('C15.use', 'C15.use:variant_dist', 'merge_ska_array::MergeSkaArray::variant_dist', 'distance contribution of every pair of codes = 1 - overlap of uniform weights over the codes\' base sets (16 x 16 x 2 cells)', evals=n_)

    def use_map():
        cl = facts.closures_of('ska_ref::RefSka::map')
        res = []
        for c in cl:
            if not any('RC_IUPAC' in repr(s) for b in c.blocks for s in b.stmts):
                continue
            res.append(c)
        if len(res) != 1:
            raise AnchorLost('expected one closure of RefSka::map reading RC_IUPAC, found %d' % len(res))
        c = res[0]
        t = facts.const_bytes(BE + 'RC_IUPAC')
        bad = []
        from ..absint.values import RefV, Cell
        for rcflag in (0, 1):
            for x in range(256):
                refk = Cell(Agg('adt:ska_ref::RefKmer', 0, [BV(64, 0), BV(8, 0), BV(64, 0), BV(64, 0), BV(1, rcflag)]), 'ref_k')
                env = Agg('closure:' + c.path, 0, [RefV(Cell(RefV(refk), 'cap'))])
                xin = Cell(BV(8, x), 'x')
                # capture layout: the closure captures `ref_k` (a &&RefKmer or &RefKmer)
                got = _call_map_closure(I, c, refk, xin)
                want = t[x] if rcflag else x
                if got != want:
                    bad.append((rcflag, x, got, want))
        return c, bad

    # the complement table in use, decided end to end: `ska map` output on references carrying each split k-mer on either strand and
    # samples whose repeated k-mers give two- and three-base ambiguity codes (e2e.map_cases) equals the specification
    from . import e2e
    chk.guard('C15.e2e', 'C15.e2e:map:run', lambda: e2e.check_map_e2e(facts, chk, 'C15.e2e', tier))
    r = chk.guard_soft('C15.use', 'C15.use:map', use_map, twins=['C15.e2e:map'])
    if r:
        c, bad = r
        if bad:
            rcflag, x, got, want = bad[0]
            chk.violation('C15.use', 'C15.use:map', where=c.span,
                          detail='strand correction: rc=%d x=%r -> %r, expected %r (%d cells differ)' % (rcflag, chr(x), got, want, len(bad)))
        else:
            chk.ok('C15.use', 'C15.use:map', c.span, 'closure returns RC_IUPAC[x] iff ref_k.rc else x (2 x 256 cells)',
                   evals=512, sample={'closure': c.path, 'cells': 512})


def _atom_name(e):
    """name leaves for the affine form: variables / upvars by source name"""
    from ..expr import strip_refs
    e0 = e
    while e0[0] in ('cast', 'deref', 'ref'):
        e0 = e0[1]
    if e0[0] == 'upvar':
        return e0[2].lstrip('*')
    if e0[0] in ('arg', 'var'):
        nm = e0[2]
        return 'existing' if nm == 'b' else nm
    return e


def _call_map_closure(I, c, refk_cell, x_cell):
    """call the |x| closure of RefSka::map with captured ref_k; tolerate by-ref / by-value capture"""
    from ..absint.values import RefV, Cell, Agg, BV
    upv = c.upvar_tys or []
    if len(upv) != 1:
        raise AnchorLost('map closure captures %d values' % len(upv))
    cap_ty = upv[0]
    inner = RefV(refk_cell)
    depth = 0
    tmp = cap_ty
    while tmp.startswith('&'):
        depth += 1
        tmp = tmp[1:].lstrip()
        if tmp.startswith("'"):
            tmp = tmp.split(' ', 1)[1]
        if tmp.startswith('mut '):
            tmp = tmp[4:]
    v = refk_cell.v if depth == 0 else inner
    for _ in range(max(depth - 1, 0)):
        v = RefV(Cell(v, 'cap'))
    env = Agg('closure:' + c.path, 0, [v])
    envty = c.local_ty(1)
    envv = RefV(Cell(env, 'env')) if envty.startswith('&') else env
    r = I.exec_body(c, [envv, RefV(x_cell)])
    return r.val
