"""C14 - distances are SNP counts over shared k-mers plus k-mer set mismatch.

Decided clauses:
  C14.const  the number added back to `matches` counts constant sites only among k-mers that pass the
             frequency filter: the producer of `constant` either runs with frequency threshold 0 (after a
             frequency-filtering call with the user's min_freq) or its counter is incremented only under the
             passing edge of the frequency guard
  C14.pair   variant_dist over {gap, A, C, G, T}^2 and the ambiguity codes: (gap,gap) ignored; exactly one gap
             -> mismatch; otherwise match and distance += 1 - sum p1*p2; proportion = mismatches/(matches+mismatches)
             with the 0/0 guard; matches starts at `constant`
  C14.enum   each unordered pair once: j in (i+1)..ncols, writer pairs idx with (idx+1)..names.len()
  C14.order  = C11.bridge (indexed collection)
Not decided: [0,1] range beyond what the formula implies.
"""
from ..facts import AnchorLost
from ..expr import ExprBuilder, show, subexprs, affine
from ..cond import edge_conds
from ..absint.interp import Interp, Panic
from ..absint.values import BV, Agg, RefV, Cell
from .util import reachable_without

EXPLANATION = ('Backward slice of the `constant` argument to its producing counter and control-dependence of its increments; '
               'finite-domain abstract interpretation of variant_dist; affine provenance of the pair enumeration.')
ASSUMPTIONS = ['ndarray iteration order of a column view', 'base_to_prob table as verified under C15']
MSA = 'merge_ska_array::MergeSkaArray'


def _variant_dist_fn(facts):
    c = [n for n in facts.by_name if n.endswith('::variant_dist') and len(facts.by_name[n]) == 1 and facts.by_name[n][0].kind != 'Closure']
    if len(c) != 1:
        raise AnchorLost('variant_dist: %d candidate functions %s' % (len(c), c))
    return c[0]


def pair_table(facts, tier='quick'):
    """variant_dist interpreted on every pair of symbols a table can hold (x 2 running constants): (#cases, [differing cells]).  Shared with
    C15.use:variant_dist (the weights of an ambiguity code are uniform over its base set; N carries none)."""
    I = Interp(facts, {'IntT': 'u64'})
    VD = _variant_dist_fn(facts)
    letters = '-ACGTRYSWKMBDHVN'
    SETS = {'A': 'A', 'C': 'C', 'G': 'G', 'T': 'T', 'R': 'AG', 'Y': 'CT', 'S': 'CG', 'W': 'AT', 'K': 'GT', 'M': 'AC',
            'B': 'CGT', 'D': 'AGT', 'H': 'ACT', 'V': 'ACG'}
    bad = []
    n = 0

    def prob(ch):
        if ch in SETS:
            return {b: 1.0 / len(SETS[ch]) for b in SETS[ch]}
        return {}

    def view(col):
        cell = Cell(Agg('array', 0, [BV(8, ord(c)) for c in col]), 'col')
        return RefV(Cell(RefV(cell, (), (0, len(col))), 'view'))
    for a in letters:
        for b in letters:
            for c in (0.0, 3.0):
                n += 1
                r = I.call_fn(VD, [view(a), view(b), c])
                got = (r.fields[0], r.fields[1])
                if a == '-' and b == '-':
                    dist, mm, m = 0.0, 0.0, c
                elif a == '-' or b == '-':
                    dist, mm, m = 0.0, 1.0, c
                else:
                    pa, pb = prob(a), prob(b)
                    ov = sum(pa[x] * pb.get(x, 0.0) for x in pa)
                    dist, mm, m = 1.0 - ov, 0.0, c + 1.0
                want = (dist, 0.0 if (m + mm) == 0.0 else mm / (m + mm))
                if abs(got[0] - want[0]) > 1e-12 or abs(got[1] - want[1]) > 1e-12:
                    bad.append((a, b, c, got, want))
    # accumulation over several rows
    r = I.call_fn(VD, [view('AC-G-'), view('AT--C'), 2.0])
    n += 1
    want = (1.0, 2.0 / (2.0 + 2.0 + 2.0))
    if abs(r.fields[0] - want[0]) > 1e-12 or abs(r.fields[1] - want[1]) > 1e-12:
        bad.append(('AC-G-', 'AT--C', 2.0, (r.fields[0], r.fields[1]), want))
    if tier == 'thorough':
        # one long pair of columns (70 000 rows: more than any internal block / chunk size a "parallelised" rewrite is likely to use):
        # the constant-site count c enters the denominator once, whatever the number of rows
        L = 70000
        I.max_steps = 4_000_000_000
        I.steps = 0
        c1 = ('ACGT-' * (L // 5 + 1))[:L]
        c2 = ('AGGT-' * (L // 5 + 1))[:L]            # differs at every 2nd of five positions; both gaps at every 5th
        r = I.call_fn(VD, [view(c1), view(c2), 1000.0])
        n += 1
        diffs = sum(1 for x, y in zip(c1, c2) if x != '-' and y != '-' and x != y)
        both = sum(1 for x, y in zip(c1, c2) if x != '-' and y != '-')
        want = (float(diffs), 0.0 / (1000.0 + both))
        if abs(r.fields[0] - want[0]) > 1e-6 or abs(r.fields[1] - want[1]) > 1e-12:
            bad.append(('ACGT-.. x %d' % L, 'AGGT-..', 1000.0, (r.fields[0], r.fields[1]), want))
        c3 = ('A-' * (L // 2 + 1))[:L]
        c4 = ('AA' * (L // 2 + 1))[:L]                # exactly one gap at every 2nd row
        r = I.call_fn(VD, [view(c3), view(c4), 1000.0])
        n += 1
        want = (0.0, (L // 2) / (1000.0 + L // 2 + (L - L // 2)))
        if abs(r.fields[0] - want[0]) > 1e-6 or abs(r.fields[1] - want[1]) > 1e-12:
            bad.append(('A-.. x %d' % L, 'AA..', 1000.0, (r.fields[0], r.fields[1]), want))
    return n, bad


def run(facts, chk, tier, only=None):
    from . import cli_e2e
    # the subcommand through ska::main() itself (argument parser replaced by a constructed Args value): hand-over of CLI values, width dispatch
    chk.guard('C14.cli', 'C14.cli:run0', lambda: cli_e2e.check_nk_distance(facts, chk, 'C14.cli', tier, 'distance'))
    from . import cli_parsers
    cli_parsers.check_frequency_options(facts, chk, 'C14.opt')
    from . import cli_more
    chk.guard('C14.cli', 'C14.cli:run1', lambda: cli_more.check_distance_output(facts, chk, 'C14.cli', tier))
    from . import e2e
    # the subcommand's computation, functionally, on small unambiguous tables (filters + distance + pair enumeration)
    chk.guard('C14.e2e', 'C14.e2e:run', lambda: e2e.check_distance_e2e(facts, chk, 'C14.e2e', tier))
    # ---------------------------------------------------------------- const
    def const():
        d = facts.fn('generic_modes::distance')
        eb = ExprBuilder(d)
        dc = [(bb, t) for bb, t in d.calls() if (t.callee.name or '') == MSA + '::distance']
        if len(dc) != 1:
            raise AnchorLost('generic_modes::distance: %d MergeSkaArray::distance calls' % len(dc))
        dbb, dt = dc[0]
        ce = eb.operand(dt.args[1])
        prod = [x for x in subexprs(ce) if x[0] == 'call']
        if len(prod) != 1 or not prod[0][1].endswith(('generic_modes::apply_filters', MSA + '::filter')):
            raise AnchorLost('`constant` is not the return of one apply_filters/filter call: %s' % show(ce))
        p = prod[0]
        pbb = p[3]
        pt = d.blocks[pbb].term
        callee = facts.fn(pt.callee.name)
        pn = [callee.local_names.get(i + 1) for i in range(callee.arg_count)]
        # (A) frequency threshold at the producing call is the constant zero
        fi = pn.index('min_freq') if 'min_freq' in pn else (pn.index('min_count') if 'min_count' in pn else None)
        if fi is None:
            raise AnchorLost('producer %s has no min_freq/min_count parameter' % callee.name)
        fa = eb.operand(pt.args[fi])
        a_ok = (fa[0] == 'fconst' and fa[1] == 0.0) or (fa[0] == 'const' and fa[1] == 0)
        # (B) in MergeSkaArray::filter the returned counter is only incremented under the passing edge of count >= min_count
        f = facts.fn(MSA + '::filter')
        ebf = ExprBuilder(f, through_vars=False)
        ret = None
        for rb in f.return_blocks():
            pass
        # returned local: `_0 = removed`
        rets = [s for b in f.blocks if b.idx in f.live_blocks() for s in b.stmts if s.k == 'assign' and s.place.local == 0 and not s.place.proj]
        if len(rets) != 1 or rets[0].rv.k != 'use' or rets[0].rv.ops[0].place is None:
            raise AnchorLost('filter: return value shape')
        cnt = rets[0].rv.ops[0].place.local
        incs = [b.idx for b in f.blocks if b.idx in f.live_blocks() for s in b.stmts
                if s.k == 'assign' and s.place.local == cnt and not s.place.proj and s.rv.k == 'use' and s.rv.ops[0].place is not None]
        incs += [b.idx for b in f.blocks if b.idx in f.live_blocks() for s in b.stmts
                 if s.k == 'assign' and s.rv.k == 'binop' and s.rv.op.startswith('Add') and any(o.place is not None and o.place.local == cnt for o in s.rv.ops)]
        fg = [b.idx for b in f.blocks if b.idx in f.live_blocks() and b.term.k == 'switch' and
              ebf.operand(b.term.discr)[0] == 'bin' and 'min_count' in show(ebf.operand(b.term.discr))]
        if len(fg) != 1:
            raise AnchorLost('filter: %d frequency guards (count vs min_count)' % len(fg))
        g = fg[0]
        gt = f.blocks[g].term
        fail_edge = next(tg for v, tg in gt.targets if v == 0) if ebf.operand(gt.discr)[1] in ('Ge', 'Gt') else gt.otherwise
        heads = [bb for bb, c in f.calls() if (c.callee.name or '').endswith('::next') and f.in_cycle(bb) and f.dominates(bb, g)]
        stop = heads[-1:]
        on_fail = [i for i in set(incs) if i in reachable_without(f, fail_edge, avoid_blocks=stop)]
        b_ok = not on_fail
        # (K2) a frequency-filtering call with the user's min_freq dominates the distance computation
        user = []
        for bb, t in d.calls():
            n = t.callee.name or ''
            if n.endswith('generic_modes::apply_filters'):
                e = eb.operand(t.args[1])
                if e == ('arg', 3, 'min_freq') or (e[0] == 'arg' and e[2] == 'min_freq'):
                    user.append(bb)
        k2 = any(d.dominates(u, dbb) for u in user)
        # and if (A) is used, the user-frequency call must come before the producing call
        a_order = any(d.dominates(u, pbb) for u in user)
        return dict(producer=pt.span, a_ok=a_ok, b_ok=b_ok, k2=k2, a_order=a_order, fa=show(fa), on_fail=on_fail, dist=dt.span)
    r = chk.guard('C14.const', 'C14.const:distance:constant', const)
    if r is not None:
        ok = (r['b_ok'] or (r['a_ok'] and r['a_order'])) and r['k2']
        if ok:
            chk.ok('C14.const', 'C14.const:distance:constant', r['producer'],
                   'constant-site counter excludes frequency-rejected k-mers (%s); user min_freq filter dominates the distance computation'
                   % ('threshold 0 at the counting call, after the frequency filter' if r['a_ok'] else 'increments only under the passing edge'),
                   sample=dict(producer=r['producer'], min_freq_at_producer=r['fa']))
        else:
            chk.violation('C14.const', 'C14.const:distance:constant', where=r['producer'],
                          detail='`constant` passed to MergeSkaArray::distance is the return of a filter call run with min_freq=%s; in '
                                 'MergeSkaArray::filter the returned counter is also incremented on the `count < min_count` edge (blocks %s), '
                                 'so k-mers rejected by the frequency filter are added to `matches` (denominator of the mismatch proportion)%s'
                                 % (r['fa'], r['on_fail'], '' if r['k2'] else '; and no frequency filter with the user min_freq dominates the distance call'),
                          construct=dict(function='generic_modes::distance', producer=r['producer'], distance_call=r['dist']))

    r = chk.guard('C14.pair', 'C14.pair:variant_dist', lambda: pair_table(facts, tier))
    if r is not None:
        n, bad = r
        if bad:
            chk.violation('C14.pair', 'C14.pair:variant_dist', where=MSA + '::variant_dist', evals=n,
                          detail='(sym1, sym2, constant, got, expected) = %s (%d cells differ)' % (bad[0], len(bad)))
        else:
            chk.ok('C14.pair', 'C14.pair:variant_dist', MSA + '::variant_dist',
                   '16 x 16 symbols x 2 constants + accumulation: SNP distance on A/C/G/T is [v1 != v2]; one gap -> mismatch; (gap,gap) ignored; 0/0 -> 0', evals=n,
                   sample=dict(cells=n))

    # ---------------------------------------------------------------- enumeration
    def enum():
        res = []
        cl = facts.closures_of(MSA + '::distance')
        inner = [c for c in cl if any((t.callee.name or '').endswith('::variant_dist') for _, t in c.calls())]
        if len(inner) != 1:
            raise AnchorLost('distance: %d closures calling variant_dist' % len(inner))
        c = inner[0]
        eb = ExprBuilder(c, through_vars=False)
        rng = [s for b in c.blocks if b.idx in c.live_blocks() for s in b.stmts if s.k == 'assign' and s.rv.k == 'aggregate' and
               s.rv.j['kind'].get('adt') == 'std::ops::Range']
        if len(rng) != 1:
            raise AnchorLost('distance closure: %d Range constructions' % len(rng))
        lo = affine(eb.operand(rng[0].rv.ops[0]), atom_of=lambda e: e[2] if e[0] in ('var', 'arg') else show(e))
        hi_e = eb.operand(rng[0].rv.ops[1])
        hi = show(hi_e)
        # the bound hoisted into a local of `distance` and captured (round 12, m1_4): read the captured variable's definition there
        while hi_e[0] == 'deref':
            hi_e = hi_e[1]
        if hi_e[0] == 'upvar':
            par = facts.fn(MSA + '::distance')
            defs = [show(ExprBuilder(par).local_expr(l)) for l in par.locals_named(hi_e[2])]
            if len(defs) == 1:
                hi = '%s = %s' % (hi_e[2], defs[0])
        res.append(('inner-range', lo == ({'i': 1}, 1) and 'ncols' in hi, 'j in %s..%s' % (show(eb.operand(rng[0].rv.ops[0])), hi)))
        # the second operand of variant_dist is column j of the same array
        vd = [t for _, t in c.calls() if (t.callee.name or '').endswith('::variant_dist')][0]
        ia = [t for _, t in c.calls() if (t.callee.name or '').endswith('index_axis')]
        ok_j = len(ia) == 1 and show(eb.operand(ia[0].args[2])) == 'j' and 'Axis(1' in show(eb.operand(ia[0].args[1])).replace('const ', '')
        res.append(('inner-column', ok_j, 'second sample = index_axis(%s, %s)' % (show(eb.operand(ia[0].args[1])) if ia else '?', show(eb.operand(ia[0].args[2])) if ia else '?')))
        # outer source: axis_iter(Axis(1))
        d = facts.fn(MSA + '::distance')
        ebd = ExprBuilder(d)
        ai = [t for _, t in d.calls() if (t.callee.name or '').endswith('axis_iter')]
        res.append(('outer-axis', len(ai) == 1 and 'Axis(1' in show(ebd.operand(ai[0].args[1])), 'rows of the result = columns (samples): %s' % (show(ebd.operand(ai[0].args[1])) if ai else '?')))
        # writer
        w = facts.fn('generic_modes::distance')
        ebw = ExprBuilder(w, through_vars=False)
        rng = [s for b in w.blocks if b.idx in w.live_blocks() for s in b.stmts if s.k == 'assign' and s.rv.k == 'aggregate' and
               s.rv.j['kind'].get('adt') == 'std::ops::Range']
        if len(rng) != 1:
            raise AnchorLost('generic_modes::distance: %d Range constructions' % len(rng))
        lo = affine(ebw.operand(rng[0].rv.ops[0]), atom_of=lambda e: e[2] if e[0] in ('var', 'arg') else show(e))
        hi = show(ebw.operand(rng[0].rv.ops[1]))
        res.append(('writer-range', lo == ({'idx': 1}, 1) and 'len(' in hi and 'sample_names' in hi, 'writer pairs idx with %s..%s' % (show(ebw.operand(rng[0].rv.ops[0])), hi)))
        return res
    r = chk.guard('C14.enum', 'C14.enum:scan', enum)
    if r is not None:
        for nm, ok, why in r:
            if ok:
                chk.ok('C14.enum', 'C14.enum:%s' % nm, MSA + '::distance', why)
            else:
                chk.violation('C14.enum', 'C14.enum:%s' % nm, where=MSA + '::distance', detail=why)
