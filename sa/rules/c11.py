"""C11 - thread count and run-to-run nondeterminism never change a result.

Decided clauses:
  C11.pool     global-pool typestate over every path of every subcommand arm of main (interprocedural): a fatal
               initialisation (build_global().unwrap()/expect/?) is never reached after the pool has been initialised by
               an earlier build_global (fatal or with the result discarded) or implicitly by driving a parallel
               iterator / join  (raising --threads must not turn a succeeding command into a failing one)
  C11.capture  closures handed to rayon outside skalo capture no shared mutable state
  C11.bridge   unordered bridging (par_bridge) only in skalo; distance rows are gathered by an indexed collect
  C11.offsets  parallel_append passes (bottom, offset) and (top, offset + split_point); samples are built
               at enumerate-index + offset; build_and_merge starts at offset 0 with total = input_files.len()
  C11.combine  MergeSkaDict::merge combines columns with `|` and takes names from the non-empty side
Not decided: equality of `ska lo` outputs "up to order/strand" (hash-map iteration order at run time).
"""
import re

from ..facts import AnchorLost, _strip_generics
from ..expr import ExprBuilder, show, subexprs, affine
from ..typestate import EffectAnalysis
from .c19 import _uses

EXPLANATION = ('Interprocedural effect counting with result-variant-indexed (disjunctive) summaries for the global pool; '
               'capture audit of all closures reaching rayon entry points; provenance of split offsets.')
ASSUMPTIONS = ['rayon::join / IndexedParallelIterator collection order as documented', 'closures passed to rayon are invoked (treated as invoked where created)']

NONFREEZE = ('Mutex<', 'RwLock<', 'Atomic', 'Cell<', 'RefCell<', 'DashMap<', 'DashSet<', 'UnsafeCell', 'OnceCell', 'OnceLock', 'mpsc::')


def fatal_init(body, bb, t):
    n = t.callee.name or ''
    if n != 'rayon::ThreadPoolBuilder::build_global':
        return None
    if t.dest.proj:
        return 'build_global (result stored)'
    uses = _uses(body, t.dest.local)
    if not uses:
        return None
    for ub, u in uses:
        if u[0] == 'call':
            un = u[1].callee.name or ''
            last = un.split('::')[-1]
            if last in ('ok', 'is_ok', 'is_err', 'err', 'unwrap_or', 'unwrap_or_else', 'unwrap_or_default', 'drop'):
                continue
            return 'fatal build_global().%s() in %s' % (last, body.name)
        if u[0] == 'discr':
            # manual match: fatal if some edge diverges
            return 'fatal build_global() (matched) in %s' % body.name
        if u[0] == 'return':
            return 'build_global()? in %s' % body.name
    return None


RAYON_DRIVERS = ('for_each', 'for_each_with', 'for_each_init', 'collect', 'collect_into_vec', 'sum', 'product', 'reduce', 'reduce_with', 'count',
                 'min', 'max', 'min_by', 'max_by', 'min_by_key', 'max_by_key', 'any', 'all', 'find_any', 'find_first', 'find_map_any', 'try_for_each',
                 'unzip', 'partition', 'try_reduce', 'collect_vec_list', 'position_any', 'position_first')


def pool_effect(body, bb, t):
    """effect letters for the global-pool typestate, as bit sets: 1 = the global pool is (now) initialised, 2 = this step is a fatal
    initialisation (it fails when the pool is already initialised).  build_global().unwrap()/expect/? = 3; build_global() with the
    result discarded = 1; driving a parallel iterator / join / scope on the global pool initialises it implicitly = 1."""
    n = t.callee.name or ''
    if n == 'rayon::ThreadPoolBuilder::build_global':
        f = fatal_init(body, bb, t)
        if f:
            return (f, 3)
        return ('build_global() with the result discarded in %s' % body.name, 1)
    if n in ('rayon::join', 'rayon::scope', 'rayon::spawn', 'rayon::current_num_threads', 'rayon::join_context', 'rayon::in_place_scope'):
        return ('%s in %s (initialises the global pool implicitly)' % (n, body.name), 1)
    if n.startswith(('rayon::iter::ParallelIterator::', 'rayon::iter::IndexedParallelIterator::', 'rayon::iter::FromParallelIterator::')) and n.split('::')[-1] in RAYON_DRIVERS:
        return ('%s in %s (initialises the global pool implicitly)' % (n.split('rayon::iter::')[-1], body.name), 1)
    return None


def pool_compose(a, b):
    """abstract words: bit 1 = contains an initialisation, bit 2 = contains a fatal one, bit 4 = some fatal initialisation is preceded
    by an initialisation (the command fails although a lower thread count / no --threads would have succeeded)"""
    return (a | b) | (4 if (a & 1 and b & 2) else 0)


def run(facts, chk, tier, only=None):
    from . import cli_parsers
    cli_parsers.check_usize_options(facts, chk, 'C11.opt', 'threads')
    from . import buildops
    # the parallel build, functionally: sample i owns name i and column i for every recursion depth
    chk.guard('C11.func', 'C11.func:parallel_append', lambda: buildops.check_parallel_append(facts, chk, 'C11.func', tier))
    # ska align / ska map through main() on sequence-file input, for several --threads values: same output as the specification
    from . import cli_more
    chk.guard('C11.cli', 'C11.cli:run0', lambda: cli_more.check_seq_inputs(facts, chk, 'C11.cli', tier, 'align'))
    chk.guard('C11.cli', 'C11.cli:run1', lambda: cli_more.check_seq_inputs(facts, chk, 'C11.cli', tier, 'map'))
    # ska build of 12 / 32 samples with --threads 1 / 2 / 4 through main(): the merge recursion reaches depth 0, 1 and 2
    from . import cli_more2
    chk.guard('C11.cli', 'C11.cli:run2', lambda: cli_more2.check_build_parallel(facts, chk, 'C11.cli', tier))
    # repeated runs draw fresh hash seeds: whole subcommands interpreted with the iteration order of every hash container reversed
    from . import hashorder
    chk.guard('C11.order', 'C11.order:run', lambda: hashorder.check_pipelines_reversed(facts, chk, 'C11.order', tier))
    chk.guard('C11.order', 'C11.order:run-ref', lambda: hashorder.check_lo_ref_repeats(facts, chk, 'C11.order', tier))
    chk.guard('C11.vote', 'C11.vote:run', lambda: hashorder.check_vote(facts, chk, 'C11.vote', tier))
    main = facts.fn('main')
    # ---------------------------------------------------------------- pool
    def pool():
        ea = EffectAnalysis(facts, pool_effect, compose=pool_compose)
        eb = ExprBuilder(main)
        cmd = facts.adt('cli::Commands')
        sw = None
        for blk in main.blocks:
            if blk.idx in main.live_blocks() and blk.term.k == 'switch' and len(blk.term.targets) >= 8:
                e = eb.operand(blk.term.discr)
                if e[0] == 'discr':
                    sw = blk
                    break
        if sw is None:
            raise AnchorLost('main: dispatch switch on Commands not found')
        arms = []
        for v, tg in sw.term.targets:
            if v < len(cmd['variants']):
                arms.append((cmd['variants'][v]['name'], tg))
        sites = []
        for b in facts.bodies.values():
            if b.kind == 'Promoted':
                continue
            for bb, t in b.calls():
                if (t.callee.name or '') == 'rayon::ThreadPoolBuilder::build_global':
                    sites.append((b.name, t.span, fatal_init(b, bb, t)))
        out = []
        for name, tg in arms:
            res = ea.explore(main, (), 0, only_from=tg)
            worst = 0
            for (c, rv) in res:
                worst |= c
            wit = next((w for (c, rv), w in res.items() if c & 4), None) or next((w for (c, rv), w in res.items() if c == worst), ())
            out.append((name, worst, wit, len(res)))
        return out, sites, ea
    r = chk.guard('C11.pool', 'C11.pool:main', pool)
    if r is not None:
        out, sites, ea = r
        chk.floor('C11.pool', 'subcommand arms', len(out), 10)
        chk.floor('C11.pool', 'build_global call sites', len(sites), 3)
        for name, worst, wit, n in out:
            key = 'C11.pool:main:%s' % name
            if worst & 4:
                chk.violation('C11.pool', key, where=wit[-1].split(' @ ')[-1].split(' -> ')[0] if wit else '',
                              detail='on one path of `ska %s` a fatal initialisation of the global rayon pool (build_global().unwrap()/expect/?) is reached after the pool '
                                     'has already been initialised, so it fails: %s' % (name.lower(), '  +  '.join(wit)),
                              construct=dict(arm=name, path=list(wit)))
            else:
                chk.ok('C11.pool', key, '', 'no fatal initialisation of the global pool is preceded by another initialisation (explicit, tolerant or implicit) on any path (%d path classes; effects seen: %s)'
                       % (n, {0: 'none', 1: 'tolerant/implicit only', 3: 'one fatal first'}.get(worst & 3, worst)), evals=n,
                       sample=dict(arm=name, effects=worst, witness=list(wit)))
        chk.extra['build_global_sites'] = [dict(function=a, site=b, fatal=c) for a, b, c in sites]

    # ---------------------------------------------------------------- capture audit
    def captures():
        entries = []
        for b in facts.bodies.values():
            if b.kind == 'Promoted':
                continue
            eb = None
            for bb, t in b.calls():
                n = t.callee.name or ''
                full = t.callee.full or ''
                is_rayon = n.startswith('rayon::') and not n.startswith('rayon::ThreadPoolBuilder')
                if not is_rayon:
                    continue
                last = n.split('::')[-1]
                if last not in ('join', 'for_each', 'map', 'install', 'for_each_with', 'try_for_each', 'filter', 'filter_map',
                                'flat_map', 'reduce', 'fold', 'scope', 'spawn'):
                    continue
                if eb is None:
                    eb = ExprBuilder(b)
                for a in t.args:
                    e = eb.operand(a)
                    for x in subexprs(e):
                        if x[0] == 'agg' and x[1].startswith('closure:'):
                            entries.append((b, t, last, x[1][8:]))
        return entries
    entries = chk.guard('C11.capture', 'C11.capture:scan', captures)
    if entries is not None:
        chk.floor('C11.capture', 'closures passed to rayon entry points', len(entries), 8)
        info = []
        for b, t, kind, cpath in entries:
            c = facts.bodies.get(cpath)
            if c is None:
                chk.anchor_lost('C11.capture', 'C11.capture:%s' % cpath, 'closure body missing')
                continue
            root = _strip_generics(c.parent or b.name)
            bad = []
            for ty, cap in zip(c.upvar_tys or [], c.captures or []):
                why = _shared_mut(ty, cap, facts)
                if why:
                    bad.append('%s: %s (%s)' % (cap['name'], ty, why))
            nm = '%s#%s' % (root, cpath.split('::')[-1])
            key = 'C11.capture:%s' % nm
            if root.startswith('skalo::'):
                info.append(dict(closure=nm, site=t.span, shared_mutable=bad))
                chk.ok('C11.capture', key, t.span, 'skalo (order differences allowed): %d shared-mutable captures listed' % len(bad),
                       nontrivial=False)
            elif bad:
                chk.violation('C11.capture', key, where=t.span,
                              detail='closure passed to rayon %s in %s captures shared mutable state: %s' % (kind, root, '; '.join(bad)))
            else:
                chk.ok('C11.capture', key, t.span, '%d upvars, none shared-mutable; results leave through the return value / per-item &mut'
                       % len(c.upvar_tys or []), evals=len(c.upvar_tys or []) or 1,
                       sample=dict(closure=nm, upvars=c.upvar_tys))
        chk.extra['skalo_parallel_captures'] = info
        # exactly two UInt impls (IntT is a plain integer)
        ui = [i['self_ty'] for i in facts.impls if i['trait'] == 'ska_dict::bit_encoding::UInt']
        if sorted(ui) == ['u128', 'u64']:
            chk.ok('C11.capture', 'C11.capture:IntT', '', 'UInt is implemented exactly for u64 and u128 (no interior mutability behind IntT)')
        else:
            chk.violation('C11.capture', 'C11.capture:IntT', detail='UInt impls: %s' % ui, kind='anchor-lost')

    # ---------------------------------------------------------------- bridge / ordered collection
    def bridge():
        pb = []
        for b in facts.bodies.values():
            if b.kind == 'Promoted':
                continue
            for bb, t in b.calls():
                if (t.callee.name or '').endswith('par_bridge'):
                    pb.append((_strip_generics(b.parent) if b.kind == 'Closure' else b.name, t.span))
        d = facts.fn('merge_ska_array::MergeSkaArray::distance')
        names = [t.callee.name or '' for _, t in d.calls()]
        coll = [n for n in names if n.endswith('collect_into_vec') or n.endswith('::collect')]
        src = [n for n in names if 'into_par_iter' in n]
        unordered = [n for n in names if n.endswith('par_bridge') or n.endswith('for_each')]
        return pb, coll, src, unordered
    r = chk.guard('C11.bridge', 'C11.bridge:scan', bridge)
    if r is not None:
        pb, coll, src, unordered = r
        stray = [x for x in pb if not x[0].startswith('skalo::')]
        if stray:
            chk.violation('C11.bridge', 'C11.bridge:par_bridge:%s' % stray[0][0], where=stray[0][1],
                          detail='par_bridge (unordered) used outside skalo in %s' % stray[0][0])
        else:
            chk.ok('C11.bridge', 'C11.bridge:par_bridge', '', 'par_bridge sites: %s' % [x[0] for x in pb], nontrivial=False)
        if coll and src and not unordered:
            chk.ok('C11.bridge', 'C11.bridge:distance', 'merge_ska_array::MergeSkaArray::distance',
                   'rows gathered by %s from an indexed source (%s)' % (coll[0].split('::')[-1], 'axis_iter.into_par_iter'),
                   sample=dict(collect=coll, source=src))
        else:
            chk.violation('C11.bridge', 'C11.bridge:distance', where='merge_ska_array::MergeSkaArray::distance',
                          detail='distance rows are not gathered by an indexed collect (collect=%s source=%s unordered=%s)' % (coll, src, unordered))

    # ---------------------------------------------------------------- writer i <- column i (map), functional
    # RefSka::pseudoalignment interpreted with rayon modelled as an index-ordered sequential schedule: for 1..5 samples and
    # thread arguments 1..4 (thorough: 1..7 samples, threads up to 8) writer s holds the alignment of column s.  Replaces
    # the shape rule on enumerate(par_iter_mut(..)) / s![.., idx], which lost its anchors on an iterator-chain rewrite.
    from . import c04
    chk.guard('C11.column', 'C11.column:pseudoalignment', lambda: c04.check_pseudoalignment(facts, chk, 'C11.column', tier))

    # ---------------------------------------------------------------- offsets
    def offsets():
        res = []
        pa = facts.fn('merge_ska_dict::parallel_append')
        cl = facts.closures_of('merge_ska_dict::parallel_append')
        if len(cl) != 4:
            raise AnchorLost('parallel_append has %d closures (expected 4: two rayon::join pairs)' % len(cl))
        eb = ExprBuilder(pa)
        # split: (bottom, top) = file_list.split_at(split_point), split_point = len/2
        sa = [(bb, t) for bb, t in pa.calls() if (t.callee.name or '').endswith('split_at')]
        if len(sa) != 1:
            raise AnchorLost('parallel_append: %d split_at calls' % len(sa))
        sp_e = eb.operand(sa[0][1].args[1])
        res.append(('split', show(eb.operand(sa[0][1].args[0])).strip('&*') == 'file_list', 'split_at(%s, %s)' % (show(eb.operand(sa[0][1].args[0])), show(sp_e))))
        for c in cl:
            ebc = ExprBuilder(c)
            calls = [(bb, t) for bb, t in c.calls() if (t.callee.name or '') in ('merge_ska_dict::multi_append', 'merge_ska_dict::parallel_append')]
            if len(calls) != 1:
                raise AnchorLost('%s: %d append calls' % (c.path, len(calls)))
            t = calls[0][1]
            callee = facts.fn(t.callee.name)
            pnames = [callee.local_names.get(i + 1) for i in range(callee.arg_count)]
            a = {pn: ebc.operand(x) for pn, x in zip(pnames, t.args)}
            files = _upname(a['input_files'] if 'input_files' in a else a['file_list'])
            off = affine(a['offset'], atom_of=_upatom)
            tot = _upname(a['total_size'])
            want_off = ({'offset': 1}, 0) if files == 'bottom' else ({'offset': 1, 'split_point': 1}, 0)
            ok = files in ('bottom', 'top') and off == want_off and tot == 'total_size'
            res.append(('join:%s:%s' % (c.path.split('::')[-1], files), ok,
                        '%s(%s, offset=%s, total_size=%s)' % (t.callee.name.split('::')[-1], files, show(a['offset']), show(a['total_size']))))
        # halves: each join must have one bottom and one top closure
        halves = sorted(x[0].split(':')[-1] for x in res if x[0].startswith('join:'))
        res.append(('halves', halves == ['bottom', 'bottom', 'top', 'top'], 'closure halves: %s' % halves))
        # multi_append: SkaDict::new(k, idx + offset, ..) and MergeSkaDict::new(k, total_size, rc)
        ma = facts.fn('merge_ska_dict::multi_append')
        ebm = ExprBuilder(ma, through_vars=False)
        sk = [(bb, t) for bb, t in ma.calls() if (t.callee.name or '') == 'ska_dict::SkaDict::new']
        if len(sk) != 1:
            raise AnchorLost('multi_append: %d SkaDict::new calls' % len(sk))
        idx_e = affine(ebm.operand(sk[0][1].args[1]), atom_of=_upatom)
        res.append(('multi_append:index', idx_e == ({'idx': 1, 'offset': 1}, 0), 'sample_idx = %s' % show(ebm.operand(sk[0][1].args[1]))))
        md = [(bb, t) for bb, t in ma.calls() if (t.callee.name or '') == 'merge_ska_dict::MergeSkaDict::new']
        res.append(('multi_append:size', len(md) == 1 and _upname(ebm.operand(md[0][1].args[1])) == 'total_size',
                    'MergeSkaDict::new(k, %s, rc)' % (show(ebm.operand(md[0][1].args[1])) if md else '?')))
        # build_and_merge: parallel_append(max_depth, 0, input_files, total_size = input_files.len(), ..); serial path idx
        bm = facts.fn('merge_ska_dict::build_and_merge')
        ebb = ExprBuilder(bm)
        pc = [(bb, t) for bb, t in bm.calls() if (t.callee.name or '') == 'merge_ska_dict::parallel_append']
        if len(pc) != 1:
            raise AnchorLost('build_and_merge: %d parallel_append calls' % len(pc))
        t = pc[0][1]
        off0 = ebb.operand(t.args[1])
        tot = show(ebb.operand(t.args[3]))
        res.append(('build_and_merge:start', off0 == ('const', 0, 'usize') and 'len(' in tot and 'input_files' in tot,
                    'parallel_append(depth, %s, %s, total=%s)' % (show(off0), show(ebb.operand(t.args[2])), tot)))
        ebb2 = ExprBuilder(bm, through_vars=False)
        sk = [(bb, t) for bb, t in bm.calls() if (t.callee.name or '') == 'ska_dict::SkaDict::new']
        if len(sk) != 1:
            raise AnchorLost('build_and_merge: %d SkaDict::new calls' % len(sk))
        res.append(('build_and_merge:serial-index', _upname(ebb2.operand(sk[0][1].args[1])) == 'idx', 'serial sample_idx = %s' % show(ebb2.operand(sk[0][1].args[1]))))
        return res
    r = chk.guard('C11.offsets', 'C11.offsets:scan', offsets)
    if r is not None:
        for nm, ok, why in r:
            key = 'C11.offsets:%s' % nm
            if ok:
                chk.ok('C11.offsets', key, 'merge_ska_dict', why, sample=dict(rule=nm, found=why))
            else:
                chk.violation('C11.offsets', key, where='src/merge_ska_dict.rs', detail='sample offset discipline broken: %s' % why)

    # ---------------------------------------------------------------- combine
    def combine():
        cl = facts.closures_of('merge_ska_dict::MergeSkaDict::merge')
        ors = []
        for c in cl:
            for blk in c.blocks:
                for s in blk.stmts:
                    if s.k == 'assign' and s.rv.k == 'binop' and s.place.proj:
                        ors.append((c, s))
        return ors
    chk.guard('C11.combine', 'C11.combine:merge:semantics', lambda: check_merge_semantics(facts, chk))
    r = chk.guard('C11.combine', 'C11.combine:merge', combine)
    if r is not None:
        ops = [s.rv.op for _, s in r]
        if ops == ['BitOr']:
            chk.ok('C11.combine', 'C11.combine:merge', r[0][1].span, 'per-column combiner is `|` (zero is the identity: empty columns of the other half)',
                   sample=dict(site=r[0][1].span, op='BitOr'))
        else:
            chk.violation('C11.combine', 'C11.combine:merge', where=r[0][1].span if r else 'MergeSkaDict::merge',
                          detail='column combiner in MergeSkaDict::merge is %s, expected a single bitwise OR' % ops)


def check_merge_semantics(facts, chk):
    """MergeSkaDict::merge, abstractly interpreted on the two halves of a split build: disjoint sample sets in one
    index space of size n; k-mer classes {left only, both, right only}; either side may be empty."""
    from ..absint.interp import Interp, Panic, MapV
    from ..absint.values import BV, Agg, RefV, Cell, StrV
    MSD = 'merge_ska_dict::MergeSkaDict'
    names = [f['name'] for f in facts.adt(MSD)['variants'][0]['fields']]
    if names != ['k', 'rc', 'n_samples', 'names', 'split_kmers']:
        raise AnchorLost('MergeSkaDict fields are %s' % names)
    bad = []
    n_cases = 0
    n = 3
    for left in ([], [0], [0, 1], [1]):
        for right in ([], [2], [1, 2], [0, 2]):
            if set(left) & set(right):
                continue
            I = Interp(facts, {'IntT': 'u64'})

            def mk(tag, cols, keys):
                m = MapV()
                for kid in keys:
                    row = [BV(8, 0)] * n
                    for c in cols:
                        row = row[:c] + [BV(8, 65 + c + 4 * kid)] + row[c + 1:]
                    if cols:
                        m.d[('bv', 64, kid)] = (BV(64, kid), Cell(Agg('array', 0, row), 'row'))
                nm = Agg('array', 0, [StrV(['s%d' % c]) if c in cols else StrV([]) for c in range(n)])
                return Cell(Agg('adt:' + MSD, 0, [BV(64, 31), BV(1, 1), BV(64, n), nm, m]), tag), m
            sc, sm = mk('self', left, [1, 2])
            oc, om = mk('other', right, [2, 3])
            try:
                I.call_fn(MSD + '::merge', [RefV(sc), RefV(oc)])
            except Panic as p:
                bad.append(((left, right), 'panic %s' % p))
                continue
            n_cases += 1
            got_names = [''.join(x.chars) for x in sc.v.fields[3].fields]
            want_names = ['s%d' % c if (c in left or c in right) else '' for c in range(n)]
            if got_names != want_names:
                bad.append(((left, right), 'names %s, expected %s' % (got_names, want_names)))
            got = {k[2]: [x.val for x in c.v.fields] for k, (kv, c) in sc.v.fields[4].d.items()}
            want = {}
            for kid, cols in ((1, left), (2, left + right), (3, right)):
                lcols = [c for c in cols if (c in left and kid in (1, 2)) or (c in right and kid in (2, 3))]
                if lcols:
                    want[kid] = [(65 + c + 4 * kid) if c in lcols else 0 for c in range(n)]
            if got != want:
                bad.append(((left, right), 'rows %s, expected %s' % (got, want)))
    if bad:
        chk.violation('C11.combine', 'C11.combine:merge:semantics', where=MSD + '::merge', evals=n_cases,
                      detail='(left samples, right samples) = %s: %s' % bad[0])
    else:
        chk.ok('C11.combine', 'C11.combine:merge:semantics', MSD + '::merge',
               'join of two halves = union of their columns and names for all %d splits of 3 sample slots (incl. empty sides), 3 k-mer classes' % n_cases, evals=n_cases)


def _upname(e):
    x = e
    while x[0] in ('ref', 'deref', 'cast'):
        x = x[1]
    if x[0] == 'upvar':
        return x[2].lstrip('*')
    if x[0] in ('arg', 'var'):
        return x[2]
    return show(x)


def _upatom(e):
    return _upname(e)


def _shared_mut(ty, cap, facts, depth=0):
    """reason string when a captured type gives shared mutable access, else None"""
    if cap is not None and cap.get('by_ref') and cap.get('mut'):
        return 'captured by &mut'
    t = ty
    if t.startswith('&') and 'mut ' in t[:12] and cap is not None:
        return 'a &mut reference is captured'
    for m in NONFREEZE:
        if m in t:
            return 'contains %s' % m.rstrip('<')
    if depth < 3:
        for path, adt in facts.adts.items():
            if re.search(r'\b%s\b' % re.escape(path), t):
                for v in adt['variants']:
                    for f in v['fields']:
                        why = _shared_mut(f['ty'], None, facts, depth + 1)
                        if why:
                            return 'field %s.%s %s' % (path, f['name'], why)
    return None
