"""C20 - cov tabulates exact k-mer multiplicities and labels the cutoff it defines.

Decided clauses (BFGS convergence and the fitted values are numerical runtime quantities: not decided):
  C20.iter    CoverageHistogram::new drives SplitKmer::new(seq, num_bases, qual, k, rc, 0, NoFilter, false) and counts
              +1 per k-mer in the first-k-mer block and in the loop block, over both files; rc = !single_strand
  C20.index   counts initialised with MAX_COUNT rows; the cutoff search is capped by the truncated table length
              (the convention "row i <-> multiplicity i+1" at the writer is C20.trunc, at the readers C20.func / C20.cutoff)
  C20.func    numeric interpretation: log_likelihood / grad_ll / MixPoisson cost+gradient equal the stated mixture and its
              gradient; plot_hist prints (i+1, counts[i], density at i+1, Error iff i+1 < cutoff) (cov_func.py)
  C20.trunc   trailing rows are dropped while < MIN_FREQ, MIN_FREQ = 50
  C20.grad    symbolic: d/dw0 and d/dc of count * lse(a, b) equal the per-row terms of grad_ll (sympy; the result of
              f64::max inside lse kept as a free symbol); cost and gradient both negate
  C20.cutoff  find_cutoff returns the least c >= 1 (below the cap) whose root a(c) - b(c) is negative, else the cap:
              decided for all sign patterns of length <= 6 and caps 1..7
"""
import itertools
import json
import os
import subprocess

from ..facts import AnchorLost
from ..expr import ExprBuilder, show, subexprs, affine
from ..absint.interp import Interp, Panic
from ..absint.values import BV, Agg, RefV, Cell
from ..core import VERIF
from .util import reachable_without

EXPLANATION = ('Sibling-block and argument provenance for the counter, affine index conventions at writer and readers, symbolic '
               'differentiation of the extracted likelihood term against the extracted gradient terms, exhaustive sign-pattern '
               'interpretation of the cutoff search.')
ASSUMPTIONS = ['optimiser convergence / fitted parameters not decided', 'libm lgamma = log Gamma', 'sympy simplification is sound']
CV = 'coverage::'
CH = 'coverage::CoverageHistogram'


def _tree(e, names):
    """expression tree -> JSON-able tree with symbols for named leaves"""
    k = e[0]
    if k in ('arg', 'var'):
        if e[2] in names:
            return ['sym', names[e[2]]]
        raise AnchorLost('unexpected leaf %r in a float expression' % (e,))
    if k == 'fconst':
        return ['fconst', e[1]]
    if k == 'const':
        return ['const', e[1]]
    if k == 'bin':
        return ['bin', e[1], _tree(e[2], names), _tree(e[3], names)]
    if k == 'un':
        return ['un', e[1], _tree(e[2], names)]
    if k == 'cast':
        return ['cast', _tree(e[1], names)]
    if k in ('deref', 'ref'):
        return [k, _tree(e[1], names)]
    if k == 'call':
        return ['call', e[1], [_tree(a, names) for a in e[2]]]
    if k == 'index':
        # pars[0] / pars[1]
        s = show(e)
        if s in names:
            return ['sym', names[s]]
    raise AnchorLost('unsupported node %r in a float expression' % (e[:2],))


def run(facts, chk, tier, only=None):
    from ..facts import fn_with_helpers, fn_with_private_helpers
    # the Cov arm of main: read files in order, k, rc = !single_strand, width; fitted before the table is printed
    from . import cli_more
    chk.guard('C20.cli', 'C20.cli:run0', lambda: cli_more.check_cov_arm(facts, chk, 'C20.cli', tier))
    # helpers wrapping the counting statement are inlined, so `entry(kmer).and_modify(+1).or_insert(1)` may live in a private method
    new = fn_with_helpers(facts, CH + '::new', lambda c: (c.name or '').endswith('HashMap::entry'))

    # ---------------------------------------------------------------- iterator identity
    def it():
        eb = ExprBuilder(new)
        sk = [(bb, t) for bb, t in new.calls() if (t.callee.name or '').endswith('SplitKmer::new')]
        if len(sk) != 1:
            raise AnchorLost('CoverageHistogram::new: %d SplitKmer::new calls' % len(sk))
        a = [eb.operand(x) for x in sk[0][1].args]
        res = []
        res.append(('args', a[5] == ('const', 0, 'u8') and a[7] == ('const', 0, 'bool') and 'QualFilter::NoFilter' in show(a[6]) and
                    'k' in show(a[3]) and 'rc' in show(a[4]) or
                    (a[5] == ('const', 0, 'u8') and a[7] == ('const', 0, 'bool') and 'NoFilter' in show(a[6])),
                    'SplitKmer::new(.., k=%s, rc=%s, min_qual=%s, %s, is_reads=%s)' % (show(a[3])[:30], show(a[4])[:30], show(a[5]), show(a[6])[:40], show(a[7]))))
        # first + loop: entry(kmer).and_modify(+1).or_insert(1)
        ent = [(bb, t) for bb, t in new.calls() if (t.callee.name or '').endswith('HashMap::entry')]
        oi = [(bb, t) for bb, t in new.calls() if (t.callee.name or '').endswith('Entry::or_insert')]
        ok_blocks = len(ent) == 2 and len(oi) == 2 and all(eb.operand(t.args[1]) == ('const', 1, 'u32') for _, t in oi)
        # each and_modify site passes a closure whose only arithmetic is `+= 1`
        am = [(bb, t) for bb, t in new.calls() if (t.callee.name or '').endswith('Entry::and_modify')]
        incs = []
        ncl = 0
        for _, t in am:
            cl = [x[1][8:] for x in subexprs(eb.operand(t.args[1])) if x[0] == 'agg' and x[1].startswith('closure:')]
            if len(cl) != 1 or cl[0] not in facts.bodies:
                raise AnchorLost('and_modify closure not found')
            ncl += 1
            c = facts.bodies[cl[0]]
            ebc = ExprBuilder(c)
            adds = [s for b in c.blocks for s in b.stmts if s.k == 'assign' and s.rv.k == 'binop' and s.rv.op.startswith(('Add', 'Sub', 'Mul', 'Shl'))]
            if len(adds) != 1 or not adds[0].rv.op.startswith('Add'):
                incs.append(('not-a-single-add',))
            else:
                incs.append(ebc.operand(adds[0].rv.ops[1]))
        ok_inc = len(am) == 2 and ncl == 2 and all(x == ('const', 1, 'u32') for x in incs)
        # the keys are the k-mers of get_curr_kmer / get_next_kmer
        keys = [show(eb.operand(t.args[1])) for _, t in ent]
        ok_keys = any('get_curr_kmer' in k for k in keys) and any('get_next_kmer' in k for k in keys)
        res.append(('blocks', ok_blocks and ok_inc and ok_keys, 'first-k-mer and loop blocks both count +1 per k-mer (keys: %s)' % [k[:40] for k in keys]))
        # both files: the array [fastq1, fastq2] is iterated twice (peek + count)
        arrs = [s for b in new.blocks if b.idx in new.live_blocks() for s in b.stmts if s.k == 'assign' and s.rv.k == 'aggregate' and s.rv.j['kind'].get('k') == 'array']
        ebn2 = ExprBuilder(new, through_vars=False)
        farrs = [s for s in arrs if [show(ebn2.operand(o)).lstrip('&*') for o in s.rv.ops] == ['fastq1', 'fastq2']]
        ok_files = len(farrs) == 2
        res.append(('both-files', ok_files, 'both input files are iterated (%d array literals [fastq1, fastq2])' % len(arrs)))
        # rc = !single_strand in main
        main = facts.fn('main')
        ebm = ExprBuilder(main, through_vars=False)
        rcs = []
        for l in main.locals_named('rc'):
            for (bb, i, node) in main.defs_of(l):
                if i != 'term':
                    rcs.append(show(ebm.rvalue(node.rv)))
        ok_rc = len(rcs) == 2 and all(r.startswith('Not(') and 'single_strand' in r for r in rcs)
        res.append(('rc', ok_rc, 'rc = !single_strand in Build and Cov: %s' % rcs))
        return res
    r = chk.guard('C20.iter', 'C20.iter:CoverageHistogram::new', it)
    if r is not None:
        for nm, ok, why in r:
            if ok:
                chk.ok('C20.iter', 'C20.iter:%s' % nm, CH + '::new', why)
            else:
                chk.violation('C20.iter', 'C20.iter:%s' % nm, where=CH + '::new', detail='violated: ' + why)

    from . import skiter
    chk.guard('C20.func', 'C20.func:counts', lambda: skiter.check_cov_counts(facts, chk, 'C20.func', tier))
    from . import cov_func
    chk.guard('C20.func', 'C20.func:likelihood:run', lambda: cov_func.check_likelihood(facts, chk, 'C20.func', tier))
    chk.guard('C20.func', 'C20.func:plot_hist:run', lambda: cov_func.check_plot_hist(facts, chk, 'C20.func', tier))
    chk.guard('C20.width', 'C20.width:run', lambda: cov_func.check_counter_width(facts, chk, 'C20.width', tier))
    from . import c01
    chk.guard('C20.window', 'C20.window:run', lambda: c01.check_guards(facts, chk, 'C20.window'))

    # ---------------------------------------------------------------- index conventions
    def index():
        res = []
        fh = fn_with_private_helpers(facts, CH + '::fit_histogram', keep=(CV + 'find_cutoff',))      # private single-caller helpers (histogram / truncation / fit split out) are spliced in
        eb = ExprBuilder(fh, through_vars=False)
        ebt = ExprBuilder(fh)
        mc = facts.const_int('coverage::MAX_COUNT')
        # counts initialised with MAX_COUNT zeros
        ebn = ExprBuilder(new)
        fe = [(bb, t) for bb, t in new.calls() if (t.callee.name or '') == 'std::vec::from_elem']
        ok_init = len(fe) == 1 and ebn.operand(fe[0][1].args[0]) == ('const', 0, 'u32') and (show(ebn.operand(fe[0][1].args[1])) in ('MAX_COUNT', str(mc)))
        res.append(('init', ok_init, 'counts = vec![0; MAX_COUNT]'))
        # cap = counts.len() (after truncation)
        fcc = [(bb, t) for bb, t in fh.calls() if (t.callee.name or '') == CV + 'find_cutoff']
        ok_cap = len(fcc) == 1 and 'len(' in show(ebt.operand(fcc[0][1].args[1])) and ('.%d' % facts.field_index(CH, 'counts')) in show(ebt.operand(fcc[0][1].args[1]))
        res.append(('cap', ok_cap, 'cutoff capped by counts.len()'))
        return res
    r = chk.guard('C20.index', 'C20.index:scan', index)
    if r is not None:
        chk.floor('C20.index', 'index-convention sites', len(r), 2)
        for nm, ok, why in r:
            if ok:
                chk.ok('C20.index', 'C20.index:%s' % nm, CV, why)
            else:
                chk.violation('C20.index', 'C20.index:%s' % nm, where=CV, detail='row i <-> multiplicity i+1 broken: ' + why)

    # ---------------------------------------------------------------- histogram + truncation (semantic)
    # The part of fit_histogram before the model is constructed is interpreted on abstract CoverageHistogram values
    # (k-mer multiplicity maps) and the resulting `counts` table compared with the specified one:
    #   counts[i] = #k-mers of multiplicity i+1 (multiplicities > MAX_COUNT dropped), cut after the last row >= MIN_FREQ.
    def hist():
        fh = fn_with_private_helpers(facts, CH + '::fit_histogram', keep=(CV + 'find_cutoff',))      # private single-caller helpers (histogram / truncation / fit split out) are spliced in
        mf = 50                       # the property: "up to the last multiplicity shared by at least 50 split k-mers"
        mc = facts.const_int('coverage::MAX_COUNT')
        stop = [b.idx for b in fh.blocks if b.idx in fh.live_blocks() and
                any(s.k == 'assign' and s.rv.k == 'aggregate' and s.rv.j['kind'].get('adt') == 'coverage::MixPoisson' for s in b.stmts)]
        if len(stop) != 1:
            raise AnchorLost('fit_histogram: %d MixPoisson constructions' % len(stop))
        names = [x['name'] for x in facts.adt(CH)['variants'][0]['fields']]
        if sorted(names) != sorted(['k', 'rc', 'kmer_dict', 'counts', 'w0', 'c', 'cutoff', 'verbose', 'fitted']):
            raise AnchorLost('CoverageHistogram fields are %s' % names)
        from ..absint.interp import MapV
        from ..absint.values import Opaque

        def run_one(mults):
            m = MapV()
            i = 0
            for mult, n in mults:
                for _ in range(n):
                    i += 1
                    m.d[('bv', 64, i)] = (BV(64, i), Cell(BV(32, mult), 'cnt'))
            vals = dict(k=BV(64, 31), rc=BV(1, 1), kmer_dict=m, counts=Agg('array', 0, [BV(32, 0)] * mc), w0=Opaque('w0'), c=Opaque('c'),
                        cutoff=BV(64, 0), verbose=BV(1, 0), fitted=BV(1, 0))
            cell = Cell(Agg('adt:' + CH, 0, [vals[n] for n in names]), 'self')
            I = Interp(facts, {'IntT': 'u64'})
            fr = I.new_frame(fh)
            fr[1].v = RefV(cell)
            I.exec_body(fh, [], start=0, stop=stop, frame=fr)
            return [x.val for x in cell.v.fields[names.index('counts')].fields]

        def spec(mults):
            h = [0] * mc
            for mult, n in mults:
                if 1 <= mult <= mc:
                    h[mult - 1] += n
            last = max([i for i, v in enumerate(h) if v >= mf], default=-1)
            return h[:last + 1]
        cases = [[(1, 60), (2, mf), (3, mf - 1)], [(1, 60), (2, mf + 1), (3, mf - 1)], [(1, mf - 1)], [(1, mf), (7, mf), (8, 3)], [(2, mf)],
                 [(1, 60), (2, mf), (3, mf - 1), (5, mf + 1), (6, mf - 1), (mc, mf + 5), (mc + 1, 70)], [(1, 70), (mc - 1, mf), (mc + 1, 90)],
                 [(1, 60), (2, 20), (3, 20), (4, 20), (3, 10)], []]
        if tier == 'thorough':
            import itertools as _it
            for tail in _it.product((0, mf - 1, mf, mf + 1), repeat=3):
                cases.append([(1, 60)] + [(2 + i, n) for i, n in enumerate(tail) if n])
        bad_w, bad_t = [], []
        for cse in cases:
            got, want = run_one(cse), spec(cse)
            if got != want:
                (bad_t if got[:min(len(got), len(want))] == want[:min(len(got), len(want))] else bad_w).append((cse, got[:8], len(got), want[:8], len(want)))
        return len(cases), bad_w, bad_t, mf, mc
    r = chk.guard('C20.trunc', 'C20.trunc:fit_histogram', hist)
    if r is not None:
        n, bad_w, bad_t, mf, mc = r
        if bad_t:
            chk.violation('C20.trunc', 'C20.trunc:fit_histogram', where=CH + '::fit_histogram', evals=n,
                          detail='table must end after the last row >= MIN_FREQ(%d): (multiplicity, k-mers)=%s gives %d rows %s.., specified %d rows %s..' %
                                 ((mf,) + (bad_t[0][0], bad_t[0][2], bad_t[0][1], bad_t[0][4], bad_t[0][3])))
        else:
            chk.ok('C20.trunc', 'C20.trunc:fit_histogram', CH + '::fit_histogram',
                   'interpreted histogram prefix: table cut exactly after the last row >= MIN_FREQ(%d) on %d multiplicity maps (rows of %d/%d/%d k-mers at the tail)' % (mf, n, mf - 1, mf, mf + 1), evals=n)
        if bad_w:
            chk.violation('C20.index', 'C20.index:writer', where=CH + '::fit_histogram', evals=n,
                          detail='row i <-> multiplicity i+1 broken: (multiplicity, k-mers)=%s gives %s.. (%d rows), specified %s.. (%d rows)' %
                                 (bad_w[0][0], bad_w[0][1], bad_w[0][2], bad_w[0][3], bad_w[0][4]))
        else:
            chk.ok('C20.index', 'C20.index:writer', CH + '::fit_histogram',
                   'interpreted histogram prefix: counts[m-1] = #k-mers of multiplicity m, multiplicities > MAX_COUNT(%d) dropped (%d multiplicity maps)' % (mc, n), evals=n)

    # ---------------------------------------------------------------- gradient identity
    def grad():
        fns = {}
        for nm in ('a', 'b', 'ln_dpois', 'lse'):
            b = facts.fn(CV + nm)
            eb = ExprBuilder(b)
            if len(b.return_blocks()) != 1:
                raise AnchorLost('%s has %d return blocks' % (nm, len(b.return_blocks())))
            e = eb.local_expr(0)
            params = [b.local_names.get(i + 1) for i in range(b.arg_count)]
            fns[CV + nm] = dict(params=params, expr=_tree(e, {p: p for p in params}))
        ll = facts.fn(CV + 'log_likelihood')
        ebl = ExprBuilder(ll)
        # per-row term: the value added to ll inside the loop
        lll = ll.locals_named('ll')[0]
        terms = []
        for (bb, i, node) in ll.defs_of(lll):
            if i == 'term':
                continue
            e = ebl.rvalue(node.rv)
            if e[0] == 'bin' and e[1] == 'Add' and e[2][0] == 'var' and e[2][1] == lll:
                terms.append(e[3])
        if len(terms) != 1:
            raise AnchorLost('log_likelihood: %d accumulation terms' % len(terms))
        names_ll = {'w0': 'w0', 'c': 'c', 'i_f64': 'i_f64', 'count': 'count'}
        ll_term = _lltree(terms[0], ll)
        g = facts.fn(CV + 'grad_ll')
        ebg = ExprBuilder(g)
        out = {}
        for nm in ('grad_w0', 'grad_c'):
            gl = g.locals_named(nm)[0]
            ts = []
            for (bb, i, node) in g.defs_of(gl):
                if i == 'term':
                    continue
                e = ebg.rvalue(node.rv)
                if e[0] == 'bin' and e[1] == 'Add' and e[2][0] == 'var' and e[2][1] == gl:
                    ts.append(e[3])
            if len(ts) != 1:
                raise AnchorLost('grad_ll: %d accumulation terms for %s' % (len(ts), nm))
            out[nm] = _lltree(ts[0], g)
        payload = dict(functions=fns, ll_term=ll_term, grad_w0=out['grad_w0'], grad_c=out['grad_c'], lse=CV + 'lse')
        pr = subprocess.run(['python3-vt', os.path.join(VERIF, 'sa', 'sym_grad.py')], input=json.dumps(payload), capture_output=True, text=True, timeout=300)
        if pr.returncode != 0:
            raise AnchorLost('sympy helper failed: %s' % pr.stderr[-400:])
        res = json.loads(pr.stdout.strip().splitlines()[-1])
        # returned vector order and negations
        ret = [show(x) for x in subexprs(ebg.local_expr(0)) if x[0] == 'agg' and x[1] == 'array']
        # cost / gradient negate
        cost = facts.fn('<coverage::MixPoisson as argmin::core::CostFunction>::cost')
        ebc = ExprBuilder(cost)
        neg_cost = any(x[0] == 'un' and x[1] == 'Neg' and x[2][0] == 'call' and x[2][1] == CV + 'log_likelihood' for x in subexprs(ebc.local_expr(0)))
        gcl = [c for c in facts.bodies.values() if c.kind == 'Closure' and c.parent and 'Gradient' in c.parent and 'MixPoisson' in c.parent]
        neg_grad = len(gcl) == 1 and any(s.k == 'assign' and s.rv.k == 'unop' and s.rv.op == 'Neg' for b in gcl[0].blocks for s in b.stmts)
        order = None
        for b in g.blocks:
            for s in b.stmts:
                if s.k == 'assign' and s.rv.k == 'aggregate' and s.rv.j['kind'].get('k') == 'array':
                    order = [show(ExprBuilder(g, through_vars=False).operand(o)) for o in s.rv.ops]
        return res, neg_cost, neg_grad, order
    r = chk.guard_soft('C20.grad', 'C20.grad:identity', grad, twins=['C20.func:likelihood'])
    if r is not None:
        res, neg_cost, neg_grad, order = r
        if res.get('ok'):
            chk.ok('C20.grad', 'C20.grad:identity', CV + 'grad_ll', 'd/dw0 and d/dc of count*lse(a,b) equal the extracted gradient terms (residuals 0); exp(lse)=e^a+e^b for any pivot',
                   evals=3, sample=dict(ll_term=res.get('ll_term', '')[:200]))
        else:
            chk.violation('C20.grad', 'C20.grad:identity', where=CV + 'grad_ll', evals=3,
                          detail='analytic gradient differs from the derivative of the log-likelihood term: d/dw0 residual = %s ; d/dc residual = %s ; lse identity %s'
                                 % (res.get('grad_w0_residual'), res.get('grad_c_residual'), res.get('lse_identity')))
        if neg_cost and neg_grad and order == ['grad_w0', 'grad_c']:
            chk.ok('C20.grad', 'C20.grad:signs', CV, 'cost = -log_likelihood, gradient = -grad_ll, vector order [w0, c]')
        else:
            chk.violation('C20.grad', 'C20.grad:signs', where=CV, detail='cost negated=%s gradient negated=%s vector order=%s' % (neg_cost, neg_grad, order))

    # ---------------------------------------------------------------- cutoff search
    def cutoff():
        bad = []
        n = 0
        fcb = facts.fn(CV + 'find_cutoff')
        callees = {}
        for _, t in [c for body in [fcb] + facts.closures_of(CV + 'find_cutoff') for c in body.calls()]:      # the search may be a closure (`(1..cap).find(|c| ..)`)
            nm = t.callee.name or ''
            if t.callee.krate == 'ska' and nm in facts.by_name and len(facts.by_name[nm]) == 1:
                callees[nm] = facts.by_name[nm][0].arg_count
        fa = [nm for nm, ac in callees.items() if ac == 2]
        fb = [nm for nm, ac in callees.items() if ac == 3]
        if len(fa) != 1 or len(fb) != 1:
            raise AnchorLost('find_cutoff: the error / coverage component functions (2 / 3 parameters) are not its only crate-local callees: %s' % callees)
        for L in range(0, 7):
            for pat in itertools.product((0, 1), repeat=L):      # pat[j] = 1 <=> root at cutoff j+1 is negative
                for cap in range(1, 8):
                    I = Interp(facts)
                    I.overrides[fa[0]] = lambda I_, a, t, c, pat=pat: (-1.0 if (int(a[1]) - 1) < len(pat) and pat[int(a[1]) - 1] else 1.0)
                    I.overrides[fb[0]] = lambda I_, a, t, c: 0.0
                    pars = Cell(Agg('array', 0, [0.8, 20.0]), 'pars')
                    r = I.call_fn(CV + 'find_cutoff', [RefV(pars, (), (0, 2)), BV(64, cap)])
                    want = cap
                    for cc in range(1, cap):
                        if cc - 1 < len(pat) and pat[cc - 1]:
                            want = cc
                            break
                    n += 1
                    if r.val != want:
                        bad.append((pat, cap, r.val, want))
        return n, bad
    r = chk.guard('C20.cutoff', 'C20.cutoff:find_cutoff', cutoff)
    if r is not None:
        n, bad = r
        if bad:
            chk.violation('C20.cutoff', 'C20.cutoff:find_cutoff', where=CV + 'find_cutoff', evals=n,
                          detail='(negative-root pattern, cap, got, expected) = %s' % (bad[0],))
        else:
            chk.ok('C20.cutoff', 'C20.cutoff:find_cutoff', CV + 'find_cutoff', 'least c >= 1 below the cap with a(c) - b(c) < 0, else the cap: %d (pattern, cap) cases' % n, evals=n)


def _lltree(e, body):
    """tree of a per-row term in log_likelihood / grad_ll with named leaves mapped to symbols"""
    def conv(x):
        k = x[0]
        if k in ('var', 'arg'):
            nm = x[2]
            if nm in ('w0', 'c', 'i_f64'):
                return ['sym', nm]
            raise AnchorLost('unexpected variable %s in %s' % (nm, body.name))
        if k == 'index':
            # pars[0] -> w0, pars[1] -> c
            if x[2][0] == 'const':
                return ['sym', 'w0' if x[2][1] == 0 else 'c']
        if k == 'deref':
            s = show(x)
            if 'next(' in s and s.endswith('.0.1'):
                return ['sym', 'count']
            if x[1][0] in ('var', 'arg') and x[1][2] == 'count':
                return ['sym', 'count']
            return conv(x[1])
        if k == 'field':
            s = show(x)
            if s.endswith('.0.1'):
                return ['sym', 'count']
        if k == 'fconst':
            return ['fconst', x[1]]
        if k == 'const':
            return ['const', x[1]]
        if k == 'bin':
            # i as f64 + 1.0  ->  i_f64
            if x[1] == 'Add' and x[3] == ('fconst', 1.0) and x[2][0] == 'cast' and 'next(' in show(x[2]):
                return ['sym', 'i_f64']
            return ['bin', x[1], conv(x[2]), conv(x[3])]
        if k == 'un':
            return ['un', x[1], conv(x[2])]
        if k == 'cast':
            return ['cast', conv(x[1])]
        if k == 'ref':
            return conv(x[1])
        if k == 'call':
            return ['call', x[1], [conv(a) for a in x[2]]]
        raise AnchorLost('unsupported node %r in %s' % (x[:2], body.name))
    return conv(e)
