"""End-to-end small-scope checks of `ska lo` (C17.e2e / C18.e2e): generic_modes::skalo interpreted on sample sets built from
virtual FASTA files (build_and_merge -> MergeSkaArray::new -> skalo: build_graph, identify_good_kmers, compact_graph,
build_variant_groups, analyse_variant_groups, process_indels, create_fasta_and_vcf), with DashMap / Mutex / rayon modelled
sequentially and File::create / write! captured.  The captured `<out>_snps.fas` and `<out>_indels.vcf` are compared with the
property statements on planted variants.

Hash maps are modelled with insertion order, so this explores one of the many orders the real hash seeds produce; the
properties are stated up to column / record order.  Bounded (a handful of ancestors x allele / carrier assignments).
"""
import itertools
import random
from ..facts import AnchorLost
from ..absint.interp import Interp, Panic, NONE, StrV
from ..absint.values import BV, Agg
from . import e2e

COMP = {'A': 'T', 'C': 'G', 'G': 'C', 'T': 'A'}


def rcs(s):
    return ''.join(COMP[c] for c in reversed(s))


def run_lo(facts, samples, k, threads=1, missing=0.1, reference=None):
    """reference: None, or (name, sequence) of a single-record reference FASTA handed over with -r"""
    from ..absint.interp import some
    I = Interp(facts, {'IntT': 'u64'})
    I.files = {}
    I.out_files = {}
    I.max_steps = 800_000_000
    arr = e2e.build_array(facts, I, samples, k, 1)
    if reference is not None:
        I.files['ref.fa'] = ('fasta', [(reference[0], reference[1], None)])
    cf = [x['name'] for x in facts.adt('skalo::utils::Config')['variants'][0]['fields']]
    vals = dict(input_file=StrV(list('in.skf')), output_name=StrV(list('out')), max_missing=float(missing), max_depth=BV(64, 4),
                max_indel_kmers=BV(64, 2), nb_threads=BV(64, threads), reference_genome=some(StrV(list('ref.fa'))) if reference is not None else NONE)
    if sorted(vals) != sorted(cf):
        raise AnchorLost('skalo Config fields are %s' % cf)
    cfg = Agg('adt:skalo::utils::Config', 0, [vals[n] for n in cf])
    I.call_fn('generic_modes::skalo', [arr.v, cfg])
    return {p: ''.join(c.v.fields[1]) for p, c in I.out_files.items()}


def ancestor(L, k, rng, extra=(), plant=None):
    """random sequence whose (k-1)-mers - and those of every single-site / indel variant listed in `extra` (a function giving the
    variant sequences) - are unique on both strands"""
    for _ in range(5000):
        s = ''.join(rng.choice('ACGT') for _ in range(L))
        if plant is not None:
            s = plant(s, rng)
        seqs = [s] + list(extra(s)) if extra else [s]
        seen = {}
        ok = True
        for q in seqs:
            local = set()
            for i in range(len(q) - (k - 1) + 1):
                m = q[i:i + k - 1]
                r = rcs(m)
                if m == r:
                    ok = False
                    break
                c = min(m, r)
                local.add((c, i))
            if not ok:
                break
        # uniqueness inside each sequence (across variants shared k-mers are expected)
        for q in seqs:
            cs = [min(q[i:i + k - 1], rcs(q[i:i + k - 1])) for i in range(len(q) - k + 2)]
            if len(set(cs)) != len(cs):
                ok = False
                break
        if ok:
            return s
    raise AnchorLost('harness: no ancestor with unique (k-1)-mers found')


def parse_fasta(txt):
    names, seqs = [], []
    for line in txt.splitlines():
        if line.startswith('>'):
            names.append(line[1:])
            seqs.append('')
        elif names:
            seqs[-1] += line.strip()
    return names, seqs


# ------------------------------------------------------------------ C17
def check_snps(facts, chk, rule, tier):
    key = rule + ':snps'
    k = 9
    rng = random.Random(17)
    bad = []
    n = 0
    sets = 3 if tier != 'thorough' else 10
    for case in range(sets):
        ns = 3 + case % 2
        sites = [14, 34, 54][: 2 + case % 2]
        L = sites[-1] + 16

        def variants(s, sites=sites):
            out = []
            for st in sites:
                for b in 'ACGT':
                    if b != s[st]:
                        out.append(s[:st] + b + s[st + 1:])
            return out
        plant = None
        if case == 2:
            # the k bases before the first (outermost) site form a split k-mer whose arms are reverse complements of each other (stored with an
            # ambiguous S / W middle base and expanded twice in the graph): still within the property's domain - its (k-1)-mers are unique
            h = (k - 1) // 2

            def plant(s_, rng_, st=sites[0], h=h):
                x = ''.join(rng_.choice('ACGT') for _ in range(h))
                w = x + rng_.choice('ACGT') + rcs(x)
                return s_[:st - len(w)] + w + s_[st:]
        anc = ancestor(L, k, rng, variants, plant)
        # allele assignment: every site gets 2 alleles over the samples, every sample differs from the ancestor at most at all sites
        combos = []
        for st in sites:
            alt = rng.choice([b for b in 'ACGT' if b != anc[st]])
            pattern = [rng.choice((0, 1)) for _ in range(ns)]
            if len(set(pattern)) == 1:
                pattern[0] = 1 - pattern[0]
            combos.append([alt if p else anc[st] for p in pattern])
        samples = []
        for s in range(ns):
            g = list(anc)
            for st, al in zip(sites, combos):
                g[st] = al[s]
            g = ''.join(g)
            samples.append(('s%d' % s, [rcs(g) if s % 2 else g]))
        if case == 1:
            # one more sample that lacks the last site altogether (an incomplete assembly): with 5-6 samples one missing sample
            # exceeds the default 10% and that column must not be emitted
            while len(samples) < 5:
                samples.append(('s%d' % len(samples), [samples[0][1][0]]))
                for al in combos:
                    al.append(al[0])
            cut = sites[-1] - k
            samples.append(('s%d' % len(samples), [samples[0][1][0][:cut]]))
            for i, al in enumerate(combos):
                al.append(al[0] if sites[i] < cut - k else '-')
            ns = len(samples)
        for threads in ((1, 2) if case == 0 else (1,)):
            n += 1
            try:
                out = run_lo(facts, samples, k, threads)
            except Panic as p:
                bad.append((samples, 'ska lo aborts: %s' % p.kind))
                continue
            names, seqs = parse_fasta(out.get('out_snps.fas', ''))
            want_cols = [''.join(al) for al in combos]
            if names != [x[0] for x in samples]:
                bad.append((samples, 'sample names %s' % names))
                continue
            if len(set(map(len, seqs))) != 1:
                bad.append((samples, 'unequal sequence lengths %s' % [len(x) for x in seqs]))
                continue
            cols = [''.join(sq[i] for sq in seqs) for i in range(len(seqs[0]))]
            norm = lambda c: min(c, ''.join(COMP.get(x, x) for x in c))
            illformed = [c for c in cols if len(set(c) & set('ACGT')) < 2 or sum(1 for x in c if x not in 'ACGT') / ns > 0.1]
            if illformed:
                bad.append((samples, 'ill-formed columns %s' % illformed))
            elif sorted(map(norm, cols)) != sorted(map(norm, [w for w in want_cols if '-' not in w])):
                bad.append((samples, 'columns %s, planted SNP columns %s' % (sorted(cols), sorted(want_cols))))
    if bad:
        chk.violation(rule, key, where='generic_modes::skalo', evals=n, detail='%d of %d sample sets; first: %s; samples: %s' % (len(bad), n, bad[0][1], [(a, b[0]) for a, b in bad[0][0]]))
    else:
        chk.ok(rule, key, 'generic_modes::skalo', 'ska lo interpreted end to end: exactly one well-formed column per planted isolated SNP with every sample\'s true base (up to order / strand), names in order, '
               'on %d runs (k=%d, 3-4 samples, 2-3 sites >= 2k apart, alternate samples reverse-complemented)' % (n, k), evals=n)


def check_snps_ref(facts, chk, rule, tier):
    """`ska lo -r <reference>`: every planted site is reported once, at its true coordinate on the reference, REF = the reference base,
    ALT = the distinct other alleles (each once), every genotype decodes to the sample's true base; the pseudo-genomes have the
    reference length and carry each sample's true base at every called position.  Sites are bi- and tri-allelic, the alternate
    alleles interleaved over the samples; alternate samples are reverse-complemented."""
    key = rule + ':snps-ref'
    k = 9
    rng = random.Random(23)
    bad = []
    n = 0
    sets = 1 if tier != 'thorough' else 4
    for case in range(sets):
        ns = 5 if case % 2 == 0 else 4
        sites = [14, 34, 54]
        L = 70

        def variants(s, sites=sites):
            return [s[:st] + b + s[st + 1:] for st in sites for b in 'ACGT' if b != s[st]]
        anc = ancestor(L, k, rng, variants)
        # site 0 biallelic, sites 1-2 tri-allelic with the alternates interleaved in sample order (x y x y ..), one sample keeps the reference base
        truth = []
        for j, st in enumerate(sites):
            oth = [b for b in 'ACGT' if b != anc[st]]
            rng.shuffle(oth)
            if j == 0:
                col = [anc[st] if i % 2 == 0 else oth[0] for i in range(ns)]
            else:
                col = [anc[st]] + [oth[i % 2] for i in range(ns - 1)]
                if j == 2:
                    col[-1] = anc[st]
            truth.append(col)
        samples = []
        for i in range(ns):
            g = list(anc)
            for st, col in zip(sites, truth):
                g[st] = col[i]
            g = ''.join(g)
            samples.append(('s%d' % i, [rcs(g) if i % 2 else g]))
        n += 1
        try:
            # the reference is given soft-masked (lower case) around the second site: same sequence, same coordinates and alleles
            out = run_lo(facts, samples, k, 1, reference=('anc', anc[:25] + anc[25:45].lower() + anc[45:]))
        except Panic as p:
            bad.append((samples, 'ska lo -r aborts: %s' % p.kind))
            continue
        recs = {}
        dup = []
        names = None
        for line in out.get('out_snps.vcf', '').splitlines():
            if line.startswith('#CHROM'):
                names = line.split('\t')[9:]
            if line.startswith('#') or not line.strip():
                continue
            f = line.split('\t')
            keyp = (f[0], int(f[1]))
            if keyp in recs:
                dup.append(keyp)
            recs[keyp] = (f[3], f[4].split(','), f[9:])
        problems = []
        if names != [x[0] for x in samples]:
            problems.append('VCF sample columns %s' % names)
        if dup:
            problems.append('positions reported twice: %s' % dup)
        want_pos = {('anc', st + 1) for st in sites}
        if set(recs) != want_pos:
            problems.append('records at %s, planted sites at %s' % (sorted(recs), sorted(want_pos)))
        for st, col in zip(sites, truth):
            r = recs.get(('anc', st + 1))
            if r is None:
                continue
            ref, alts, gts = r
            want_alts = sorted(set(col) - {anc[st]})
            if ref != anc[st]:
                problems.append('%d: REF %s, the reference has %s' % (st + 1, ref, anc[st]))
            elif sorted(alts) != want_alts:
                problems.append('%d: ALT %s, true alternate alleles %s' % (st + 1, ','.join(alts), ','.join(want_alts)))
            else:
                dec = []
                for g in gts:
                    g0 = g.split('/')[0].split('|')[0]
                    dec.append('?' if not g0.isdigit() else ([ref] + alts)[int(g0)] if int(g0) <= len(alts) else '?')
                if dec != col:
                    problems.append('%d: genotypes decode to %s, true bases %s' % (st + 1, ''.join(dec), ''.join(col)))
        pn, ps = parse_fasta(out.get('out_pseudo_genomes.fas', ''))
        if pn != [x[0] for x in samples] or any(len(q) != len(anc) for q in ps):
            problems.append('pseudo-genomes: names %s lengths %s (reference length %d)' % (pn, [len(q) for q in ps], len(anc)))
        else:
            for st, col in zip(sites, truth):
                got = ''.join(q[st] for q in ps)
                if ('anc', st + 1) in recs and got != ''.join(col):
                    problems.append('pseudo-genomes at %d carry %s, true bases %s' % (st + 1, got, ''.join(col)))
        if problems:
            bad.append((samples, '; '.join(problems[:3])))
    if bad:
        chk.violation(rule, key, where='generic_modes::skalo (reference mode)', evals=n, detail='%d of %d sample sets; first: %s; samples: %s' % (len(bad), n, bad[0][1], [(a, b[0]) for a, b in bad[0][0]]))
    else:
        chk.ok(rule, key, 'generic_modes::skalo (reference mode)', 'ska lo -r interpreted end to end: every planted site reported once at its reference coordinate with REF, the distinct ALT alleles and genotypes decoding to the true bases; '
               'pseudo-genomes of reference length carrying the true bases (%d runs: bi- and tri-allelic sites with interleaved alternates, alternate samples reverse-complemented)' % n, evals=n)


# ------------------------------------------------------------------ C18
def parse_vcf(txt):
    names = None
    recs = []
    for line in txt.splitlines():
        if line.startswith('#CHROM'):
            names = line.split('\t')[9:]
        if line.startswith('#') or not line.strip():
            continue
        f = line.split('\t')
        info = dict(x.split('=') for x in f[6].split(';'))
        recs.append(dict(ref=f[3].replace('-', ''), alt=f[4].replace('-', ''), before=info['before'], after=info['after'], gt=f[9:]))
    return names, recs


def occurs(seq, pat):
    return pat in seq or rcs(pat) in seq


def check_indels(facts, chk, rule, tier):
    key = rule + ':indels'
    k = 9
    rng = random.Random(18)
    bad = []
    n = 0
    planted_total = reported_total = 0
    missed = []
    sets = 10 if tier != 'thorough' else 40
    for case in range(sets):
        ns = 3 + case % 2
        ln = 1 + case % 3
        kind = 'ID'[case % 2]
        pos = 30
        L = 70

        def variants(s, pos=pos, ln=ln, kind=kind):
            if kind == 'D':
                return [s[:pos] + s[pos + ln:]]
            return []
        anc = ancestor(L, k, rng, variants)
        ins = ''.join(rng.choice('ACGT') for _ in range(ln))
        if kind == 'I':
            # the inserted string must not extend a homopolymer / repeat (the indel would be positionally ambiguous)
            for _ in range(50):
                var = anc[:pos] + ins + anc[pos:]
                cs = [min(var[i:i + k - 1], rcs(var[i:i + k - 1])) for i in range(len(var) - k + 2)]
                if len(set(cs)) == len(cs) and ins[0] != anc[pos] and ins[-1] != anc[pos - 1]:
                    break
                ins = ''.join(rng.choice('ACGT') for _ in range(ln))
        else:
            var = anc[:pos] + anc[pos + ln:]
        ncar = 1 + case % (ns - 1)
        carriers = set(rng.sample(range(ns), ncar))
        genomes = [var if s in carriers else anc for s in range(ns)]
        samples = [('s%d' % s, [rcs(g) if s % 2 else g]) for s, g in enumerate(genomes)]
        n += 1
        planted_total += 1
        try:
            out = run_lo(facts, samples, k, 1)
        except Panic as p:
            bad.append((kind, ln, sorted(carriers), 'ska lo aborts: %s' % p.kind))
            continue
        names, recs = parse_vcf(out.get('out_indels.vcf', ''))
        if names != [x[0] for x in samples]:
            bad.append((kind, ln, sorted(carriers), 'sample names %s' % names))
            continue
        matched = 0
        for r in recs:
            rseq = r['before'] + r['ref'] + r['after']
            aseq = r['before'] + r['alt'] + r['after']
            has_ref = [occurs(g, rseq) for g in genomes]
            has_alt = [occurs(g, aseq) for g in genomes]
            for s, gt in enumerate(r['gt']):
                if gt == '0' and not (has_ref[s] and not has_alt[s]):
                    bad.append((kind, ln, sorted(carriers), 'sample %d genotyped 0 but before+REF+after %s in it / before+ALT+after %s in it (record %s)' % (s, has_ref[s], has_alt[s], r)))
                if gt == '1' and not (has_alt[s] and not has_ref[s]):
                    bad.append((kind, ln, sorted(carriers), 'sample %d genotyped 1 but allele sequences do not match (record %s)' % (s, r)))
            if [g for g in r['gt']] and all((has_ref[s] and r['gt'][s] == '0') or (has_alt[s] and r['gt'][s] == '1') for s in range(ns)):
                if {len(r['ref']), len(r['alt'])} == {0, ln}:
                    matched += 1
        if matched > 1:
            bad.append((kind, ln, sorted(carriers), 'the planted indel is reported %d times' % matched))
        if len(recs) > matched:
            bad.append((kind, ln, sorted(carriers), '%d record(s) do not correspond to the planted indel: %s' % (len(recs) - matched, recs)))
        reported_total += min(matched, 1)
        if matched == 0:
            missed.append((kind, ln, sorted(carriers), recs))
    # the property's "at least 90% are reported" is a statement over the input distribution and is NOT decided; what is checked is
    # that recall on this fixed family does not collapse (measured on the repaired tree: 9/10 quick, 35/40 thorough; the misses are
    # 1-base indels with a single carrier, which the real binary also misses)
    if not bad and planted_total and reported_total / planted_total < 0.75:
        bad.append(('recall', 0, [], 'only %d of %d planted indels reported; not reported: %s' % (reported_total, planted_total, missed[:3])))
    if bad:
        chk.violation(rule, key, where='generic_modes::skalo', evals=n, detail='%d problems in %d runs; first: %s-length %s carriers %s: %s' % (len(bad), n, bad[0][0], bad[0][1], bad[0][2], str(bad[0][3])[:400]))
    else:
        chk.ok(rule, key, 'generic_modes::skalo', 'ska lo interpreted end to end: every indel record matches the genomes it genotypes (0: before+REF+after only, 1: before+ALT+after only), '
               'no planted indel reported twice, no other record, %d of %d planted indels reported (recall floor 75%% on this family; the 90%% clause is not decided); %d runs (k=%d, insertions / deletions of 1-3 bases, 3-4 samples, all carrier counts)' % (reported_total, planted_total, n, k), evals=n)


def check_wide(facts, chk, rule, tier, kind='snp'):
    """260 samples (thorough tier): a SNP / an insertion carried by samples 3, 17, 257 and 258.  Sample indices above 255 must stay
    distinct from indices 1 and 2 (a sample set or index kept in a u8 wraps there); no bounded family of a few samples reaches this."""
    key = rule + (':snps-wide' if kind == 'snp' else ':indels-wide')
    if tier != 'thorough':
        return
    k = 9
    rng = random.Random(77)
    L, site, ns = 44, 20, 260
    car = {3, 17, 257, 258}
    if kind == 'snp':
        def variants(s):
            return [s[:site] + b + s[site + 1:] for b in 'ACGT' if b != s[site]]
        anc = ancestor(L, k, rng, variants)
        alt = [b for b in 'ACGT' if b != anc[site]][0]
        samples = [('s%03d' % i, [anc[:site] + (alt if i in car else anc[site]) + anc[site + 1:]]) for i in range(ns)]
    else:
        ins = 'GA'

        def variants(s):
            return [s[:site] + ins + s[site:]]
        for _ in range(200):
            anc = ancestor(L, k, rng, variants)
            if anc[site:site + 2] != ins and anc[site - 2:site] != ins:
                break
        samples = [('s%03d' % i, [anc[:site] + (ins if i in car else '') + anc[site:]]) for i in range(ns)]
    try:
        out = run_lo(facts, samples, k, 1)
    except Panic as p:
        chk.violation(rule, key, where='generic_modes::skalo', evals=1, detail='ska lo aborts on 260 samples: %s' % p.kind)
        return
    if kind == 'snp':
        names, seqs = parse_fasta(out.get('out_snps.fas', ''))
        cols = [''.join(q[i] for q in seqs) for i in range(len(seqs[0]))] if seqs and seqs[0] else []
        want = ''.join(alt if i in car else anc[site] for i in range(ns))
        comp = ''.join(COMP.get(x, x) for x in want)
        if len(names) != ns or len(cols) != 1 or cols[0] not in (want, comp):
            wrong = [i for i, (a, b) in enumerate(zip(cols[0] if cols else '', want)) if a != b][:8] if cols and cols[0] not in (want, comp) else []
            chk.violation(rule, key, where='generic_modes::skalo', evals=1, detail='%d sequences, %d columns; samples with the wrong base: %s (carriers are %s)' % (len(names), len(cols), wrong, sorted(car)))
        else:
            chk.ok(rule, key, 'generic_modes::skalo', 'one SNP column over 260 samples with the alternative allele in exactly samples %s' % sorted(car), evals=1)
    else:
        names, recs = parse_vcf(out.get('out_indels.vcf', ''))
        good = [r for r in recs if {i for i, g in enumerate(r['gt']) if g.split('/')[0] == '1' or g == '1'} in (car, set(range(ns)) - car)]
        if len(recs) != 1 or not good:
            got = [sorted(i for i, g in enumerate(r['gt']) if g not in ('0', '0/0', '.'))[:8] for r in recs][:2]
            chk.violation(rule, key, where='generic_modes::skalo', evals=1, detail='%d indel records; carriers genotyped %s, planted carriers %s' % (len(recs), got, sorted(car)))
        else:
            chk.ok(rule, key, 'generic_modes::skalo', 'one indel record over 260 samples genotyping exactly samples %s as carriers' % sorted(car), evals=1)
