"""C09 - .skf persistence is lossless and independent of the integer width chosen.

Decided clauses (structural, necessary conditions):
  C09.width  the deserialising function rejects a file whose stored width differs from IntT's
  C09.arms   in `main`, the u64 and u128 branches of every width-dispatching arm are siblings
             (same calls, provenance-identical arguments) and the arm diverges when both loads fail
  C09.k      Build/Cov choose u64 iff k <= 31; the k validators accept exactly odd 5..=63
  C09.stack  = C19.stack (writer/reader mirror)   C09.safe = C16.O10
Not decided: that CBOR+snappy round-trips every value (library code).
"""
import re

from ..facts import AnchorLost
from ..expr import ExprBuilder, show, subexprs
from ..cond import reach_formula, eval_formula, eval_expr, Unevaluable, edge_conds, show_formula, atoms
from .util import calls_named, reachable_without, assigns_variant, can_return_from

EXPLANATION = ('Dominance / path rules over the MIR of MergeSkaArray::load and main: width check dominates every Ok '
               'return of the deserialiser; sibling comparison of the u64/u128 branches of all ten dispatching arms; '
               'k-threshold predicates evaluated over all k.')
ASSUMPTIONS = ['ciborium/snap round-trip values faithfully (library, trusted)']

MSA = 'merge_ska_array::MergeSkaArray'


def deserialisers(facts):
    out = []
    for b in facts.bodies.values():
        if b.kind == 'Promoted':
            continue
        for bb, t in b.calls():
            n = t.callee.name or ''
            if n.startswith('ciborium') and 'from_reader' in n:
                out.append((b, bb, t))
    return out


def check_width(facts, chk):
    des = deserialisers(facts)
    chk.floor('C09.width', 'from_reader call sites', len(des), 1)
    k_bits_idx = facts.field_index(MSA, 'k_bits')
    k_idx = facts.field_index(MSA, 'k')
    for body, cbb, ct in des:
        key = 'C09.width:%s' % body.name
        if not ('MergeSkaArray' in (ct.callee.full or '')):
            chk.ok('C09.width', key + ':other-type', ct.span, 'from_reader of another type: %s' % ct.callee.full, nontrivial=False)
            continue

        def go(body=body, cbb=cbb, ct=ct):
            eb = ExprBuilder(body)
            okb = [b.idx for b in body.blocks if b.idx in body.live_blocks() and assigns_variant(b, 0, 'result::Result', 'Ok')]
            if not okb:
                # Result returned by value from elsewhere (e.g. `from_reader(..).map_err(..)`): every return is an "Ok" return
                okb = body.return_blocks()
            # candidate guards: switches whose condition mentions the stored width (k_bits / k) and IntT::n_bits
            guards = []
            for b in body.blocks:
                if b.idx not in body.live_blocks() or b.term.k != 'switch':
                    continue
                e = eb.operand(b.term.discr)
                has_field = any(x[0] == 'field' and x[2] in (k_bits_idx, k_idx) for x in subexprs(e))
                has_nbits = any(x[0] == 'call' and x[1].endswith('n_bits') for x in subexprs(e)) or \
                    any(x[0] == 'cdef' and x[1].endswith('BITS') for x in subexprs(e))
                if has_field and has_nbits:
                    guards.append((b.idx, e))
            verdicts = []
            for ob in okb:
                good = False
                why = 'no comparison of the loaded k_bits with IntT::n_bits() on the way to this Ok return'
                for gb, e in guards:
                    # which edges of the guard can still reach the Ok block?
                    pass_edges = []
                    for s, c in edge_conds(body, eb, gb):
                        if ob in reachable_without(body, s) or s == ob:
                            pass_edges.append((s, c))
                    if not body.dominates(gb, ob):
                        why = 'width comparison at bb%d does not dominate the Ok return' % gb
                        continue
                    if len(pass_edges) != 1:
                        why = 'both outcomes of the width comparison at bb%d reach the Ok return' % gb
                        continue
                    s, c = pass_edges[0]
                    # the passing edge must hold exactly when stored width == IntT width
                    bad = None
                    for nb in (64, 128):
                        for kb in (64, 128):
                            for kk in (5, 31, 33, 63):
                                if (kk <= 31) != (kb == 64):
                                    continue

                                def leaf(x, nb=nb, kb=kb, kk=kk):
                                    if x[0] == 'call' and x[1].endswith('n_bits'):
                                        return nb
                                    if x[0] == 'cdef' and x[1].endswith('BITS'):
                                        return nb
                                    if x[0] == 'field' and x[2] == k_bits_idx:
                                        return kb
                                    if x[0] == 'field' and x[2] == k_idx:
                                        return kk
                                    raise Unevaluable()
                                try:
                                    v = eval_formula(c, lambda ex: eval_expr(ex, leaf))
                                except Unevaluable as u:
                                    raise AnchorLost('width guard not evaluable: %s (%s)' % (show(e), u))
                                if bool(v) != (nb == kb):
                                    bad = (nb, kb, v)
                    if bad is None:
                        good = True
                        why = 'guard bb%d: %s' % (gb, show(e))
                        break
                    why = 'guard at bb%d passes with IntT=%d bits on a %d-bit file' % (gb, bad[0], bad[1])
                verdicts.append((ob, good, why))
            return verdicts

        v = chk.guard('C09.width', key, go)
        if v is None:
            continue
        bad = [x for x in v if not x[1]]
        if bad:
            chk.violation('C09.width', key, where=ct.span,
                          detail='%s deserialises a MergeSkaArray<IntT> and returns Ok without rejecting a stored width '
                                 '!= IntT::n_bits(): %s' % (body.name, bad[0][2]),
                          construct=dict(function=body.name, from_reader=ct.span, ok_blocks=[x[0] for x in bad]))
        else:
            chk.ok('C09.width', key, ct.span, '; '.join(x[2] for x in v), evals=12 * len(v),
                   sample=dict(function=body.name, guard=v[0][2]))


def _norm(s):
    s = re.sub(r'\bu128\b', 'IntT', s)
    s = re.sub(r'\bu64\b', 'IntT', s)
    s = re.sub(r'promoted#\d+', 'promoted', s)
    return s


def _region_signature(body, eb, entry_block):
    """abstract call sequence of the blocks dominated by entry_block"""
    dom = body.dominators()
    region = [b for b in sorted(body.live_blocks()) if entry_block in dom.get(b, ())]
    sig = []
    for b in region:
        t = body.blocks[b].term
        if t.k == 'call':
            nm = _norm(t.callee.full or repr(t.callee))
            if nm.startswith('std::fmt') or nm.startswith('core::fmt') or nm.startswith('log::') or 'Arguments' in nm:
                # formatting/logging plumbing: keep the callee (without literal-length const generics), drop argument detail
                sig.append((re.sub(r'::<\d+, \d+>', '', nm), ()))
                continue
            args = tuple(_norm(show(eb.operand(a))) for a in t.args)
            sig.append((nm, args))
    return region, sig


def check_arms(facts, chk, k_arms=True):
    main = facts.fn('main')
    eb = ExprBuilder(main)
    loads = []
    for bb, t in main.calls():
        n = t.callee.name or ''
        if n in ('io_utils::load_array', MSA + '::load'):
            loads.append((bb, t))
    pairs = []
    i = 0
    while i + 1 < len(loads):
        a, b = loads[i], loads[i + 1]
        if a[1].callee.name == b[1].callee.name and '<u64>' in a[1].callee.full and '<u128>' in b[1].callee.full:
            pairs.append((a, b))
            i += 2
        else:
            i += 1
    chk.floor('C09.arms', 'u64/u128 load pairs in main', len(pairs), 8)
    if 2 * len(pairs) != len(loads):
        chk.violation('C09.arms', 'C09.arms:unpaired', detail='%d load sites in main but only %d u64/u128 pairs' % (len(loads), len(pairs)),
                      kind='anchor-lost')

    def ok_err_targets(bb, t):
        # the load's Result is tested by `if let Ok(..)`: switchInt(discriminant(dest))
        sb = t.target
        seen = 0
        while main.blocks[sb].term.k != 'switch' and seen < 4:
            sb = main.blocks[sb].term.succs()[0]
            seen += 1
        st = main.blocks[sb].term
        if st.k != 'switch':
            raise AnchorLost('load at bb%d is not followed by a discriminant switch' % bb)
        e = eb.operand(st.discr)
        if e[0] != 'discr':
            raise AnchorLost('load at bb%d: switch is not on the Result discriminant: %s' % (bb, show(e)))
        okt = [tg for v, tg in st.targets if v == 0]
        ert = [tg for v, tg in st.targets if v == 1] or [st.otherwise]
        if len(okt) != 1:
            raise AnchorLost('load at bb%d: no Ok edge' % bb)
        return okt[0], ert[0]

    for (abb, at), (bbb, bt) in pairs:
        arm = 'line%s' % at.span.split(':')[1]
        # stable key: the generic callee reached in the Ok branch
        def go(abb=abb, at=at, bbb=bbb, bt=bt):
            ok64, err64 = ok_err_targets(abb, at)
            ok128, err128 = ok_err_targets(bbb, bt)
            r64, s64 = _region_signature(main, eb, ok64)
            r128, s128 = _region_signature(main, eb, ok128)
            # the u128 load must sit on the Err path of the u64 load
            if bbb not in reachable_without(main, err64):
                raise AnchorLost('u128 load is not on the failure path of the u64 load')
            return s64, s128, err128
        r = chk.guard('C09.arms', 'C09.arms:%s' % arm, go)
        if r is None:
            continue
        s64, s128, err128 = r
        gen = [n for n, _ in s64 if n.startswith('generic_modes::')]
        name = gen[0].split('::')[1].split('<')[0] if gen else ('nk' if any('Display' in n or 'new_display' in n for n, _ in s64) else arm)
        key = 'C09.arms:%s' % name
        if s64 != s128:
            diff = next((i for i, (x, y) in enumerate(zip(s64, s128)) if x != y), min(len(s64), len(s128)))
            chk.violation('C09.arms', key, where=at.span,
                          detail='u64 and u128 branches differ at call #%d: %r vs %r' % (
                              diff, s64[diff] if diff < len(s64) else None, s128[diff] if diff < len(s128) else None))
        else:
            chk.ok('C09.arms', key, at.span, '%d calls, provenance-identical arguments' % len(s64), evals=len(s64),
                   sample=dict(arm=name, calls=[n for n, _ in s64 if n.startswith(('generic_modes', 'ska_ref', 'merge_ska'))][:6]))
        if can_return_from(main, err128):
            chk.violation('C09.arms', key + ':fallthrough', where=bt.span,
                          detail='after both width attempts fail the arm can still return normally (must diverge)')
        else:
            chk.ok('C09.arms', key + ':fallthrough', bt.span, 'both-fail edge diverges')

    # Build / Cov: dispatch on k (not part of C19, which only needs the load arms)
    if not k_arms:
        return
    for fam, u64c, u128c in (('Build', 'merge_ska_dict::build_and_merge', None), ('Cov', 'coverage::CoverageHistogram::new', None)):
        def go2(fam=fam, u64c=u64c):
            cs = [(bb, t) for bb, t in main.calls() if (t.callee.name or '') == u64c]
            c64 = [x for x in cs if '<u64>' in x[1].callee.full]
            c128 = [x for x in cs if '<u128>' in x[1].callee.full]
            if len(c64) != 1 or len(c128) != 1:
                raise AnchorLost('%s arm: %d/%d width-specific calls of %s' % (fam, len(c64), len(c128), u64c))
            b64, b128 = c64[0][0], c128[0][0]
            dom = main.dominators()
            # the deciding switch: nearest common dominator that is a switch separating the two calls
            cands = [b for b in dom[b64] & dom[b128] if main.blocks[b].term.k == 'switch']
            best = None
            for b in sorted(cands, reverse=True):
                succ = main.blocks[b].term.succs()
                s64 = [s for s in set(succ) if b64 in reachable_without(main, s) and b128 not in reachable_without(main, s)]
                s128 = [s for s in set(succ) if b128 in reachable_without(main, s) and b64 not in reachable_without(main, s)]
                if len(s64) == 1 and len(s128) == 1:
                    best = (b, s64[0], s128[0])
                    break
            if best is None:
                raise AnchorLost('%s arm: no switch separates the u64 and u128 calls' % fam)
            sb, t64, t128 = best
            cond64 = next(c for s, c in edge_conds(main, eb, sb) if s == t64)
            bad = []
            for k in range(5, 64, 2):
                def leaf(x, k=k):
                    x0 = x
                    while x0[0] in ('deref', 'ref', 'cast'):
                        x0 = x0[1]
                    if x0[0] == 'call' and x0[1].split('::')[-1] in ('le', 'lt', 'ge', 'gt'):
                        a = eval_expr(x0[2][0], leaf)
                        b = eval_expr(x0[2][1], leaf)
                        return int({'le': a <= b, 'lt': a < b, 'ge': a >= b, 'gt': a > b}[x0[1].split('::')[-1]])
                    if x0[0] == 'field' and 'Commands' in repr(x0) or (x0[0] in ('field', 'var', 'downcast')):
                        return k
                    if x0[0] == 'promoted':
                        pb = facts.bodies.get('%s::{promoted#%d}' % (x0[1], x0[2]))
                        if pb is not None:
                            for blk in pb.blocks:
                                for s in blk.stmts:
                                    if s.k == 'assign' and s.rv.k == 'use' and s.rv.ops[0].const_int() is not None:
                                        return s.rv.ops[0].const_int()
                    raise Unevaluable()
                try:
                    v = eval_formula(cond64, lambda ex: eval_expr(ex, leaf))
                except Unevaluable as u:
                    raise AnchorLost('%s arm: width predicate not evaluable (%s)' % (fam, u))
                if bool(v) != (k <= 31):
                    bad.append(k)
            r64, s64 = _region_signature(main, eb, t64)
            r128, s128 = _region_signature(main, eb, t128)
            return bad, s64, s128, main.blocks[sb].term.span
        r = chk.guard('C09.k', 'C09.k:%s' % fam, go2)
        if r is None:
            continue
        bad, s64, s128, sp = r
        if bad:
            chk.violation('C09.k', 'C09.k:%s' % fam, where=sp, detail='%s: 64-bit representation chosen iff k<=31 fails for k=%s' % (fam, bad))
        else:
            chk.ok('C09.k', 'C09.k:%s' % fam, sp, 'u64 branch taken iff k <= 31 for all 30 valid k', evals=30,
                   sample=dict(arm=fam, predicate='k<=31'))
        if s64 != s128:
            diff = next((i for i, (x, y) in enumerate(zip(s64, s128)) if x != y), min(len(s64), len(s128)))
            chk.violation('C09.arms', 'C09.arms:%s' % fam, where=sp,
                          detail='u64 and u128 branches differ at call #%d: %r vs %r' % (
                              diff, s64[diff] if diff < len(s64) else None, s128[diff] if diff < len(s128) else None))
        else:
            chk.ok('C09.arms', 'C09.arms:%s' % fam, sp, '%d calls, provenance-identical arguments' % len(s64), evals=len(s64))


def check_valid_k(facts, chk):
    """the four validators of k accept exactly odd 5..=63 (so that (u64,k<=31),(u128,k<=63) are the only configurations)"""
    from ..absint.interp import Interp, Panic, Unsupported
    from ..absint.values import BV, Opaque
    for fn, kpos in (('ska_dict::SkaDict::new', 0), ('ska_ref::RefSka::new', 0), ('coverage::CoverageHistogram::new', 2)):
        def go(fn=fn, kpos=kpos):
            body = facts.fn(fn)
            if body.local_names.get(kpos + 1) != 'k':
                raise AnchorLost('%s: parameter %d is not k' % (fn, kpos + 1))
            bad = []
            for k in range(0, 80):
                I = Interp(facts, {'IntT': 'u128'})
                args = [Opaque(('arg', i)) for i in range(body.arg_count)]
                args[kpos] = BV(64, k)
                try:
                    I.exec_body(body, args)
                    rejected = False
                except Panic as p:
                    rejected = p.kind in ('panic', 'diverge')
                except AnchorLost:
                    rejected = False      # got past the validation into code the leaf interpreter does not model
                want = not (5 <= k <= 63 and k % 2 == 1)
                if rejected != want:
                    bad.append(k)
            return bad, body.span
        r = chk.guard('C09.k', 'C09.k:valid:%s' % fn, go)
        if r is None:
            continue
        bad, sp = r
        if bad:
            chk.violation('C09.k', 'C09.k:valid:%s' % fn, where=sp, detail='k validator differs from "odd 5..=63" at k=%s' % bad[:10])
        else:
            chk.ok('C09.k', 'C09.k:valid:%s' % fn, sp, 'panics before any other effect exactly for k not in odd 5..=63 (k in 0..79)',
                   evals=80, sample=dict(validator=fn))

    def go_cli():
        body = facts.fn('cli::valid_kmer')
        eb = ExprBuilder(body)
        tgt = [b.idx for b in body.blocks if b.idx in body.live_blocks() and b.term.k == 'call' and
               'to_string' in (b.term.callee.name or '')]
        start = None
        for b in body.blocks:
            if b.idx in body.live_blocks() and b.term.k == 'call' and 'contains' in (b.term.callee.name or ''):
                start = b.idx
                break
        if start is None or not tgt:
            raise AnchorLost('valid_kmer: shape not recognised')
        bad = []
        for k in range(0, 80):
            reached = _simulate_k(body, eb, start, k, facts)
            if (reached in tgt) != (not (5 <= k <= 63 and k % 2 == 1)):
                bad.append(k)
        return bad, body.span
    r = chk.guard('C09.k', 'C09.k:valid:cli::valid_kmer', go_cli)
    if r is not None:
        bad, sp = r
        if bad:
            chk.violation('C09.k', 'C09.k:valid:cli::valid_kmer', where=sp, detail='k validator differs from "odd 5..=63" at k=%s' % bad[:10])
        else:
            chk.ok('C09.k', 'C09.k:valid:cli::valid_kmer', sp, 'returns Err exactly for k not in odd 5..=63 (k in 0..79)', evals=80)


def _first_panic_region(body):
    """blocks reachable from entry before any call other than range/contains helpers"""
    out = set()
    st = [0]
    while st:
        b = st.pop()
        if b in out:
            continue
        out.add(b)
        t = body.blocks[b].term
        if t.k == 'call':
            n = t.callee.name or ''
            if not any(x in n for x in ('RangeInclusive', 'contains', 'panic', 'Arguments', 'begin_panic')):
                continue
        st.extend(t.succs())
    return out


def _simulate_k(body, eb, start, k, facts):
    """walk the CFG from `start` deciding each switch by evaluating its condition with k known;
    returns the first block ending in a non-helper call / return"""
    bb = start
    for _ in range(200):
        t = body.blocks[bb].term
        if t.k == 'switch':
            e = eb.operand(t.discr)

            def leaf(x):
                x0 = x
                while x0[0] in ('deref', 'ref', 'cast'):
                    x0 = x0[1]
                if x0[0] == 'call' and x0[1].endswith('contains'):
                    # RangeInclusive::contains(&range, &k): range literal from promoted / aggregate
                    rng = x0[2][0]
                    lo, hi = _range_bounds(rng, facts)
                    return int(lo <= k <= hi)
                if x0[0] == 'arg' and x0[2] == 'k':
                    return k
                if x0[0] == 'var' and x0[2] == 'k':
                    return k
                if x0[0] == 'downcast' or x0[0] == 'field':
                    return k
                raise Unevaluable()
            v = eval_expr(e, leaf)
            nxt = None
            for val, tg in t.targets:
                if val == v:
                    nxt = tg
            bb = nxt if nxt is not None else t.otherwise
            continue
        if t.k == 'call':
            n = t.callee.name or ''
            if any(x in n for x in ('RangeInclusive', 'contains')):
                bb = t.target
                continue
            return bb
        if t.k in ('goto', 'assert', 'drop'):
            bb = t.target
            continue
        return bb
    raise AnchorLost('k validator walk did not terminate')


def _range_bounds(e, facts):
    x = e
    while x[0] in ('ref', 'deref'):
        x = x[1]
    if x[0] == 'call' and 'RangeInclusive' in x[1]:
        return x[2][0][1], x[2][1][1]
    if x[0] == 'promoted':
        pb = facts.bodies.get('%s::{promoted#%d}' % (x[1], x[2]))
        if pb is not None:
            for bb, t in pb.calls():
                if 'RangeInclusive' in (t.callee.name or ''):
                    return t.args[0].const_int(), t.args[1].const_int()
            for blk in pb.blocks:
                for s in blk.stmts:
                    if s.k == 'assign' and s.rv.k == 'aggregate' and 'RangeInclusive' in repr(s.rv):
                        return s.rv.ops[0].const_int(), s.rv.ops[1].const_int()
    raise Unevaluable()


def check_fields(facts, chk):
    """what is stored is what the dictionary holds: provenance of every field of the struct built in MergeSkaArray::new"""
    new = facts.fn(MSA + '::new')
    eb = ExprBuilder(new)
    ags = [s for b in new.blocks if b.idx in new.live_blocks() for s in b.stmts
           if s.k == 'assign' and s.rv.k == 'aggregate' and s.rv.j['kind'].get('adt') == MSA]
    if len(ags) != 1:
        raise AnchorLost('MergeSkaArray::new builds %d structs' % len(ags))
    ops = {f: eb.operand(o) for f, o in zip(ags[0].rv.j['kind']['fields'], ags[0].rv.ops)}
    want = {'k': lambda e: e[0] == 'call' and e[1].endswith('MergeSkaDict::kmer_len'),
            'rc': lambda e: e[0] == 'call' and e[1].endswith('MergeSkaDict::rc'),
            'names': lambda e: e[0] == 'call' and e[1].endswith('::clone') and 'names(' in show(e),
            'k_bits': lambda e: e[0] == 'call' and e[1].endswith('::n_bits'),
            'split_kmers': lambda e: show(e).startswith('with_capacity(') or e[0] == 'var',
            'variants': lambda e: True, 'variant_count': lambda e: True, 'ska_version': lambda e: True}
    for f, pred in want.items():
        key = 'C09.fields:new:%s' % f
        if f not in ops:
            chk.violation('C09.fields', key, kind='anchor-lost', detail='field %s not set in MergeSkaArray::new' % f)
        elif pred(ops[f]):
            chk.ok('C09.fields', key, ags[0].span, '%s = %s' % (f, show(ops[f])[:80]), nontrivial=f in ('k', 'rc', 'names', 'k_bits'))
        else:
            chk.violation('C09.fields', key, where=ags[0].span, detail='stored field `%s` is %s' % (f, show(ops[f])[:120]))
    # the k-mer pushed and the row pushed come from the same dictionary entry
    kp = [(bb, t) for bb, t in new.calls() if (t.callee.name or '').endswith('Vec::push') and 'Vec::<IntT>' in (t.callee.full or '')]
    pr = [(bb, t) for bb, t in new.calls() if 'push_row' in (t.callee.name or '')]
    if len(kp) == 1 and len(pr) == 1:
        ke = show(eb.operand(kp[0][1].args[1]))
        re_ = show(eb.operand(pr[0][1].args[1]))
        same = ke.replace('.0', '') .split('next(')[-1][:20] == re_.replace('.1', '').split('next(')[-1][:20] or ('next(' in ke and 'next(' in re_)
        if same and ke.rstrip(')').endswith('.0') and '.1' in re_:
            chk.ok('C09.fields', 'C09.fields:new:row-pairing', kp[0][1].span, 'k-mer = entry.0, row = entry.1 of the same dictionary entry')
        else:
            chk.violation('C09.fields', 'C09.fields:new:row-pairing', where=kp[0][1].span, detail='k-mer pushed %s but row pushed %s' % (ke, re_))
    else:
        chk.violation('C09.fields', 'C09.fields:new:row-pairing', kind='anchor-lost', detail='%d k-mer pushes, %d push_row' % (len(kp), len(pr)))


def run(facts, chk, tier, only=None):
    from . import cli_parsers
    cli_parsers.check_usize_options(facts, chk, 'C09.opt', 'k')
    from . import cli_e2e
    # the subcommand through ska::main() itself (argument parser replaced by a constructed Args value): hand-over of CLI values, width dispatch
    chk.guard('C09.cli', 'C09.cli:run0', lambda: cli_e2e.check_align(facts, chk, 'C09.cli', tier))
    from . import cli_more
    chk.guard('C09.cli', 'C09.cli:run8', lambda: cli_more.check_lo_arm(facts, chk, 'C09.cli', tier))
    chk.guard('C09.cli', 'C09.cli:run9', lambda: cli_more.check_cov_arm(facts, chk, 'C09.cli', tier))
    from . import cli_more2
    chk.guard('C09.cli', 'C09.cli:run10', lambda: cli_more2.check_build_proportion(facts, chk, 'C09.cli', tier))
    # files can be merged in any order, including files left without split k-mers by an earlier filter / weed (the real generic_modes::merge over virtual .skf files)
    from . import e2e2
    chk.guard('C09.e2e', 'C09.e2e:run-empty', lambda: e2e2.check_merge_empty(facts, chk, 'C09.e2e', tier))
    chk.guard('C09.e2e', 'C09.e2e:run-merge', lambda: e2e2.check_merge_e2e(facts, chk, 'C09.e2e', 'quick'))
    # a reloaded file may carry counts of any earlier mode: every operation recounts (tables with arbitrary stored counts)
    from . import tableops
    chk.guard('C09.func', 'C09.func:filter:run', lambda: tableops.check_filter(facts, chk, 'C09.func', 'quick'))
    chk.guard('C09.cli', 'C09.cli:run1', lambda: cli_e2e.check_map(facts, chk, 'C09.cli', tier, 'Aln'))
    chk.guard('C09.cli', 'C09.cli:run2', lambda: cli_e2e.check_weed(facts, chk, 'C09.cli', tier))
    chk.guard('C09.cli', 'C09.cli:run3', lambda: cli_e2e.check_merge_delete(facts, chk, 'C09.cli', tier, 'delete'))
    chk.guard('C09.cli', 'C09.cli:run4', lambda: cli_e2e.check_merge_delete(facts, chk, 'C09.cli', tier, 'merge'))
    chk.guard('C09.cli', 'C09.cli:run5', lambda: cli_e2e.check_nk_distance(facts, chk, 'C09.cli', tier, 'nk'))
    chk.guard('C09.cli', 'C09.cli:run6', lambda: cli_e2e.check_nk_distance(facts, chk, 'C09.cli', tier, 'distance'))
    chk.guard('C09.cli', 'C09.cli:run7', lambda: cli_e2e.check_build(facts, chk, 'C09.cli', 'thorough'))
    chk.guard('C09.fields', 'C09.fields:run', lambda: check_fields(facts, chk))
    chk.guard('C09.width', 'C09.width:run', lambda: check_width(facts, chk))
    chk.guard('C09.arms', 'C09.arms:run', lambda: check_arms(facts, chk))
    chk.guard('C09.k', 'C09.k:run', lambda: check_valid_k(facts, chk))
    # C09.stack is shared with C19
    from . import c19
    chk.guard('C09.stack', 'C09.stack:run', lambda: c19.check_stack(facts, chk, 'C09.stack'))
