"""C13 - weeding removes exactly the k-mers of the weed sequences and nothing else.

Decided clauses:
  C13.func      MergeSkaArray::weed interpreted on a 6-row table for every weed subset (with absent and duplicate k-mers),
                both modes: rows kept iff (k-mer in weed set) == reverse, bases / names untouched, counts stay aligned
  C13.args      the weed set is RefSka::new(array.kmer_len(), file, array.rc(), false, false) of the array being
                weeded, collected from kmer_iter() over all reference k-mers into a HashSet
  C13.e2e/.cli generic_modes::weed / ska::main interpreted over virtual files: with filtering off the saved file is the original
                minus / restricted to the weed k-mers, rows and names untouched, the two modes partition the file
  C13.nofilter  sample names are never written by MergeSkaArray::weed
  (inherits C01.guard through RefSka::new: the weed sequences' last window)
"""
from ..facts import AnchorLost
from ..expr import ExprBuilder, show, subexprs
from ..cond import reach_formula, eval_formula, eval_expr, Unevaluable
from .util import reachable_without, field_writes
from .c12 import _region_head

EXPLANATION = 'Small-scope abstract interpretation of MergeSkaArray::weed against the plain-table model; provenance of the weed-set construction.'
ASSUMPTIONS = ['models of HashSet (from_iter/contains), ndarray::Array2 (zeros/push_row/outer_iter) and Vec are faithful']
MSA = 'merge_ska_array::MergeSkaArray'


def run(facts, chk, tier, only=None):
    from . import cli_parsers
    cli_parsers.check_frequency_options(facts, chk, 'C13.opt')
    from . import cli_e2e
    # the subcommand through ska::main() itself (argument parser replaced by a constructed Args value): hand-over of CLI values, width dispatch
    chk.guard('C13.cli', 'C13.cli:run0', lambda: cli_e2e.check_weed(facts, chk, 'C13.cli', tier))
    # the operation itself: interpreted on all weed subsets (incl. absent / duplicate k-mers), both modes, stale counts
    from . import tableops
    chk.guard('C13.func', 'C13.func:weed', lambda: tableops.check_weed(facts, chk, 'C13.func', tier))
    from . import e2e
    chk.guard('C13.e2e', 'C13.e2e:run', lambda: e2e.check_weed_e2e(facts, chk, 'C13.e2e', tier))

    def args():
        g = facts.fn('generic_modes::weed')
        eb = ExprBuilder(g)
        rn = [(bb, t) for bb, t in g.calls() if (t.callee.name or '') == 'ska_ref::RefSka::new']
        wc = [(bb, t) for bb, t in g.calls() if (t.callee.name or '') == MSA + '::weed']
        if len(rn) != 1 or len(wc) != 1:
            raise AnchorLost('generic_modes::weed: %d RefSka::new, %d weed calls' % (len(rn), len(wc)))
        a = [eb.operand(x) for x in rn[0][1].args]
        res = []
        res.append(('k', a[0][0] == 'call' and a[0][1].endswith('::kmer_len') and 'ska_array' in show(a[0]), 'k = %s' % show(a[0])))
        res.append(('rc', a[2][0] == 'call' and a[2][1] == MSA + '::rc' and 'ska_array' in show(a[2]), 'rc = %s' % show(a[2])))
        res.append(('masks-off', a[3] == ('const', 0, 'bool') and a[4] == ('const', 0, 'bool'), 'mask flags = %s, %s' % (show(a[3]), show(a[4]))))
        res.append(('file', 'weed_fasta' in show(ExprBuilder(g, through_vars=False).operand(rn[0][1].args[1])) or 'weed_file' in show(a[1]), 'file = %s' % show(a[1])[:60]))
        wa = [eb.operand(x) for x in wc[0][1].args]
        res.append(('same-array', 'ska_array' in show(wa[0]) and 'new(' in show(wa[1]) and show(ExprBuilder(g, through_vars=False).operand(wc[0][1].args[2])) == 'reverse',
                    'ska_array.weed(&RefSka::new(..), reverse)'))
        # the set
        w = facts.fn(MSA + '::weed')
        ebw = ExprBuilder(w)
        fi = [(bb, t) for bb, t in w.calls() if (t.callee.name or '').endswith('from_iter')]
        ok_set = len(fi) == 1 and any(x[0] == 'call' and x[1].endswith('RefSka::kmer_iter') for x in subexprs(ebw.operand(fi[0][1].args[0])))
        res.append(('set', ok_set, 'weed set = HashSet::from_iter(weed_ref.kmer_iter())'))
        ki = facts.fn('ska_ref::RefSka::kmer_iter')
        ebk = ExprBuilder(ki)
        skp = facts.field_index('ska_ref::RefSka', 'split_kmer_pos')
        mp = [(bb, t) for bb, t in ki.calls() if (t.callee.name or '').endswith('Iterator::map')]
        ok_all = len(mp) == 1 and any(x[0] == 'field' and x[2] == skp for x in subexprs(ebk.operand(mp[0][1].args[0]))) and \
            not any(k in (t.callee.name or '') for _, t in ki.calls() for k in ('filter', 'take', 'skip', 'step_by'))
        res.append(('all-kmers', ok_all, 'kmer_iter maps over the whole split_kmer_pos list'))
        return res
    r = chk.guard('C13.args', 'C13.args:weed', args)
    if r is not None:
        for nm, ok, why in r:
            if ok:
                chk.ok('C13.args', 'C13.args:weed:%s' % nm, 'generic_modes::weed', why)
            else:
                chk.violation('C13.args', 'C13.args:weed:%s' % nm, where='generic_modes::weed', detail='violated: ' + why)

    # (the former shape rule "filter runs iff floor(n*min_freq) > 0 || filter != NoFilter || ambig_mask || ignore_const_gaps" is
    #  gone: what the property needs - with filtering off the rows and names come out untouched - is decided functionally by
    #  C13.e2e:weed / C13.cli, whichever way the call to filter is gated)
    def names():
        ni = facts.field_index(MSA, 'names')
        w = facts.fn(MSA + '::weed')
        return bool(field_writes(w, 1, ni))
    r = chk.guard_soft('C13.nofilter', 'C13.nofilter:weed:names', names, twins=['C13.e2e:weed'])
    if r is not None:
        if r:
            chk.violation('C13.nofilter', 'C13.nofilter:weed:names', where=MSA + '::weed', detail='MergeSkaArray::weed writes self.names')
        else:
            chk.ok('C13.nofilter', 'C13.nofilter:weed:names', MSA + '::weed', 'weed never assigns self.names')

    from . import c01
    # the weed set is enumerated by the shared SplitKmer iterator (last window of each weed sequence)
    chk.guard('C13.window', 'C13.window:run', lambda: c01.check_guards(facts, chk, 'C13.window'))
