"""End-to-end small-scope checks: whole subcommand pipelines interpreted over virtual sequence files.

The library functions a subcommand is made of are interpreted in the order the subcommand calls them (that order and the
argument provenance are decided by the shape rules of the property), on every input of a bounded family, and the final
output is compared with the property statement evaluated by a plain Python model.  needletail is replaced by a virtual
file table (parser trusted), rayon by an index-ordered sequential schedule, output sinks by recorders.

  map_e2e     ska map (aln): build_and_merge -> MergeSkaArray::new -> to_dict -> RefSka::new -> map -> write_aln      (C04)
  align_e2e   ska align:     build_and_merge -> MergeSkaArray::new -> filter -> write_fasta                           (C03)
"""
import itertools
from ..facts import AnchorLost
from ..absint.interp import Interp, Panic, NONE, some, StrV
from ..absint.values import BV, Agg, RefV, Cell, Opaque
from . import skiter

RS = 'ska_ref::RefSka'
MSA = 'merge_ska_array::MergeSkaArray'
COMPL = dict(zip('ACGTRYKMSWBDHVN-', 'TGCAYRMKSWVHDBN-'))


def _qualopts(facts, min_count=1, min_qual=0, qf='NoFilter'):
    qn = [a for a in facts.adts if a.endswith('QualOpts')]
    if len(qn) != 1:
        raise AnchorLost('QualOpts ADT not found')
    names = [x['name'] for x in facts.adt(qn[0])['variants'][0]['fields']]
    vals = dict(min_count=BV(16, min_count), min_qual=BV(8, min_qual), qual_filter=skiter._qf(facts, qf))
    return Cell(Agg('adt:QualOpts', 0, [vals[n] for n in names]), 'qualopts')


def build_array(facts, I, samples, k, rc, threads=1):
    """samples: [(name, [records])] (FASTA).  -> Cell holding the MergeSkaArray `ska build` would save"""
    for nm, recs in samples:
        I.files[nm] = ('fasta', [('r%d' % i, s, None) for i, s in enumerate(recs)])
    files = Agg('array', 0, [Agg('tuple', 0, [StrV(list(nm)), StrV(list(nm)), NONE]) for nm, _ in samples])
    fc = Cell(files, 'files')
    d = I.call_fn('merge_ska_dict::build_and_merge', [RefV(fc, (), (0, len(samples))), BV(64, k), BV(1, rc), RefV(_qualopts(facts)), BV(64, threads), NONE])
    return Cell(I.call_fn(MSA + '::new', [RefV(Cell(d, 'dict'))]), 'array')


def run_map(facts, ref, samples, k, rc, ambig_mask=0, repeat_mask=0, threads=1):
    I = Interp(facts, {'IntT': 'u64'})
    I.files = {'ref': ('fasta', [('c%d' % i, s, None) for i, s in enumerate(ref)])}
    arr = build_array(facts, I, samples, k, rc)
    d2 = I.call_fn(MSA + '::to_dict', [RefV(arr)])
    r = Cell(I.call_fn(RS + '::new', [BV(64, k), RefV(Cell(StrV(list('ref')), 'fn')), BV(1, rc), BV(1, ambig_mask), BV(1, repeat_mask)]), 'ref')
    I.call_fn(RS + '::map', [RefV(r), RefV(Cell(d2, 'd2'))])
    I.fasta_out = []
    I.call_fn(RS + '::write_aln', [RefV(r), RefV(Cell(Opaque('writer'), 'w')), BV(64, threads)])
    return [(''.join(chr(x.val) for x in nm), ''.join(chr(x.val) for x in sq)) for nm, sq in I.fasta_out]


def is_ambig(c):
    return c.upper() not in 'ACGTU-'


def spec_map(ref, samples, k, rc, ambig_mask=0, repeat_mask=0):
    h = (k - 1) // 2
    offs = [sum(len(x) for x in ref[:c]) for c in range(len(ref))]
    total = sum(len(x) for x in ref)
    wins = []                                  # (contig, centre, canonical k-mer, flag)
    for c, s in enumerate(ref):
        for (v, m, flag, pos) in skiter.spec(s, k, rc):
            wins.append((c, pos, v, flag))
    cnt = {}
    for c, pos, v, flag in wins:
        cnt[v] = cnt.get(v, 0) + 1
    out = []
    for nm, recs in samples:
        D = skiter.spec_dict([(s, None) for s in recs], k, rc)
        a = ['-'] * total
        for c, pos, v, flag in wins:
            if v in D:
                for q in range(max(0, pos - h), min(len(ref[c]), pos + h + 1)):
                    a[offs[c] + q] = ref[c][q].upper()
        for c, pos, v, flag in wins:
            if v in D:
                b = D[v]
                if flag:
                    b = COMPL[b]
                if ambig_mask and is_ambig(b):
                    b = 'N'
                a[offs[c] + pos] = b
        if repeat_mask:
            for c, pos, v, flag in wins:
                if cnt[v] > 1:
                    for q in range(max(0, pos - h), min(len(ref[c]), pos + h + 1)):
                        if a[offs[c] + q] != '-':
                            a[offs[c] + q] = 'N'
        out.append((nm, ''.join(a)))
    return out


def _rcs(s):
    return ''.join({'A': 'T', 'C': 'G', 'G': 'C', 'T': 'A', 'N': 'N', 'a': 't', 'c': 'g', 'g': 'c', 't': 'a', 'n': 'n'}[c] for c in reversed(s))


def map_cases(tier):
    ref1 = ['ACCAGTTGACCAT', 'GGTACCA']
    cases = [
        (ref1, [('s0', ['ACCAGTTGACCAT']), ('s1', ['ACCAGATGACC', 'TGGTACC'])]),
        (ref1, [('self', ref1), ('rcself', [_rcs(x) for x in ref1]), ('snp', ['ACCAGTAGACCAT', 'GGTTCCA'])]),
        (['accagttgaccat', 'GT', 'GGTNACCAGTA'], [('a', ['ACCAGTTGACCAT']), ('b', ['GGTAACCAGTA', 'CCAGTTG'])]),
        (['ACCACACCACTT'], [('rep', ['ACCACACCACTT']), ('part', ['CACCAC'])]),                     # repeated split k-mers in the reference
        (['ACGTTGCA', 'TGCAACGT'], [('x', ['ACGTTGCA']), ('y', ['ACGATGCA', 'ACGCTGCA'])]),      # reverse-complement contigs; ambiguity within a sample
        (['AACCGGTTAACC'], [('del', ['AACCGTTAACC']), ('ins', ['AACCGGATTAACC'])]),
        # every split k-mer of the reference on both strands (a contig and its reverse complement); samples whose records disagree at
        # a centre base in two and in three ways: the two- and three-base ambiguity codes and their complements
        (['ACCAGTTGACCAT', _rcs('ACCAGTTGACCAT')], [('amb3', ['ACCAGTTGACCAT', 'ACCAGATGACC', 'ACCAGCTGACC']), ('amb2', ['CCAGTTGAC', 'CCAGGTGAC', 'TTGACCAT', 'TTGTCCAT']),
                                                   ('amb3r', [_rcs('ACCAGTTGACCAT'), _rcs('ACCAGGTGACC'), _rcs('ACCAGCTGACC')])]),
    ]
    if tier == 'thorough':
        base = 'ACCAGTTGAC'
        for i in range(2, 8):
            for b in 'ACGT':
                if b != base[i]:
                    cases.append(([base], [('m', [base[:i] + b + base[i + 1:]]), ('w', [base])]))
    return cases


def check_map_e2e(facts, chk, rule, tier):
    key = rule + ':map'
    bad = []
    n = 0
    k = 5
    for ref, samples in map_cases(tier):
        for rc in (1, 0):
            for am, rm in ((0, 0), (1, 0), (0, 1), (1, 1)):
                for threads in ((1, 2) if (am, rm) == (0, 0) else (1,)):
                    n += 1
                    want = spec_map(ref, samples, k, rc, am, rm)
                    try:
                        got = run_map(facts, ref, samples, k, rc, am, rm, threads)
                    except Panic as p:
                        got = 'panic: %s' % p.kind
                    if got != want:
                        bad.append((ref, samples, rc, am, rm, threads, got, want))
    if bad:
        ref, samples, rc, am, rm, threads, got, want = bad[0]
        chk.violation(rule, key, where='ska map (build_and_merge / MergeSkaArray::new / to_dict / RefSka::new / map / write_aln)', evals=n,
                      detail='%d of %d cases differ; first: reference %s samples %s rc=%d ambig_mask=%d repeat_mask=%d threads=%d: output %s, the property requires %s'
                             % (len(bad), n, ref, samples, rc, am, rm, threads, got, want))
    else:
        chk.ok(rule, key, 'ska map pipeline', 'mapped alignment == property statement (sample base at matched centres, strand-corrected; upper-case reference flanks within (k-1)/2; gaps elsewhere; '
               'ambiguity and repeat masks) for %d (reference, sample set, strand mode, masks, threads) cases incl. lower-case / N / short contigs / repeats / indels / reverse-complemented contigs' % n, evals=n)


# ------------------------------------------------------------------ ska align end to end (C03)
def _ancestor(k):
    """deterministic search for a short ancestor whose split k-mer arms stay unique on both strands under every allele at the
    planted sites (the domain of C03)"""
    import random
    h = (k - 1) // 2
    rng = random.Random(3)
    sites = [h + 1, 2 * k + 1, 3 * k + 2]
    L = sites[-1] + h + 2
    for _ in range(20000):
        anc = ''.join(rng.choice('ACGT') for _ in range(L))
        ok = True
        arms_seen = set()
        # arms of every window under every allele combination are determined per window by at most one site (sites are > k apart)
        for i in range(L - k + 1):
            inside = [st for st in sites if i <= st < i + k]
            alts = 'ACGT' if inside and inside[0] != i + h else anc[i + h]
            if inside and inside[0] == i + h:
                alts = anc[i + h]              # the site is the middle base: arms unaffected
            arms_here = set()
            for b in (alts if inside and inside[0] != i + h else [None]):
                w = list(anc[i:i + k])
                if b is not None:
                    w[inside[0] - i] = b
                w = ''.join(w)
                a = w[:h] + w[h + 1:]
                r = _rcs(w)
                ra = r[:h] + r[h + 1:]
                if a == ra:
                    ok = False
                arms_here.add(min(a, ra))
            if arms_here & arms_seen:
                ok = False
            arms_seen |= arms_here
            if not ok:
                break
        if ok:
            return anc, sites
    raise AnchorLost('harness: no suitable ancestor found')



def run_align(facts, samples, k, rc, min_count, ftype='NoConst', threads=1):
    from . import tableops
    I = Interp(facts, {'IntT': 'u64'})
    I.files = {}
    arr = build_array(facts, I, samples, k, rc, threads)
    I.call_fn(MSA + '::filter', [RefV(arr), BV(64, min_count), BV(1, 0), tableops.filter_type(facts, ftype), BV(1, 0), BV(1, 0), BV(1, 0)])
    I.fasta_out = []
    I.call_fn(MSA + '::write_fasta', [RefV(arr), RefV(Cell(Opaque('writer'), 'w'))])
    return [(''.join(chr(x.val) for x in nm), ''.join(chr(x.val) for x in sq)) for nm, sq in I.fasta_out]


def check_align_e2e(facts, chk, rule, tier):
    """planted isolated substitutions: `ska align --min-freq 1` (no-const) yields exactly one column per substituted site with
    every sample's true base (up to complementing the column), names in input order, equal lengths"""
    key = rule + ':align'
    k = 7
    h = 3
    anc, sites = _ancestor(k)
    bad = []
    n = 0
    nsamp = (2, 3) if tier != 'thorough' else (2, 3, 4)
    for ns in nsamp:
        alleles_per_site = [[a for a in itertools.product('ACGT', repeat=ns) if len(set(a)) > 1][:: (7 if tier != 'thorough' else 3)] for _ in sites]
        total = 1
        for x in alleles_per_site:
            total *= len(x)
        # thorough: an evenly spaced sample of at most ~400 allele assignments per sample count (the full product for 4 samples is 6e5)
        stride = 17 if tier != 'thorough' else max(3, (total // 400) | 1)
        for combo in itertools.islice(itertools.product(*alleles_per_site), 0, None, stride):
            samples = []
            for s in range(ns):
                g = list(anc)
                for site, al in zip(sites, combo):
                    g[site] = al[s]
                g = ''.join(g)
                if s % 2 == 1:
                    g = _rcs(g)                     # contigs in either orientation
                if s == ns - 1 and n % 2 == 0:
                    g = g[:len(g) // 2].lower() + g[len(g) // 2:]          # a soft-masked (lower-case) stretch in one sample: same sequence
                samples.append(('s%d' % s, [g]))
            n += 1
            try:
                out = run_align(facts, samples, k, 1, ns)
            except Panic as p:
                bad.append((samples, 'panic: %s' % p.kind))
                continue
            names = [x[0] for x in out]
            seqs = [x[1] for x in out]
            cols = [''.join(sq[i] for sq in seqs) for i in range(len(seqs[0]))] if seqs and len(set(map(len, seqs))) == 1 else None
            want_cols = [''.join(al) for al in combo]
            norm = lambda c: min(c, ''.join(COMPL[x] for x in c))
            if names != [x[0] for x in samples]:
                bad.append((samples, 'names %s' % names))
            elif cols is None:
                bad.append((samples, 'unequal sequence lengths %s' % [len(x) for x in seqs]))
            elif sorted(map(norm, cols)) != sorted(map(norm, want_cols)):
                bad.append((samples, 'columns %s, true SNP columns %s' % (sorted(cols), sorted(want_cols))))
    if bad:
        chk.violation(rule, key, where='ska align (build_and_merge / MergeSkaArray::new / filter / write_fasta)', evals=n,
                      detail='%d of %d sample sets differ; first: %s: %s' % (len(bad), n, bad[0][0], bad[0][1]))
    else:
        chk.ok(rule, key, 'ska align pipeline', 'exactly one column per planted site with every sample\'s true base (up to complementing), names in input order, for %d sample sets (%s samples, 3 isolated sites, alternate samples reverse-complemented)' % (n, '/'.join(map(str, nsamp))), evals=n)


# ------------------------------------------------------------------ ska distance on tables (C14)
def spec_distance(rows, n, min_freq):
    """rows: base strings (one char per sample, '-' missing, unambiguous).  -> {(i, j): (snps, mismatch proportion)}"""
    import math
    thr = math.ceil(n * min_freq)
    kept = [b for b in rows if sum(1 for c in b if c != '-') >= max(thr, 1)]
    out = {}
    for i in range(n):
        for j in range(i + 1, n):
            snps = sum(1 for b in kept if b[i] != '-' and b[j] != '-' and b[i] != b[j])
            one = sum(1 for b in kept if (b[i] == '-') != (b[j] == '-'))
            any_ = sum(1 for b in kept if b[i] != '-' or b[j] != '-')
            out[(i, j)] = (float(snps), (one / any_) if any_ else 0.0)
    return out


def run_distance(facts, rows, n, min_freq, filt_ambig, threads=1, names=None):
    """generic_modes::distance interpreted completely; the output stream is a captured sink; -> ({(name_i, name_j): (snps, mismatch)}, text)"""
    from . import tableops
    names = names or ['s%d' % i for i in range(n)]
    t = tableops.Table(names, [(i + 1, b) for i, b in enumerate(rows)])
    arr = tableops.mk_array(facts, t, [1] * len(rows))            # stored counts arbitrary
    I = Interp(facts, {'IntT': 'u64'})
    I.out_files = {}
    sink = Cell(Agg('sink', 0, ['<out>', []]), 'ostream')
    I.overrides['io_utils::set_ostream'] = lambda I_, a, t_, c: Agg('bufwriter', 0, [RefV(sink)])
    I.call_fn('generic_modes::distance', [RefV(arr), RefV(Cell(NONE, 'prefix')), float(min_freq), BV(1, filt_ambig), BV(64, threads)])
    text = ''.join(sink.v.fields[1])
    lines = text.splitlines()
    if not lines or lines[0] != 'Sample1\tSample2\tDistance\tMismatches':
        raise AnchorLost('distance output header is %r' % (lines[:1],))
    out = {}
    for ln in lines[1:]:
        a, b, d, m = ln.split('\t')
        if (a, b) in out:
            raise AnchorLost('pair %s %s printed twice' % (a, b))
        out[(a, b)] = (float(d), float(m))
    return out, text


def check_distance_e2e(facts, chk, rule, tier):
    key = rule + ':distance'
    bad = []
    nrun = 0
    import random
    rng = random.Random(14)
    tables = []
    for n in (2, 3, 4):
        allrows = [''.join(p) for p in itertools.product('AC-', repeat=n) if set(p) != {'-'}]
        tables.append((n, allrows))                                   # every row content once
        for _ in range(3 if tier != 'thorough' else 10):
            tables.append((n, [rng.choice(allrows) for _ in range(rng.randint(1, 9))]))
        tables.append((n, ['A' * n, 'C' * n]))                        # constant sites only: identical samples
        if n >= 3:
            tables.append((n, ['-' * (n - 1) + 'A', '-' * (n - 1) + 'C', '-' * (n - 2) + 'AC']))    # pairs of samples without any k-mer
    for ti, (n, rows) in enumerate(tables):
        # sample names deliberately not in alphabetical order (the output must follow the column order of the file)
        names = ['zed', 'alpha', 'mid', 'beta'][:n] if ti % 2 == 0 else ['s%d' % i for i in range(n)]
        for mf in sorted({0.0, 1.0 / n, 0.5, (n - 1) / n, 1.0}):
            for fa in (0, 1):
                for threads in ((1, 2) if mf == 0.0 else (1,)):
                    nrun += 1
                    w = spec_distance(rows, n, mf)
                    want = {(names[i], names[j]): (round(v[0], 2), round(v[1], 5)) for (i, j), v in w.items()}
                    try:
                        got, text = run_distance(facts, rows, n, mf, fa, threads, names)
                    except Panic as p:
                        bad.append((n, rows, mf, fa, 'panic: %s' % p.kind, None))
                        continue
                    ok = set(got) == set(want) and all(abs(got[k][0] - want[k][0]) < 0.006 and abs(got[k][1] - want[k][1]) < 0.000006 for k in want)
                    if not ok:
                        bad.append((n, rows, mf, fa, got, want))
    if bad:
        n, rows, mf, fa, got, want = bad[0]
        chk.violation(rule, key, where='generic_modes::distance / MergeSkaArray::distance', evals=nrun,
                      detail='%d of %d cases differ; first: %d samples rows %s min_freq=%.3f filter_ambiguous=%d: distances %s, specified %s' % (len(bad), nrun, n, rows[:12], mf, fa, str(got)[:300], str(want)[:300]))
    else:
        chk.ok(rule, key, 'generic_modes::distance', 'each unordered pair once; SNP distance = shared k-mers with different bases, mismatch proportion = |exactly one| / |at least one| over the k-mers passing ceil(f x n); '
               'independent of stored counts and thread argument; printed under the names of the two columns in file order (%d table x threshold x flag cases, 2..4 samples)' % nrun, evals=nrun)


# ------------------------------------------------------------------ ska weed end to end (C13)
def check_weed_e2e(facts, chk, rule, tier):
    """generic_modes::weed interpreted with the weed sequences in a virtual FASTA and MergeSkaArray::save captured: with
    frequency filtering off (min_freq 0, default site filter) the saved table is the original minus (reverse: restricted
    to) the split k-mers of the weed sequences on either strand; every surviving row keeps all bases; names unchanged;
    weed / reverse weed partition the file; weeding twice changes nothing."""
    import copy
    from . import tableops
    key = rule + ':weed'
    k = 5
    bad = []
    n = 0
    sample_sets = [
        [('s0', ['ACCAGTTGACCAT', 'GGTACCA', 'AAAAAAAC']), ('s1', ['ACCAGATGACC', 'TGGTACC', 'ACCAGCTGA', 'CAAAAAA'])],      # s1 carries an ambiguous middle base (two copies differing at one site); both hold the all-A split k-mer (encoded 0)
        [('a', ['AACCGGTTAACCA']), ('b', ['AACCGTTTAACCA', 'AACCGATTAACCA']), ('c', ['TTGGC'])],
    ]
    weeds = [['AAAAAAA', 'CAGTTGAC'], ['CAGTTGAC'], ['GTCAACTG'], ['ACCNGTTGAC', 'GGGGGGG'], ['TTTTTTTT'], ['GTTGACC', 'ACG', 'NNANN', 'GGTACCA', 'AACCGG'], ['ACCAGTTGACCAT', 'GGTACCA', 'ACCAGATGACC', 'AACCGGTTAACCA', 'AACCGTTTAACCA']]
    for samples in sample_sets:
        for rc in (1, 0):
            for weed in weeds:
                results = {}
                for reverse in (0, 1):
                    for faam in (0, 1):
                        I = Interp(facts, {'IntT': 'u64'})
                        I.files = {'weed.fa': ('fasta', [('w%d' % i, s, None) for i, s in enumerate(weed)])}
                        arr = build_array(facts, I, samples, k, rc)
                        before = tableops.read_array(facts, arr)
                        saved = []
                        I.overrides[MSA + '::save'] = lambda I_, a, t, c: (saved.append(copy.deepcopy(I_.load(a[0]))), Agg('adt:std::result::Result', 0, [Agg('tuple', 0, [])]))[1]
                        n += 1
                        try:
                            I.call_fn('generic_modes::weed', [RefV(arr), RefV(Cell(some(StrV(list('weed.fa'))), 'wf')), BV(1, reverse), 0.0, BV(1, faam),
                                                              tableops.filter_type(facts, 'NoFilter'), BV(1, 0), BV(1, 0), RefV(Cell(StrV(list('out')), 'o'))])
                        except Panic as p:
                            bad.append((samples, weed, rc, reverse, faam, 'panic: %s' % p.kind))
                            continue
                        if len(saved) != 1:
                            bad.append((samples, weed, rc, reverse, faam, '%d saves' % len(saved)))
                            continue
                        after = tableops.read_array(facts, Cell(saved[0], 'saved'))
                        wk = set()
                        for s in weed:
                            for (v, m, flag, pos) in skiter.spec(s, k, rc):
                                wk.add(v)
                        names, kmers, rows, counts, ncols = before
                        want = [(km, r) for km, r in zip(kmers, rows) if (km in wk) == bool(reverse)]
                        got = list(zip(after[1], after[2]))
                        results[(reverse, faam)] = got
                        if after[0] != names or got != want:
                            bad.append((samples, weed, rc, reverse, faam, 'saved rows %s, specified %s' % (got[:4], want[:4])))
                # partition: weed + reverse weed = original (as multisets of rows)
                if (0, 0) in results and (1, 0) in results and sorted(results[(0, 0)] + results[(1, 0)]) != sorted(zip(before[1], before[2])):
                    bad.append((samples, weed, rc, '-', 0, 'weed and reverse weed do not partition the file'))
    if bad:
        samples, weed, rc, reverse, faam, why = bad[0]
        chk.violation(rule, key, where='generic_modes::weed', evals=n, detail='%d of %d cases; first: %s; samples %s weed sequences %s rc=%s reverse=%s filter_ambig_as_missing=%s' % (len(bad), n, why, samples, weed, rc, reverse, faam))
    else:
        chk.ok(rule, key, 'generic_modes::weed', 'with filtering off the saved file = original minus / restricted to the split k-mers of the weed sequences (either strand when merged), rows and names untouched, '
               'the two modes partition the file (%d runs: overlapping, reverse-complemented, N-containing, unrelated and all-covering weed sets; with and without --filter-ambig-as-missing)' % n, evals=n)
