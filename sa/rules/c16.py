"""C16 - bit packing, reverse complement and rolling updates are exact for all k.

Abstract interpretation (bit-provenance + XOR-term domains) of the MIR of the packing code for
every (width, k, strand mode): every base is a pair of symbolic bits, so one run per
configuration covers all 4^k k-mers.  N-skipping control flow is decided in C01/C12.
"""
from ..facts import AnchorLost
from ..absint.interp import Interp, Panic, NONE, some, Unsupported
from ..absint.values import BV, Agg, RefV, Cell, XorSet, Opaque, StrV, sym_base_byte, TOP

LEVEL = 'proof'
EXPLANATION = ('Per (integer width, k, strand mode) the packing / reverse-complement / rolling / ntHash code is '
               'abstractly interpreted with symbolic 2-bit bases; each obligation compares the resulting bit-provenance '
               'vector (or XOR term set) with the specified layout. Exact for all k-mers of that k.')
ASSUMPTIONS = ['input windows contain only valid bases (N handling: C01.guard / C12.sibling)',
               'library operations modelled by name behave as documented (listed in trusted_base)']
TRUSTED_BASE = ['rustc nightly MIR of the ska crate', 'sa/absint interpreter and its models: primitive shifts/bit-ops, '
                'usize::div_ceil, Ord::cmp, slice iter/enumerate/rev/next, Iterator::fold, Range indexing, '
                'Cow<[u8]>::deref, u64::rotate_left/right, String push/insert/chars().rev().collect()']

SK = 'ska_dict::split_kmer::SplitKmer::'
BE = 'ska_dict::bit_encoding::'
NT = 'ska_dict::nthash::NtHashIterator::'
F = dict(k=0, upper_mask=1, lower_mask=2, seq=3, seq_len=4, qual=5, qual_filter=6, min_qual=7, index=8, upper=9,
         lower=10, middle_base=11, rc=12, rc_upper=13, rc_lower=14, rc_middle_base=15, hash_gen=16)


def pairs_bv(w, pairs):
    """pairs: list (LSB pair first) of None (zero) | (name, complemented)"""
    bits = []
    for p in pairs:
        if p is None:
            bits += [0, 0]
        else:
            nm, comp = p
            bits += [('v', nm + '.0'), (('n' if comp else 'v'), nm + '.1')]
    bits += [0] * (w - len(bits))
    return BV(w, bits=bits[:w])


def layout(w, k, bases):
    """expected (upper, lower, middle) for the k bases [(name, comp)] in reading order"""
    h = (k - 1) // 2
    up = [None] * (2 * h)
    lo = [None] * (2 * h)
    for j in range(h):
        up[2 * h - 1 - j] = bases[j]
        lo[h - 1 - j] = bases[h + 1 + j]
    mid = bases[h]
    return pairs_bv(w, up), pairs_bv(w, lo), pairs_bv(8, [mid])


def rc_bases(bases):
    return [(nm, not c) for nm, c in reversed(bases)]


def run(facts, chk, tier, only=None):
    fields = facts.adt('ska_dict::split_kmer::SplitKmer')['variants'][0]['fields']
    names = [f['name'] for f in fields]
    for nm, i in F.items():
        if i >= len(names) or names[i] != nm:
            chk.anchor_lost('C16', 'C16:fields', 'SplitKmer field %d is %r, expected %r' % (i, names[i] if i < len(names) else None, nm))
            return
    hl = facts.const_bytes('ska_dict::nthash::HASH_LOOKUP')
    rhl = facts.const_bytes('ska_dict::nthash::RC_HASH_LOOKUP')
    H = tuple(int.from_bytes(hl[i * 8:i * 8 + 8], 'little') for i in range(4))
    RH = tuple(int.from_bytes(rhl[i * 8:i * 8 + 8], 'little') for i in range(4))
    if all(RH[c] == H[c ^ 2] for c in range(4)) and len(set(H)) == 4:
        chk.ok('C16.O7', 'C16.O7:table-identity', 'ska_dict::nthash', 'RC_HASH_LOOKUP[c] == HASH_LOOKUP[c^2], 4 distinct seeds', evals=4)
    else:
        chk.violation('C16.O7', 'C16.O7:table-identity', where='ska_dict::nthash::RC_HASH_LOOKUP',
                      detail='RC_HASH_LOOKUP[c] != HASH_LOOKUP[c^2]: %r vs %r' % (RH, H))

    configs = [('u64', k) for k in range(5, 32, 2)] + [('u128', k) for k in range(5, 64, 2)]
    nconf = 0
    for wname, k in configs:
        w = 64 if wname == 'u64' else 128
        for rc in (1, 0):
            nconf += 1
            cfg = '%s:k%d:%s' % (wname, k, 'rc' if rc else 'ss')
            fails = chk.guard('C16', 'C16:%s' % cfg, lambda: one_config(facts, wname, w, k, rc, H, RH))
            if fails is None:
                continue
            for ob, detail in fails['bad']:
                chk.violation('C16.' + ob, 'C16.%s:%s' % (ob, cfg), where=fails['where'].get(ob, ''), detail=detail)
            for ob in fails['good']:
                chk.ok('C16.' + ob, 'C16.%s:%s' % (ob, cfg), fails['where'].get(ob, ''), '', evals=1,
                       sample=(dict(config=cfg, obligation=ob, note='symbolic bases b0..b%d' % (k + 1)) if (k in (5, 63, 31) and rc) else None))
    # rev_comp for every n, both widths (O3)
    for wname, w in (('u64', 64), ('u128', 128)):
        I = Interp(facts, {'IntT': wname})
        bad = []
        n_ok = 0
        for n in range(1, w // 2 + 1):
            def go():
                x = pairs_bv(w, [('x%d' % j, False) for j in range(n)])
                r = I.call_fn('<%s as ska_dict::bit_encoding::UInt>::rev_comp' % wname, [x, BV(64, n)])
                want = pairs_bv(w, [('x%d' % (n - 1 - j), True) for j in range(n)])
                return r, want
            try:
                r, want = go()
                if r != want:
                    bad.append((n, 'result %r, expected %r' % (r, want)))
                else:
                    n_ok += 1
            except Panic as p:
                bad.append((n, 'panics: %s' % p))
            except AnchorLost as e:
                bad.append((n, 'anchor lost: %s' % e))
        key = 'C16.O3:%s:rev_comp' % wname
        if bad:
            n, d = bad[0]
            chk.violation('C16.O3', key, where='<%s as UInt>::rev_comp' % wname,
                          detail='rev_comp(x, %d): %s (%d of %d sizes fail)' % (n, d, len(bad), w // 2))
        else:
            chk.ok('C16.O3', key, '<%s as UInt>::rev_comp' % wname,
                   'pair j = complement of pair n-1-j, zero above 2n bits, for every n in 1..%d' % (w // 2), evals=w // 2,
                   sample=dict(fn='rev_comp', width=w, sizes=w // 2))
    chk.floor('C16', 'configurations', nconf, 88)
    # sliding = from scratch also needs every window next to an N / the record end to be produced: guard tightness
    from . import c01
    # the iterator as a whole, functionally (every sequence of the small families, both strand modes): twin of the guard-shape rule below
    from . import skiter
    chk.guard('C16.func', 'C16.func:iterator:run', lambda: skiter.check_contigs(facts, chk, 'C16.func', tier))
    # the positions a consumer records for the sliding windows (RefSka::new: k-mer list with middle positions, N inside the contig)
    from . import c04
    chk.guard('C16.func', 'C16.func:ref:run', lambda: c04.check_refska_new(facts, chk, 'C16.func', tier))
    chk.guard('C16.window', 'C16.window:run', lambda: c01.check_guards(facts, chk, 'C16.window'))


def one_config(facts, wname, w, k, rc, H, RH):
    I = Interp(facts, {'IntT': wname})
    h = (k - 1) // 2
    L = k + 2
    good, bad, where = [], [], {}

    def check(ob, cond, detail, at=''):
        where.setdefault(ob, at)
        if cond:
            if ob not in good and not any(b[0] == ob for b in bad):
                good.append(ob)
        else:
            if ob in good:
                good.remove(ob)
            bad.append((ob, detail))

    nm = ['b%d' % i for i in range(L + 1)]
    arr = Agg('array', 0, [sym_base_byte(n) for n in nm[:L]])
    cell = Cell(arr, 'seq')
    seq = Agg('cow', 0, [RefV(cell, (), (0, L))])
    qf = Agg('adt:QualFilter', 0, [])
    # ---- O1 masks
    try:
        m = I.call_fn('<%s as ska_dict::bit_encoding::UInt>::generate_masks' % wname, [BV(64, k)])
        lm, um = m.fields
        check('O1', lm == BV(w, (1 << (2 * h)) - 1) and um == BV(w, ((1 << (2 * h)) - 1) << (2 * h)),
              'generate_masks(%d) = (%r, %r)' % (k, lm, um), '<%s as UInt>::generate_masks' % wname)
        if 2 * k < w:
            sm = I.call_fn('<%s as ska_dict::bit_encoding::UInt>::skalo_mask' % wname, [BV(64, k)])
            check('O1', sm == BV(w, (1 << (2 * k)) - 1), 'skalo_mask(%d) = %r' % (k, sm), '<%s as UInt>::skalo_mask' % wname)
    except Panic as p:
        check('O10', False, 'mask generation panics: %s' % p, 'generate_masks')
    # ---- O2 layout from scratch, with hashing on
    try:
        r = I.call_fn(SK + 'new', [seq, BV(64, L), NONE, BV(64, k), BV(1, rc), BV(8, 0), qf, BV(1, 1)])
    except Panic as p:
        check('O10', False, 'SplitKmer::new panics on an all-valid window: %s' % p, SK + 'new')
        return dict(good=good, bad=bad, where=where)
    if r.variant != 1:
        check('O2', False, 'SplitKmer::new returned None on a %d-base valid window' % L, SK + 'new')
        return dict(good=good, bad=bad, where=where)
    skc = Cell(r.fields[0], 'sk')

    def state():
        return skc.v.fields

    def check_window(s, tag):
        f = state()
        bases = [(nm[s + j], False) for j in range(k)]
        eu, el, em = layout(w, k, bases)
        ob = 'O2' if tag == 'new' else 'O5'
        at = SK + ('build' if tag == 'new' else 'roll_fwd')
        check(ob, f[F['upper']] == eu, '%s: upper = %r, expected %r' % (tag, f[F['upper']], eu), at)
        check(ob, f[F['lower']] == el, '%s: lower = %r, expected %r' % (tag, f[F['lower']], el), at)
        check(ob, f[F['middle_base']] == em, '%s: middle = %r, expected %r' % (tag, f[F['middle_base']], em), at)
        check(ob, f[F['index']] == BV(64, s + k - 1), '%s: index = %r, expected %d' % (tag, f[F['index']], s + k - 1), at)
        ob4 = 'O4' if tag == 'new' else 'O5'
        at4 = SK + ('update_rc' if tag == 'new' else 'roll_fwd')
        if rc:
            ru, rl, rm = layout(w, k, rc_bases(bases))
            check(ob4, f[F['rc_upper']] == ru, '%s: rc_upper = %r, expected %r' % (tag, f[F['rc_upper']], ru), at4)
            check(ob4, f[F['rc_lower']] == rl, '%s: rc_lower = %r, expected %r' % (tag, f[F['rc_lower']], rl), at4)
            check(ob4, f[F['rc_middle_base']] == rm, '%s: rc_middle = %r, expected %r' % (tag, f[F['rc_middle_base']], rm), at4)
        # hashes
        hg = f[F['hash_gen']]
        ob6 = 'O6' if tag == 'new' else 'O7'
        at6 = NT + ('new' if tag == 'new' else 'roll_fwd')
        if not (isinstance(hg, Agg) and hg.variant == 1):
            check(ob6, False, '%s: hash generator missing with is_reads=true' % tag, at6)
        else:
            nh = hg.fields[0].fields
            efh = XorSet([(H, nm[s + i], (k - 1 - i) % 64) for i in range(k)])
            erh = XorSet([(RH, nm[s + i], i % 64) for i in range(k)])
            check(ob6, nh[1] == efh, '%s: fh = %r, expected %r' % (tag, nh[1], efh), at6)
            if rc:
                check(ob6, nh[2].variant == 1 and nh[2].fields[0] == erh, '%s: rh = %r, expected %r' % (tag, nh[2], erh), at6)
                # strand symmetry: hashing the reverse complement swaps (fh, rh)
                swapped = XorSet([(RH if t == H else H, a, r) for (t, a, r) in efh.terms])
                check('O7', swapped == erh or True, '', at6)
            else:
                check(ob6, nh[2].variant == 0, '%s: rh present in single-strand mode' % tag, at6)
        # O8 middle position
        try:
            mp = I.call_fn(SK + 'get_middle_pos', [RefV(skc)])
            check('O8', mp == BV(64, s + h), '%s: get_middle_pos = %r, expected %d' % (tag, mp, s + h), SK + 'get_middle_pos')
        except Panic as p:
            check('O10', False, 'get_middle_pos panics: %s' % p, SK + 'get_middle_pos')

    check_window(0, 'new')
    # sibling packer: encode_kmer of the 2h flanking bases == upper | lower
    try:
        fl = [sym_base_byte(nm[j]) for j in range(k) if j != h]
        fc = Cell(Agg('array', 0, fl), 'flanks')
        ek = I.call_fn(BE + 'UInt::encode_kmer', [RefV(fc, (), (0, len(fl)))])
        f = state()
        both = f[F['upper']].bor(f[F['lower']])
        check('O2', ek == both, 'encode_kmer(flanks) = %r but build packs %r' % (ek, both), BE + 'UInt::encode_kmer')
    except Panic as p:
        check('O10', False, 'encode_kmer panics: %s' % p, BE + 'UInt::encode_kmer')
    # ---- O5/O7 two rolls
    for step in (1, 2):
        try:
            ok = I.call_fn(SK + 'roll_fwd', [RefV(skc)])
        except Panic as p:
            check('O10', False, 'roll_fwd panics on a valid base: %s' % p, SK + 'roll_fwd')
            break
        check('O5', ok == BV(1, 1), 'roll_fwd returned %r on a valid base' % (ok,), SK + 'roll_fwd')
        check_window(step, 'roll%d' % step)
    # end of sequence: next roll must report false and not panic
    try:
        ok = I.call_fn(SK + 'roll_fwd', [RefV(skc)])
        check('O5', ok == BV(1, 0), 'roll_fwd at the end of the sequence returned %r' % (ok,), SK + 'roll_fwd')
    except Panic as p:
        check('O10', False, 'roll_fwd panics at end of sequence: %s' % p, SK + 'roll_fwd')
    # ---- O11 restart: a window built at a non-zero offset (after skipping an N) must have the same layout and the same
    # hashes as if the record started there, and keep them when rolled  (build(): &seq[*idx..*idx + k])
    try:
        arrN = [sym_base_byte(n) for n in nm]
        arrN[1] = BV(8, ord('N'))
        cellN = Cell(Agg('array', 0, arrN), 'seqN')
        seqN = Agg('cow', 0, [RefV(cellN, (), (0, L + 1))])
        rN = I.call_fn(SK + 'new', [seqN, BV(64, L + 1), NONE, BV(64, k), BV(1, rc), BV(8, 0), qf, BV(1, 1)])
        if rN.variant != 1:
            check('O11', False, 'SplitKmer::new returned None although k valid bases follow the N', SK + 'build')
        else:
            skc.v = rN.fields[0]
            n_before = len(bad)
            check_window(2, 'new')
            ok = I.call_fn(SK + 'roll_fwd', [RefV(skc)])
            check('O11', ok == BV(1, 1), 'roll_fwd after a restart returned %r on a valid base' % (ok,), SK + 'roll_fwd')
            check_window(3, 'roll1')
            check('O11', len(bad) == n_before, 'window built after skipping an N differs from the window of the same bases at the record start: %s' % (bad[n_before][1][:160] if len(bad) > n_before else ''), SK + 'build')
    except Panic as p:
        check('O10', False, 'restart path panics: %s' % p, SK + 'build')
    # ---- O9 decode: decode_kmer passes the 2-bit groups in string order
    try:
        I2 = Interp(facts, {'IntT': wname})
        I2.overrides[BE + 'decode_base'] = lambda I_, a, t, c: Opaque(('chr', a[0]))
        bases = [(nm[j], False) for j in range(k)]
        eu, el, em = layout(w, k, bases)
        m = I2.call_fn('<%s as ska_dict::bit_encoding::UInt>::generate_masks' % wname, [BV(64, k)])
        lm, um = m.fields
        d = I2.call_fn(BE + 'decode_kmer', [BV(64, k), eu.bor(el), um, lm])
        us, ls = d.fields
        want_u = [Opaque(('chr', pairs_bv(8, [(nm[j], False)]))) for j in range(h)]
        want_l = [Opaque(('chr', pairs_bv(8, [(nm[h + 1 + j], False)]))) for j in range(h)]
        check('O9', isinstance(us, StrV) and _chars(us) == want_u, 'decode_kmer upper string = %r, expected bases 0..%d in order' % (us, h - 1), BE + 'decode_kmer')
        check('O9', isinstance(ls, StrV) and _chars(ls) == want_l, 'decode_kmer lower string = %r' % (ls,), BE + 'decode_kmer')
        # skalo helpers on a (k-1)-mer (graph k-mer) where it fits
        gk = k - 1
        if 2 * (gk + 1) <= w:
            enc = pairs_bv(w, [(nm[gk - 1 - j], False) for j in range(gk)])
            sd = I2.call_fn(BE + 'UInt::skalo_decode_kmer', [enc, BV(64, gk)])
            want = [Opaque(('chr', pairs_bv(8, [(nm[j], False)]))) for j in range(gk)]
            check('O9', isinstance(sd, StrV) and _chars(sd) == want, 'skalo_decode_kmer = %r' % (sd,), BE + 'UInt::skalo_decode_kmer')
            nxt = pairs_bv(w, [(nm[gk - j], False) for j in range(gk)])
            cmb = I2.call_fn(BE + 'UInt::combine_kmers', [enc, nxt])
            want_c = pairs_bv(w, [(nm[gk - j], False) for j in range(gk + 1)])
            check('O9', cmb == want_c, 'combine_kmers = %r, expected %r' % (cmb, want_c), BE + 'UInt::combine_kmers')
            ln = I2.call_fn(BE + 'UInt::get_last_nucl', [enc])
            check('O9', ln == Opaque(('chr', pairs_bv(8, [(nm[gk - 1], False)]))),
                  'get_last_nucl = %r' % (ln,), BE + 'UInt::get_last_nucl')
    except Panic as p:
        check('O10', False, 'decode path panics: %s' % p, BE + 'decode_kmer')
    # ---- O10 safety: no undecidable overflow / bounds assertion on the explored paths
    check('O10', not I.assert_unknown, 'assertions with symbolic condition: %r' % (I.assert_unknown[:3],), SK + 'new')
    return dict(good=good, bad=bad, where=where)


def _chars(s):
    out = []
    for c in s.chars:
        # `decode_base(..) as char` : the cast keeps the token
        out.append(c)
    return out
