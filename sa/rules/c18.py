"""C18 - ska lo indel calls are real and genotyped correctly.

Reality / recall of indels over all genomes is NOT decided.  Claimed for:
  C18.gt     genotype closure: (in_ref, in_alt) -> "0/1", "0", "1", "." (4 rows), with ref/alt bitsets and ref/alt
             allele strings taken from the same tuple of the sorted `variants` (index 0 = REF, 1 = ALT; not crossed)
  C18.gate   a record is written only under proportion_missing <= max_missing && ref_present && alt_present;
             classification loop table: absent and heterozygous samples count as missing, only-ref sets ref_present,
             only-alt sets alt_present
  C18.dedup  final_indels.insert is dominated by !entries_indels.contains(entry) and entry, exit and both reverse
             complements are inserted into entries_indels on that path
"""
from ..facts import AnchorLost
from ..expr import ExprBuilder, show, subexprs
from ..cond import reach_formula, eval_formula, eval_expr, Unevaluable
from ..absint.interp import Interp, Panic
from ..absint.values import BV, Agg, RefV, Cell, Opaque
from .util import reachable_without
from .c12 import _region_head

EXPLANATION = 'Finite-domain interpretation of the genotype closure and the classification loop body, path-condition of the output gate, dominance rules for de-duplication.'
ASSUMPTIONS = ['indel reality/recall over genomes not decided', 'bit_set::BitSet::contains semantics']
PI = 'skalo::process_indels::'


def check_graph_leaves(facts, chk, rule):
    """finite-domain tables of the leaf predicates the bubble search is built on (necessary conditions of finding any
    variant): an entry node needs two out-edges with *different* sample sets; exit = reverse complement of the entry"""
    import itertools
    from ..absint.interp import bitset
    EX = 'skalo::extremities::'

    def cmp_table():
        I = Interp(facts)
        subsets = [frozenset(c) for r in range(4) for c in itertools.combinations(range(3), r)]
        bad = []
        for a in subsets:
            for b in subsets:
                r = I.call_fn(EX + 'compare_samples', [RefV(Cell(bitset(a), 'a')), RefV(Cell(bitset(b), 'b'))])
                if r.val != int(a != b):
                    bad.append((sorted(a), sorted(b), r.val))
        return bad
    r = chk.guard(rule, rule + ':compare_samples', cmp_table)
    if r is not None:
        if r:
            chk.violation(rule, rule + ':compare_samples', where=EX + 'compare_samples', evals=64,
                          detail='compare_samples(%s, %s) = %s: two out-edges with different sample sets are not recognised as a bubble entry (%d of 64 pairs wrong)'
                                 % (r[0][0], r[0][1], r[0][2], len(r)))
        else:
            chk.ok(rule, rule + ':compare_samples', EX + 'compare_samples', 'true iff the two sample sets differ (all 64 pairs of subsets of 3 samples)', evals=64)

    def entry_exit():
        g = facts.fn(EX + 'identify_good_kmers')
        eb = ExprBuilder(g)
        ins = [(bb, t) for bb, t in g.calls() if (t.callee.name or '').endswith('HashSet::insert')]
        cs = [(bb, t) for bb, t in g.calls() if (t.callee.name or '') == EX + 'compare_samples']
        if len(ins) != 2 or len(cs) != 1:
            raise AnchorLost('identify_good_kmers: %d inserts, %d compare_samples calls' % (len(ins), len(cs)))
        vals = [show(eb.operand(t.args[1])) for _, t in ins]
        ok_vals = any(v.startswith('rev_comp(') and 'k_graph' not in v or v.startswith('rev_comp(') for v in vals) and any(not v.startswith('rev_comp(') for v in vals)
        # both inserts only under compare_samples == true
        sw = g.blocks[cs[0][1].target].term
        fe = next((tg for v, tg in sw.targets if v == 0), None) if sw.k == 'switch' else None
        heads = [bb for bb, c in g.calls() if (c.callee.name or '').endswith('::next') and g.in_cycle(bb)]
        gated = fe is not None and all(bb not in reachable_without(g, fe, avoid_blocks=heads) for bb, _ in ins)
        # the compared sets belong to the two combined (k+1)-mers of the same node
        a0, a1 = show(eb.operand(cs[0][1].args[0])), show(eb.operand(cs[0][1].args[1]))
        ok_args = 'combine_kmers(' in a0 and 'combine_kmers(' in a1 and a0 != a1
        return ok_vals, gated, ok_args, vals
    r = chk.guard(rule, rule + ':identify_good_kmers', entry_exit)
    if r is not None:
        ok_vals, gated, ok_args, vals = r
        if ok_vals and gated and ok_args:
            chk.ok(rule, rule + ':identify_good_kmers', EX + 'identify_good_kmers', 'entry = node, exit = rev_comp(node), both only when the sample sets of two combined out-edges differ')
        else:
            chk.violation(rule, rule + ':identify_good_kmers', where=EX + 'identify_good_kmers',
                          detail='entry/exit recording: values %s ok=%s, gated by compare_samples=%s, compared sets are the two out-edges=%s' % (vals, ok_vals, gated, ok_args))

    def entry_func():
        """functional twin of the two rules above (independent of how the test is written): identify_good_kmers interpreted on
        small successor tables - 1..4 out-edges per node carrying any of 4 sample sets, duplicates of an edge included (the graph
        builder pushes an edge twice after a split k-mer whose arms are reverse complements of each other).  A node is an entry
        iff some two of its out-edges carry different sample sets; the exits are exactly the reverse complements of the entries."""
        from ..absint.interp import MapV, _mkey, Panic
        from ..absint.values import Agg, BV
        kg = 3
        sets = [frozenset(), frozenset([0]), frozenset([1]), frozenset([0, 1, 2])]
        di_f = [x['name'] for x in facts.adt('skalo::utils::DataInfo')['variants'][0]['fields']]
        if sorted(di_f) != ['k_graph', 'sample_names']:
            raise AnchorLost('DataInfo fields are %s' % di_f)
        from ..absint.interp import StrV
        dvals = dict(k_graph=BV(64, kg), sample_names=Agg('array', 0, [StrV(list('s%d' % i)) for i in range(3)]))
        di = Agg('adt:skalo::utils::DataInfo', 0, [dvals[n] for n in di_f])

        cases = []
        nodes = [0b000110, 0b011011, 0b100001]      # three 3-mers
        # one node with every multiset of up to 4 out-edges over (last base b, sample set s): the last base identifies the edge
        for n_out in (1, 2, 3, 4):
            for bases in itertools.product(range(4), repeat=n_out):
                if list(bases) != sorted(bases):
                    continue
                distinct = sorted(set(bases))
                for assign in itertools.product(range(len(sets)), repeat=len(distinct)):
                    cases.append([(nodes[0], [(b, sets[assign[distinct.index(b)]]) for b in bases])])
        # several nodes at once (entries and non-entries mixed, in both insertion orders)
        multi = [(nodes[0], [(0, sets[1]), (1, sets[1])]), (nodes[1], [(2, sets[1]), (2, sets[1]), (3, sets[2])]), (nodes[2], [(1, sets[3])])]
        cases.append(multi)
        cases.append(multi[::-1])
        bad = []
        n = 0
        for case in cases:
            I = Interp(facts, {'IntT': 'u64'})
            allk, k2s = MapV(), MapV()
            expect = set()
            for node, outs in case:
                succ = [BV(64, ((node << 2) | b) & ((1 << (2 * kg)) - 1)) for b, _ in outs]
                allk.d[_mkey(BV(64, node))] = (BV(64, node), Cell(Agg('array', 0, succ), 'mapval'))
                for b, ss in outs:
                    full = BV(64, (node << 2) | b)
                    k2s.d[_mkey(full)] = (full, Cell(bitset(ss), 'mapval'))
                if len(set(ss for _, ss in outs)) > 1:
                    expect.add(node)
            try:
                r = I.call_fn(EX + 'identify_good_kmers', [RefV(Cell(allk, 'all_kmers')), RefV(Cell(k2s, 'k2s')), RefV(Cell(di, 'di'))])
                starts = set(v.val for v in r.fields[0].d.values())
                ends = set(v.val for v in r.fields[1].d.values())
            except Panic as e:
                if e.kind == 'process-exit':
                    starts, ends = set(), set()
                else:
                    raise
            n += 1
            exp_ends = set(I.call_fn('<u64 as ska_dict::bit_encoding::UInt>::rev_comp', [BV(64, x), BV(64, kg)]).val for x in expect)
            if starts != expect:
                bad.append(('entry nodes', [(nd, [(b, sorted(ss)) for b, ss in outs]) for nd, outs in case], sorted(starts), sorted(expect)))
            elif ends != exp_ends:
                bad.append(('exit nodes', [(nd, [(b, sorted(ss)) for b, ss in outs]) for nd, outs in case], sorted(ends), sorted(exp_ends)))
        return n, bad
    r = chk.guard(rule, rule + ':entry-func', entry_func)
    if r is not None:
        n, bad = r
        if bad:
            chk.violation(rule, rule + ':entry-func', where=EX + 'identify_good_kmers', evals=n,
                          detail='%s for the successor table %s: got %s, expected %s (%d of %d tables wrong)' % (bad[0][0], bad[0][1], bad[0][2], bad[0][3], len(bad), n))
        else:
            chk.ok(rule, rule + ':entry-func', EX + 'identify_good_kmers',
                   'entry iff two out-edges carry different sample sets, duplicated edges included; exits = reverse complements of the entries (%d successor tables)' % n, evals=n)

    def seq_codec():
        # functional: rev_compl(s), DnaSequence::encode(s).decode() / .len() / .get_range(a, b) on strings (either case) - independent
        # of whether the functions are written with closures or loops
        from ..absint.interp import StrV
        I = Interp(facts)
        U = 'skalo::utils::'
        bad = []
        comp = {'A': 'T', 'C': 'G', 'G': 'C', 'T': 'A'}
        for sq in ('ACGT', 'GATTACA', 'TTTTGC', 'A'):
            r = I.call_fn(U + 'rev_compl', [RefV(Cell(StrV(list(sq)), 's'))])
            got = ''.join(c if isinstance(c, str) else chr(c.val) for c in r.chars)
            if got != ''.join(comp[c] for c in reversed(sq)):
                bad.append(('rev_compl', sq, got))
        for sq in ('ACGT', 'acgtACGT', 'GATTACAGATTACA', 'T', ''):
            d = Cell(I.call_fn(U + 'DnaSequence::encode', [RefV(Cell(StrV(list(sq)), 's'))]), 'dna')
            dec = I.call_fn(U + 'DnaSequence::decode', [RefV(d)])
            got = ''.join(c if isinstance(c, str) else chr(c.val) for c in dec.chars)
            if got != sq.upper():
                bad.append(('decode', sq, got))
            ln = I.call_fn(U + 'DnaSequence::len', [RefV(d)])
            if ln.val != len(sq):
                bad.append(('len', sq, ln.val))
            for a_ in range(0, len(sq) + 1):
                for b_ in range(a_, len(sq) + 1):
                    g = I.call_fn(U + 'DnaSequence::get_range', [RefV(d), BV(64, a_), BV(64, b_)])
                    got = ''.join(chr(x.val) for x in g.fields)
                    if got != sq.upper()[a_:b_]:
                        bad.append(('get_range', (sq, a_, b_), got))
        return bad
    r = chk.guard(rule, rule + ':sequence-codec', seq_codec)
    if r is not None:
        if r:
            chk.violation(rule, rule + ':sequence-codec', where='skalo::utils', detail='(function, char, got) = %s' % (r[:3],))
        else:
            chk.ok(rule, rule + ':sequence-codec', 'skalo::utils', 'rev_compl, DnaSequence encode/decode/len/get_range on strings in either case (all ranges)', evals=200)


def run(facts, chk, tier, only=None):
    from . import subs
    # the run must not abort / wrap on an unsigned subtraction of path or sequence lengths (necessary for any output at all)
    chk.guard('C18.sub', 'C18.sub:run', lambda: subs.check(facts, chk, 'C18.sub'))
    from . import lo_e2e
    chk.guard('C18.e2e', 'C18.e2e:run', lambda: lo_e2e.check_indels(facts, chk, 'C18.e2e', tier))
    chk.guard('C18.e2e', 'C18.e2e:run-wide', lambda: lo_e2e.check_wide(facts, chk, 'C18.e2e', tier, 'indel'))        # thorough tier only
    from . import cli_more
    chk.guard('C18.cli', 'C18.cli:run0', lambda: cli_more.check_lo_arm(facts, chk, 'C18.cli', tier))
    chk.guard('C18.leaf', 'C18.leaf:run', lambda: check_graph_leaves(facts, chk, 'C18.leaf'))
    p = facts.fn(PI + 'process_indels')

    # ---------------------------------------------------------------- genotype closure
    def gt():
        cls = [c for c in facts.closures_of(PI + 'process_indels') if sum(1 for _, t in c.calls() if (t.callee.name or '').endswith('BitSet::contains')) == 2]
        if len(cls) != 1:
            raise AnchorLost('genotype closure not found (%d candidates)' % len(cls))
        c = cls[0]
        caps = [x['name'] for x in c.captures]
        table = {}
        for in_ref in (0, 1):
            for in_alt in (0, 1):
                I = Interp(facts)
                seq = []

                def contains(I_, a, t, cc, in_ref=in_ref, in_alt=in_alt, seq=seq):
                    # which captured bitset is asked?
                    which = a[0]
                    while isinstance(which, RefV):
                        which = I_.load(which)
                    seq.append(which.tag)
                    return BV(1, in_ref if which.tag == 'ref_bitset' else in_alt)
                I.overrides['bit_set::BitSet::contains'] = contains
                upv = [RefV(Cell(RefV(Cell(Opaque(n.lstrip('*')), n)), 'cap')) if ty.startswith('&&') else RefV(Cell(Opaque(n.lstrip('*')), n))
                       for n, ty in zip(caps, c.upvar_tys)]
                env = Agg('closure:' + c.path, 0, upv)
                envv = RefV(Cell(env, 'env')) if c.local_ty(1).startswith('&') else env
                arg = Agg('tuple', 0, [BV(64, 0), RefV(Cell(Opaque('sample'), 's'))]) if c.local_ty(2).startswith('(') else BV(64, 0)   # (index, name) or the index alone
                r = I.exec_body(c, [envv, arg])
                while isinstance(r, RefV):        # a &'static str instead of a String
                    r = I.load(r)
                table[(in_ref, in_alt)] = (r.tag[1] if isinstance(r, Opaque) and r.tag[0] == 'str' else (''.join(r.chars) if type(r).__name__ == 'StrV' else repr(r)))
        want = {(1, 1): '0/1', (1, 0): '0', (0, 1): '1', (0, 0): '.'}
        return table, want, caps
    r = chk.guard('C18.gt', 'C18.gt:closure', gt)
    if r is not None:
        table, want, caps = r
        if table != want or sorted(c.lstrip('*') for c in caps) != ['alt_bitset', 'ref_bitset']:
            chk.violation('C18.gt', 'C18.gt:closure', where=PI + 'process_indels', evals=4,
                          detail='genotype table (in_ref,in_alt) -> %s, expected %s; captures %s' % (table, want, caps))
        else:
            chk.ok('C18.gt', 'C18.gt:closure', PI + 'process_indels', '(in_ref,in_alt) -> 0/1, 0, 1, . (4 rows); captures ref_bitset / alt_bitset', evals=4)

    def alleles():
        eb = ExprBuilder(p)
        # locals ref_allele, ref_bitset from variants[0]; alt_* from variants[1]
        out = {}
        for nm in ('ref_allele', 'ref_bitset', 'alt_allele', 'alt_bitset'):
            l = p.locals_named(nm)
            if len(l) != 1:
                raise AnchorLost('process_indels: local %s' % nm)
            e = eb.local_expr(l[0])
            idx = [x for x in subexprs(e) if x[0] == 'call' and x[1].endswith('::index')]
            if len(idx) != 1:
                raise AnchorLost('%s is not taken from variants[i]: %s' % (nm, show(e)))
            i = idx[0][2][1]
            fld = e
            while fld[0] in ('ref', 'deref'):
                fld = fld[1]
            out[nm] = (i[1] if i[0] == 'const' else None, fld[2] if fld[0] == 'field' else None)
        # sorting: descending by count (b.1.cmp(&a.1))
        sc = [c for c in facts.closures_of(PI + 'process_indels') if any((t.callee.name or '').endswith('Ord for usize>::cmp') for _, t in c.calls())]
        desc = None
        if len(sc) == 1:
            ebc = ExprBuilder(sc[0])
            t = [t for _, t in sc[0].calls()][0]
            a0, a1 = show(ebc.operand(t.args[0])), show(ebc.operand(t.args[1]))
            desc = ('b' in a0 and 'a' in a1, a0, a1)
        return out, desc
    r = chk.guard_soft('C18.gt', 'C18.gt:alleles', alleles, twins=['C18.e2e:indels'])      # allele / carrier-set pairing is decided end to end on planted indels
    if r is not None:
        out, desc = r
        want = {'ref_allele': (0, 0), 'ref_bitset': (0, 2), 'alt_allele': (1, 0), 'alt_bitset': (1, 2)}
        if out == want:
            chk.ok('C18.gt', 'C18.gt:alleles', PI + 'process_indels', 'REF allele/bitset = variants[0].0/.2, ALT = variants[1].0/.2 (not crossed)')
        else:
            chk.violation('C18.gt', 'C18.gt:alleles', where=PI + 'process_indels', detail='allele/bitset provenance (index, field): %s, expected %s' % (out, want))
        if desc and desc[0]:
            chk.ok('C18.gt', 'C18.gt:sort', PI + 'process_indels', 'variants sorted by descending carrier count: cmp(%s, %s)' % (desc[1], desc[2]))
        else:
            chk.violation('C18.gt', 'C18.gt:sort', where=PI + 'process_indels', detail='REF is not the most frequent variant: sort comparator %s' % (desc,))

    # ---------------------------------------------------------------- gate + classification
    def gate():
        eb = ExprBuilder(p, through_vars=False)
        em = [(bb, t) for bb, t in p.calls() if (t.callee.name or '') == PI + 'extract_middle_bases']
        if len(em) != 1:
            raise AnchorLost('process_indels: extract_middle_bases call')
        # proportion_missing definition block -> region leading to extract_middle_bases
        pm = p.locals_named('proportion_missing')
        if len(pm) != 1:
            raise AnchorLost('local proportion_missing')
        dfs = p.defs_of(pm[0])
        start = dfs[0][0]
        f = reach_formula(p, eb, start, _region_head(p, em[0][0]), back_edges_ok=True)
        bad = []
        for le in (0, 1):
            for rp in (0, 1):
                for ap in (0, 1):
                    def leaf(x, le=le, rp=rp, ap=ap):
                        if x[0] == 'bin' and 'proportion_missing' in show(x):
                            if x[1] == 'Le':
                                return le
                            raise Unevaluable('comparison %s' % x[1])
                        if x[0] == 'var' and x[2] == 'ref_present':
                            return rp
                        if x[0] == 'var' and x[2] == 'alt_present':
                            return ap
                        raise Unevaluable()
                    if bool(eval_formula(f, lambda ex: eval_expr(ex, leaf))) != bool(le and rp and ap):
                        bad.append((le, rp, ap))
        # all write_fmt of a record happen after it
        wf = [bb for bb, t in p.calls() if (t.callee.name or '').endswith('write_fmt') and p.in_cycle(bb)]
        rec_gated = all(p.dominates(em[0][0], w) for w in wf)
        # proportion = missing / n
        pe = ExprBuilder(p).local_expr(pm[0])
        pdef = eb.rvalue(dfs[0][2].rv) if dfs[0][1] != 'term' else ('call',)
        prop_ok = pe[0] == 'bin' and pe[1] == 'Div' and 'missing_samples' in show(pdef) and ('data_info.%d' % facts.field_index('skalo::utils::DataInfo', 'sample_names')) in show(pe) and 'len(' in show(pe)
        return bad, rec_gated, prop_ok, p.blocks[em[0][0]].term.span
    r = chk.guard('C18.gate', 'C18.gate:process_indels', gate)
    if r is not None:
        bad, rec, prop, sp = r
        if bad or not rec or not prop:
            chk.violation('C18.gate', 'C18.gate:process_indels', where=sp, evals=8,
                          detail='record gate differs from proportion_missing <= max_missing && ref_present && alt_present at %s; records gated: %s; proportion = missing/n: %s' % (bad, rec, prop))
        else:
            chk.ok('C18.gate', 'C18.gate:process_indels', sp, 'record written iff proportion_missing <= max_missing && ref_present && alt_present (8 rows)', evals=8)

    def classify():
        # region interpretation of the classification loop body with controlled BitSet::contains
        ct = [(bb, t) for bb, t in p.calls() if (t.callee.name or '').endswith('BitSet::contains')]
        if len(ct) != 2:
            raise AnchorLost('process_indels: %d BitSet::contains calls in the body' % len(ct))
        nx = [bb for bb, t in p.calls() if (t.callee.name or '').endswith('::next') and 'Range' in (t.callee.full or '') and p.dominates(bb, ct[0][0])]
        if len(nx) != 1:
            raise AnchorLost('classification loop head')
        head = nx[0]
        body = next(tg for v, tg in p.blocks[p.blocks[head].term.target].term.targets if v == 1)
        opt_local = p.blocks[head].term.dest.local
        ms, rp, ap = p.locals_named('missing_samples')[0], p.locals_named('ref_present')[0], p.locals_named('alt_present')[0]
        bv = p.locals_named('bitset_vec')[0]
        eb = ExprBuilder(p)
        res = {}
        for in_ref in (0, 1):
            for in_alt in (0, 1):
                I = Interp(facts)
                order = []

                def contains(I_, a, t, cc, in_ref=in_ref, in_alt=in_alt, order=order):
                    which = a[0]
                    while isinstance(which, RefV):
                        which = I_.load(which)
                    order.append(which.tag)
                    return BV(1, in_ref if which.tag == 'bs0' else in_alt)
                I.overrides['bit_set::BitSet::contains'] = contains
                fr = I.new_frame(p)
                fr[opt_local].v = Agg('adt:std::option::Option', 1, [BV(64, 0)])
                fr[ms].v = BV(32, 0, signed=True)
                fr[rp].v = BV(1, 0)
                fr[ap].v = BV(1, 0)
                fr[bv].v = Agg('array', 0, [Opaque('bs0'), Opaque('bs1')])
                I.exec_body(p, [], start=body, stop=[head], frame=fr)
                res[(in_ref, in_alt)] = (fr[ms].v.val, fr[rp].v.val, fr[ap].v.val)
        want = {(0, 0): (1, 0, 0), (1, 1): (1, 0, 0), (1, 0): (0, 1, 0), (0, 1): (0, 0, 1)}
        return res, want
    r = chk.guard('C18.gate', 'C18.gate:classification', classify)
    if r is not None:
        res, want = r
        if res != want:
            chk.violation('C18.gate', 'C18.gate:classification', where=PI + 'process_indels', evals=4,
                          detail='per-sample classification (in_ref,in_alt) -> (missing+, ref_present, alt_present) = %s, expected %s' % (res, want))
        else:
            chk.ok('C18.gate', 'C18.gate:classification', PI + 'process_indels', 'absent and heterozygous -> missing; only REF -> ref_present; only ALT -> alt_present (4 rows)', evals=4)

    # ---------------------------------------------------------------- de-duplication
    def dedup():
        d = facts.fn(PI + 'dereplicate_indels')
        eb = ExprBuilder(d, through_vars=False)
        ebt = ExprBuilder(d)
        ct = [(bb, t) for bb, t in d.calls() if (t.callee.name or '').endswith('HashSet::contains')]
        ins = [(bb, t) for bb, t in d.calls() if (t.callee.name or '').endswith('HashSet::insert')]
        fin = [(bb, t) for bb, t in d.calls() if (t.callee.name or '').endswith('HashMap::insert')]
        if len(ct) != 1 or len(fin) != 1:
            raise AnchorLost('dereplicate_indels: %d contains, %d final insert' % (len(ct), len(fin)))
        sw = d.blocks[ct[0][1].target].term
        if sw.k != 'switch':
            raise AnchorLost('contains not followed by a switch')
        e = eb.operand(sw.discr)
        neg = e[0] == 'un' and e[1] == 'Not'
        absent_edge = sw.otherwise if neg else next(tg for v, tg in sw.targets if v == 0)
        present_edge = next(tg for v, tg in sw.targets if v == 0) if neg else sw.otherwise
        heads = [bb for bb, c in d.calls() if (c.callee.name or '').endswith('::next') and d.in_cycle(bb)]
        ok_dom = fin[0][0] in reachable_without(d, absent_edge, avoid_blocks=heads) and fin[0][0] not in reachable_without(d, present_edge, avoid_blocks=heads)
        # the looked-up key is combined_ext.0 and the four inserts
        key = show(ebt.operand(ct[0][1].args[1]))
        vals = []
        for bb, t in ins:
            if bb in reachable_without(d, absent_edge, avoid_blocks=heads):
                vals.append(show(ebt.operand(t.args[1])))
        n_rc = sum(1 for v in vals if 'rev_comp(' in v)
        ok_ins = len(vals) == 4 and n_rc == 2 and len(set(vals)) == 4
        return ok_dom, ok_ins, key, vals, fin[0][1].span
    r = chk.guard('C18.dedup', 'C18.dedup:dereplicate_indels', dedup)
    if r is not None:
        ok_dom, ok_ins, key, vals, sp = r
        if ok_dom:
            chk.ok('C18.dedup', 'C18.dedup:insert-guard', sp, 'final_indels.insert only when entries_indels does not contain %s' % key[:60])
        else:
            chk.violation('C18.dedup', 'C18.dedup:insert-guard', where=sp, detail='final_indels.insert is not guarded by !entries_indels.contains(entry)')
        if ok_ins:
            chk.ok('C18.dedup', 'C18.dedup:four-keys', sp, 'entry, exit and both reverse complements recorded: %s' % [v[:40] for v in vals])
        else:
            chk.violation('C18.dedup', 'C18.dedup:four-keys', where=sp, detail='keys recorded on the insert path: %s (expected entry, exit and their two reverse complements)' % vals)
