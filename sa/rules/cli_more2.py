"""CLI-level rules, third batch: option hand-over and scale of `ska build` through ska::main()

  check_build_proportion  `ska build --proportion-reads p`: every sample, in the serial and in the parallel build, at both integer widths,
                          is built from every round(1/p)-th record of each of its files (records 0, step, 2 step, ..)
  check_build_parallel    `ska build` of 12 / 32 samples with --threads 1, 2, 4 (so that the merge recursion reaches depth 0, 1 and 2):
                          the saved table is the same specification for every thread count, names in input order
"""
from ..facts import AnchorLost
from ..absint.interp import NONE, some
from ..absint.values import BV
from .cli_e2e import World, S, spec_table, _report, _qualfilter


def _genome(seed, n):
    x = seed
    g = ''
    for _ in range(n):
        x = (x * 1103515245 + 12345) % (1 << 31)
        g += 'ACGT'[(x >> 16) & 3]
    return g


def _build(W, names, k, threads, prop, ss=0):
    return W.run(W.command('Build', seq_files=some(W.strings([nm + '.fa' for nm in names])), file_list=NONE, output=S('all'), k=BV(64, k),
                           proportion_reads=some(float(prop)) if prop else NONE, single_strand=BV(1, ss), min_count=NONE, min_qual=BV(8, 20),
                           qual_filter=_qualfilter(W.facts, 'Strict'), threads=BV(64, threads)))


def check_build_proportion(facts, chk, rule, tier):
    bad = []
    n = 0
    for k, L in ((5, 9), (33, 40)):
        g = _genome(77 + k, 6 * L + 10)
        # three samples of five records each; record j of sample i is a distinct slice, so dropping or keeping a record changes the table
        samples = [('p%d' % i, [g[(i + 2 * j) % 7 + j * L // 2:(i + 2 * j) % 7 + j * L // 2 + L] for j in range(5)]) for i in range(3)]
        for prop, step in ((0.5, 2), (0.34, 3), (1.0, 1)):
            W = World(facts)
            for nm, recs in samples:
                W.seq[nm + '.fa'] = ('fasta', [('r%d' % j, s, None) for j, s in enumerate(recs)])
            n += 1
            st = _build(W, [nm for nm, _ in samples], k, 1, prop)
            want = spec_table([(nm, recs[::step]) for nm, recs in samples], k, 1)
            if st != 0 or 'all.skf' not in W.skf:
                bad.append(((k, prop), 'status %s' % (st,)))
                continue
            names, rows, w = W.table('all.skf')
            if (names, rows) != (want[0], want[1]):
                full = spec_table(samples, k, 1)
                bad.append(((k, prop), '--proportion-reads %s: %d split k-mers saved, %d specified (records 0, %d, %d.. of each file); building from every record gives %d'
                            % (prop, len(rows), len(want[1]), step, 2 * step, len(full[1]))))
    _report(chk, rule, rule + ':build-proportion', 'main: Commands::Build (--proportion-reads)', bad, n,
            'ska build --proportion-reads through main() (k=5 and k=33): every sample is built from every round(1/p)-th record of its files (%d runs)')


def check_build_parallel(facts, chk, rule, tier):
    bad = []
    n = 0
    k = 7
    sizes = (12, 32) if tier != 'thorough' else (9, 12, 21, 32, 41)
    for ns in sizes:
        g = _genome(1000 + ns, 40)
        samples = []
        for i in range(ns):
            s = list(g[(i % 5):(i % 5) + 24])
            s[8 + i % 7] = 'ACGT'[(i // 3) % 4]
            samples.append(('m%02d' % i, [''.join(s), g[30:38]] if i % 4 == 0 else [''.join(s)]))
        want = spec_table(samples, k, 1)
        for threads, prop in ((1, None), (2, None), (4, None), (4, 0.5)):
            W = World(facts)
            for nm, recs in samples:
                W.seq[nm + '.fa'] = ('fasta', [('r%d' % j, s, None) for j, s in enumerate(recs)])
            n += 1
            st = _build(W, [nm for nm, _ in samples], k, threads, prop)
            wt = want if not prop else spec_table([(nm, recs[::2]) for nm, recs in samples], k, 1)
            if st != 0 or 'all.skf' not in W.skf:
                bad.append(((ns, threads, prop), 'status %s' % (st,)))
                continue
            names, rows, w = W.table('all.skf')
            if names != wt[0]:
                bad.append(((ns, threads, prop), 'sample names / order differ: %s..' % names[:6]))
            elif rows != wt[1]:
                dif = [(a, b) for a, b in zip(rows, wt[1]) if a != b][:2]
                bad.append(((ns, threads, prop), '%d samples --threads %d%s: saved table differs from the specification (%d rows vs %d); first differing rows %s'
                            % (ns, threads, ' --proportion-reads %s' % prop if prop else '', len(rows), len(wt[1]), dif)))
    _report(chk, rule, rule + ':build-parallel', 'main: Commands::Build (many samples, --threads)', bad, n,
            'ska build of %s samples through main() with --threads 1 / 2 / 4 (merge recursion depth 0, 1, 2) and with --proportion-reads: the same specified table for every thread count (%%d runs)' % '/'.join(map(str, sizes)))
