"""Small-scope functional verification of the MergeSkaArray table operations by abstract interpretation of their MIR.

The operations (update_counts, filter, delete_samples, weed, new, to_dict, n_sample_kmers) are interpreted on every table
of a bounded family (alphabet x samples x rows) and the resulting struct is compared, field by field, with the plain
sample-by-k-mer table model written down from the property statements (C06, C07, C08, C10, C13).  The interpretation
uses only the MIR of the crate plus name-keyed models of Vec / HashSet / ndarray::Array2 (listed in ASSUMPTIONS of the
calling rule), so the result is insensitive to how the operation is written (loops, iterator chains, helpers).

Used by C06.func, C08.func, C10.func / C10.hist, C13.func, C07.func.
"""
import itertools
from ..facts import AnchorLost
from ..absint.interp import Interp, Panic, Nd2, SetV, MapV, StrV, UNIT, some, NONE
from ..absint.values import BV, Agg, RefV, Cell, Opaque

MSA = 'merge_ska_array::MergeSkaArray'
AMBIG_FREE = set('ACGTU-acgtu')          # documented: A, C, G, T/U or gap are the unambiguous symbols (N is an ambiguity code)
FILTERS = ['NoFilter', 'NoConst', 'NoAmbig', 'NoAmbigOrConst']


# ------------------------------------------------------------------ plain table model (the specification)
class Table:
    """plain model: names (list of str), rows: list of (kmer:int, bases:str); counts are derived, never stored"""

    def __init__(self, names, rows):
        self.names = list(names)
        self.rows = [(k, str(b)) for k, b in rows]

    def copy(self):
        return Table(self.names, self.rows)

    def __eq__(self, o):
        return self.names == o.names and self.rows == o.rows

    def __repr__(self):
        return 'Table(%s; %s)' % (','.join(self.names), ' '.join('%d:%s' % r for r in self.rows))


def is_ambig(c):
    return c not in AMBIG_FREE


def count(bases, faam):
    return sum(1 for c in bases if c != '-' and not (faam and is_ambig(c)))


def spec_update_counts(t, faam):
    """recount; rows with no counted base are dropped"""
    rows = [(k, b) for k, b in t.rows if count(b, faam) > 0]
    return Table(t.names, rows), [count(b, faam) for _, b in rows]


def spec_pred(b, ft, icg):
    if ft == 'NoFilter':
        return True
    if ft == 'NoConst':
        return len({c for c in b if not (icg and c == '-')}) > 1
    if ft == 'NoAmbig':
        return not any(is_ambig(c) for c in b)
    if ft == 'NoAmbigOrConst':
        return len({c for c in b if c in 'ACGTUacgtu' or (c == '-' and not icg)}) > 1
    raise ValueError(ft)


def spec_filter(t, min_count, faam, ft, mask, icg):
    t1, _ = spec_update_counts(t, faam)
    rows = [(k, b) for k, b in t1.rows if count(b, faam) >= min_count and spec_pred(b, ft, icg)]
    removed = len(t1.rows) - len(rows)
    cnts = [count(b, faam) for _, b in rows]
    if mask:
        rows = [(k, ''.join('N' if is_ambig(c) else c for c in b)) for k, b in rows]
    return Table(t.names, rows), cnts, removed


def spec_delete(t, dels):
    keep = [i for i, n in enumerate(t.names) if n not in dels]
    rows = [(k, ''.join(b[i] for i in keep)) for k, b in t.rows]
    rows = [(k, b) for k, b in rows if count(b, False) > 0]
    return Table([t.names[i] for i in keep], rows)


def spec_weed(t, weedset, reverse):
    return Table(t.names, [(k, b) for k, b in t.rows if (k in weedset) == bool(reverse)])


# ------------------------------------------------------------------ abstract values
def _names(facts, adt):
    return [x['name'] for x in facts.adt(adt)['variants'][0]['fields']]


def mk_array(facts, t, counts=None, k=5, rc=1):
    """an abstract MergeSkaArray<u64> holding table t; `counts` are the stored (possibly stale) per-row counts"""
    n = len(t.names)
    if counts is None:
        counts = [count(b, False) for _, b in t.rows]
    vals = dict(k=BV(64, k), rc=BV(1, rc), names=Agg('array', 0, [StrV(list(x)) for x in t.names]),
                split_kmers=Agg('array', 0, [BV(64, kk) for kk, _ in t.rows]),
                variants=Nd2([[BV(8, ord(c)) for c in b] for _, b in t.rows], n),
                variant_count=Agg('array', 0, [BV(64, c) for c in counts]),
                ska_version=StrV(list('0')), k_bits=BV(32, 64))
    fields = _names(facts, MSA)
    if sorted(fields) != sorted(vals):
        raise AnchorLost('MergeSkaArray fields are %s' % fields)
    return Cell(Agg('adt:' + MSA, 0, [vals[f] for f in fields]), 'array')


def read_array(facts, cell):
    fields = _names(facts, MSA)
    v = dict(zip(fields, cell.v.fields))
    names = [''.join(s.chars) for s in v['names'].fields]
    kmers = [x.val for x in v['split_kmers'].fields]
    nd = v['variants']
    rows = [''.join(chr(c.val) for c in r) for r in nd.rows]
    counts = [x.val for x in v['variant_count'].fields]
    return names, kmers, rows, counts, nd.ncols


def filter_type(facts, nm):
    ft = facts.adt('cli::FilterType')
    vn = [v['name'] for v in ft['variants']]
    if sorted(vn) != sorted(FILTERS):
        raise AnchorLost('FilterType variants are %s' % vn)
    return RefV(Cell(Agg('adt:cli::FilterType', vn.index(nm), []), 'ft'))


def mk_refska(facts, kmers):
    fields = _names(facts, 'ska_ref::RefSka')
    rk = _names(facts, 'ska_ref::RefKmer')
    def refk(x):
        d = dict(kmer=BV(64, x), base=BV(8, 0), pos=BV(64, 0), chrom=BV(64, 0), rc=BV(1, 0))
        return Agg('adt:ska_ref::RefKmer', 0, [d.get(f, Opaque(f)) for f in rk])
    vals = dict(k=BV(64, 5), split_kmer_pos=Agg('array', 0, [refk(x) for x in kmers]))
    return Cell(Agg('adt:ska_ref::RefSka', 0, [vals.get(f, Opaque(f)) for f in fields]), 'weed_ref')


# ------------------------------------------------------------------ table families
def tables(alphabet, n, order='lex'):
    """one table holding every row over alphabet^n (k-mer ids 1..), i.e. all row contents at once"""
    rows = [''.join(p) for p in itertools.product(alphabet, repeat=n)]
    return Table(['s%d' % i for i in range(n)], [(i + 1, b) for i, b in enumerate(rows)])


def run_op(facts, fn, args):
    I = Interp(facts, {'IntT': 'u64'})
    return I, I.call_fn(fn, args)


# ------------------------------------------------------------------ checks
def check_filter(facts, chk, rule, tier, stale_counts=True):
    """filter(min_count, faam, ft, mask, icg, update_kmers) == spec on the all-rows table, every flag combination"""
    alpha = 'ACT-NRS' if tier == 'thorough' else 'AC-NR'
    ns = (1, 2, 3) if tier == 'thorough' else (1, 2)
    key = '%s:filter' % rule
    nrun = 0
    nrows = 0
    bad = []
    # the families: every flag combination over a small alphabet, then every PAIR of symbols of the whole alphabet the table can hold
    # (all IUPAC codes, U, gap) with the flags that reach the site predicates - a predicate that conflates two particular symbols
    # (a hashed / bit-masked symbol set) only shows on that pair
    FULL = 'ACGT-NRYSWKMBDHV'          # every symbol a stored table can hold (U is never stored: bases are 2-bit encoded and decoded to ACGT)
    fams = [(alpha, n, list(itertools.product((0, 1), repeat=4)), None) for n in ns]
    fams.append((FULL, 2, [(f, m, g, 1) for f in (0, 1) for m in (0, 1) for g in (0, 1)] if tier == 'thorough' else [(0, 0, 0, 1), (1, 0, 1, 1), (0, 1, 0, 1), (0, 0, 1, 1)], (0, 2)))
    for alpha_, n, flagsets, mcs in fams:
        t = tables(alpha_, n)
        stale = [((i * 7) % (n + 2)) for i in range(len(t.rows))] if stale_counts else None   # stored counts are arbitrary history
        for ft in FILTERS:
            for faam, mask, icg, upd in flagsets:
                for mc in (mcs if mcs is not None else range(0, n + 2)):
                    arr = mk_array(facts, t, stale)
                    I = Interp(facts, {'IntT': 'u64'})
                    r = I.call_fn(MSA + '::filter', [RefV(arr), BV(64, mc), BV(1, faam), filter_type(facts, ft), BV(1, mask), BV(1, icg), BV(1, upd)])
                    names, kmers, rows, counts, ncols = read_array(facts, arr)
                    want, wc, wrem = spec_filter(t, mc, faam, ft, mask, icg)
                    nrun += 1
                    nrows += len(t.rows)
                    cfg = dict(samples=n, filter=ft, min_count=mc, filter_ambig_as_missing=faam, ambig_mask=mask, no_gap_only=icg, update_kmers=upd)
                    if rows != [b for _, b in want.rows]:
                        got = set(rows)
                        ws = set(b for _, b in want.rows)
                        ex = sorted(got ^ ws)[:3] or ['(order)']
                        bad.append((cfg, 'kept rows differ from the table model; e.g. %s' % ex))
                    elif counts != wc:
                        bad.append((cfg, 'stored counts %s.. differ from recount %s..' % (counts[:4], wc[:4])))
                    elif upd and kmers != [k for k, _ in want.rows]:
                        bad.append((cfg, 'k-mer list out of step with rows'))
                    elif names != t.names or ncols != n:
                        bad.append((cfg, 'names/columns changed'))
                    elif r.val != wrem:
                        bad.append((cfg, 'returned %s removed rows, model %s' % (r.val, wrem)))
    if bad:
        chk.violation(rule, key, where=MSA + '::filter', evals=nrows,
                      detail='%d of %d configurations differ; first: %s: %s' % (len(bad), nrun, bad[0][0], bad[0][1]))
    else:
        chk.ok(rule, key, MSA + '::filter',
               'filter == plain-table model for every row over %s^n, n in %s, 4 filters x 16 flag combinations x thresholds 0..n+1, and for every pair of symbols of %s under the flags that reach the site predicates; arbitrary stored counts (%d runs, %d row decisions)'
               % (alpha, list(ns), FULL, nrun, nrows), evals=nrows)


def check_update_counts(facts, chk, rule, tier):
    alpha = 'ACT-NRS' if tier == 'thorough' else 'AC-NR'
    key = '%s:update_counts' % rule
    bad = []
    nrows = 0
    for n in (1, 2, 3):
        t = tables(alpha, n)
        for faam in (0, 1):
            arr = mk_array(facts, t, [9] * len(t.rows))
            run_op(facts, MSA + '::update_counts', [RefV(arr), BV(1, faam)])
            names, kmers, rows, counts, ncols = read_array(facts, arr)
            want, wc = spec_update_counts(t, faam)
            nrows += len(t.rows)
            if (names, kmers, rows, counts, ncols) != (t.names, [k for k, _ in want.rows], [b for _, b in want.rows], wc, n):
                bad.append((n, faam))
    if bad:
        chk.violation(rule, key, where=MSA + '::update_counts', evals=nrows, detail='update_counts differs from the recount model at (samples, filter_ambig_as_missing) = %s' % bad[:4])
    else:
        chk.ok(rule, key, MSA + '::update_counts', 'update_counts == recount model (drops exactly the rows with no counted base; k-mers, rows, counts aligned) on %d rows' % nrows, evals=nrows)


def check_delete(facts, chk, rule, tier):
    """delete_samples == spec for all non-empty proper subsets (in every argument order for small sets); refusals panic before any write"""
    alpha = 'AC-R' if tier == 'quick' else 'ACT-NR'
    key = '%s:delete_samples' % rule
    bad = []
    nrun = 0
    nmax = 4 if tier == 'quick' else 5
    for n in range(2, nmax + 1):
        # rows: all over alphabet^n is too many for n>=4; use a covering family: every row with <= 2 non-gap symbols + all-gap + full rows
        if len(alpha) ** n <= 1300:
            t = tables(alpha, n)
        else:
            rows = []
            for p in itertools.product(alpha, repeat=n):
                if sum(1 for c in p if c != '-') <= 2 or '-' not in p[:2]:
                    rows.append(''.join(p))
            rows = rows[:1500]
            t = Table(['s%d' % i for i in range(n)], [(i + 1, b) for i, b in enumerate(rows)])
        t = Table(t.names, [r for r in t.rows if count(r[1], False) > 0])
        for m in range(1, n):
            for sub in itertools.combinations(range(n), m):
                orders = itertools.permutations(sub) if m <= 2 else [sub, tuple(reversed(sub))]
                for o in orders:
                    dels = [t.names[i] for i in o]
                    arr = mk_array(facts, t, [3] * len(t.rows))
                    sl = Agg('array', 0, [RefV(Cell(StrV(list(x)), 'nm')) for x in dels])
                    try:
                        run_op(facts, MSA + '::delete_samples', [RefV(arr), RefV(Cell(sl, 'del'), (), (0, len(dels)))])
                    except Panic as e:
                        bad.append((n, dels, 'panicked: %s' % e.kind))
                        continue
                    nrun += 1
                    names, kmers, rows, counts, ncols = read_array(facts, arr)
                    want = spec_delete(t, dels)
                    if (names, kmers, rows, ncols) != (want.names, [k for k, _ in want.rows], [b for _, b in want.rows], n - m):
                        bad.append((n, dels, 'result differs from the table built from the remaining samples'))
                    elif counts != [count(b, False) for _, b in want.rows]:
                        bad.append((n, dels, 'stored counts are not the recount of the remaining columns'))
        # refusals: unknown name, all names, no names, duplicate of a valid name (second occurrence is not in the file any more)
        for dels, why in (([t.names[0], 'zz'], 'unknown name'), (list(t.names), 'all samples'), ([], 'no names')):
            arr = mk_array(facts, t)
            before = read_array(facts, arr)
            sl = Agg('array', 0, [RefV(Cell(StrV(list(x)), 'nm')) for x in dels])
            try:
                run_op(facts, MSA + '::delete_samples', [RefV(arr), RefV(Cell(sl, 'del'), (), (0, len(dels)))])
                bad.append((n, dels, 'accepted (%s must be refused)' % why))
            except Panic:
                nrun += 1
    if bad:
        chk.violation(rule, key, where=MSA + '::delete_samples', evals=nrun, detail='%d cases differ; first: samples=%s delete=%s: %s' % ((len(bad),) + bad[0]))
    else:
        chk.ok(rule, key, MSA + '::delete_samples',
               'delete_samples == table of the remaining samples for every non-empty proper subset of 2..%d samples in several argument orders; unknown/all/no names panic (%d runs)' % (nmax, nrun), evals=nrun)


def check_weed(facts, chk, rule, tier):
    key = '%s:weed' % rule
    bad = []
    nrun = 0
    rows = ['AC', 'A-', '-C', 'RN', 'NN', 'CC']
    t = Table(['s0', 's1'], [(10 + i, b) for i, b in enumerate(rows)])
    ids = [k for k, _ in t.rows]
    extra = [99, 5]
    lim = len(ids) if tier == 'thorough' else 4
    for m in range(0, lim + 1):
        for sub in itertools.combinations(ids[:lim], m):
            for ex in ((), (99,), (99, 5)):
                for dup in (0, 1):
                    ws = list(sub) + list(ex) + (list(sub[:1]) if dup else [])
                    for rev in (0, 1):
                        stale = [7 - i for i in range(len(rows))]
                        arr = mk_array(facts, t, stale)
                        ref = mk_refska(facts, ws)
                        run_op(facts, MSA + '::weed', [RefV(arr), RefV(ref), BV(1, rev)])
                        nrun += 1
                        names, kmers, rws, counts, ncols = read_array(facts, arr)
                        want = spec_weed(t, set(ws), rev)
                        wcount = [stale[ids.index(k)] for k, _ in want.rows]
                        if (names, kmers, rws, ncols) != (t.names, [k for k, _ in want.rows], [b for _, b in want.rows], 2):
                            bad.append((ws, rev, 'surviving rows differ from the model'))
                        elif counts != wcount:
                            bad.append((ws, rev, 'counts out of step with rows'))
    if bad:
        chk.violation(rule, key, where=MSA + '::weed', evals=nrun, detail='%d cases differ; first: weed set=%s reverse=%s: %s' % ((len(bad),) + bad[0]))
    else:
        chk.ok(rule, key, MSA + '::weed', 'weed == model (rows kept iff (k-mer in weed set) == reverse; bases, names kept; counts aligned) for all weed subsets incl. absent and duplicate k-mers (%d runs)' % nrun, evals=nrun)
    return nrun


OPS = ['del0', 'del1', 'weed', 'rweed', 'filt_freq', 'filt_const', 'filt_ambig', 'filt_faam', 'filt_mask']


def apply_model(t, op):
    """documented effect of one operation on the plain table (None = refused)"""
    if op.startswith('del'):
        i = int(op[3:])
        if len(t.names) < 2 or i >= len(t.names):
            return None
        return spec_delete(t, [t.names[i]])
    if op == 'weed':
        return spec_weed(t, {1, 3, 5}, 0)
    if op == 'rweed':
        return spec_weed(t, {1, 2, 3, 4, 5, 6}, 1)
    n = len(t.names)
    if op == 'filt_freq':
        return spec_filter(t, n, 0, 'NoFilter', 0, 0)[0]
    if op == 'filt_const':
        return spec_filter(t, 0, 0, 'NoConst', 0, 0)[0]
    if op == 'filt_ambig':
        return spec_filter(t, 0, 0, 'NoAmbig', 0, 0)[0]
    if op == 'filt_faam':
        return spec_filter(t, n, 1, 'NoFilter', 0, 0)[0]
    if op == 'filt_mask':
        return spec_filter(t, 0, 0, 'NoFilter', 1, 0)[0]
    raise ValueError(op)


def apply_code(facts, arr, op):
    names, _, _, _, _ = read_array(facts, arr)
    n = len(names)
    if op.startswith('del'):
        i = int(op[3:])
        if n < 2 or i >= n:
            return False
        x = names[i]
        sl = Agg('array', 0, [RefV(Cell(StrV(list(x)), 'nm'))])
        run_op(facts, MSA + '::delete_samples', [RefV(arr), RefV(Cell(sl, 'del'), (), (0, 1))])
        return True
    if op == 'weed':
        run_op(facts, MSA + '::weed', [RefV(arr), RefV(mk_refska(facts, [1, 3, 5])), BV(1, 0)])
        return True
    if op == 'rweed':
        run_op(facts, MSA + '::weed', [RefV(arr), RefV(mk_refska(facts, [1, 2, 3, 4, 5, 6])), BV(1, 1)])
        return True
    cfg = dict(filt_freq=(n, 0, 'NoFilter', 0, 0), filt_const=(0, 0, 'NoConst', 0, 0), filt_ambig=(0, 0, 'NoAmbig', 0, 0),
               filt_faam=(n, 1, 'NoFilter', 0, 0), filt_mask=(0, 0, 'NoFilter', 1, 0))[op]
    mc, faam, ft, mask, icg = cfg
    run_op(facts, MSA + '::filter', [RefV(arr), BV(64, mc), BV(1, faam), filter_type(facts, ft), BV(1, mask), BV(1, icg), BV(1, 1)])
    return True


def check_histories(facts, chk, rule, tier):
    """every operation sequence up to the bound, applied to the abstract array, equals the same sequence on the plain table"""
    key = '%s:histories' % rule
    L = 3 if tier == 'quick' else 4
    t0 = Table(['a', 'b', 'c'], [(1, 'AAA'), (2, 'AC-'), (3, 'R-A'), (4, '--C'), (5, 'N-R'), (6, 'ACR'), (7, 'S--'), (8, 'A-A')])
    bad = []
    nseq = 0
    # depth-first over sequences, sharing prefixes
    import copy

    def rec(arr, model, seq):
        nonlocal nseq
        if len(seq) == L or bad:
            return
        for op in OPS:
            m2 = apply_model(model, op)
            if m2 is None:
                continue
            a2 = Cell(copy.deepcopy(arr.v), 'array')
            try:
                apply_code(facts, a2, op)
            except Panic as e:
                bad.append((seq + [op], 'panicked: %s' % e.kind))
                return
            nseq += 1
            names, kmers, rows, counts, ncols = read_array(facts, a2)
            if (names, kmers, rows) != (m2.names, [k for k, _ in m2.rows], [b for _, b in m2.rows]) or ncols != len(m2.names):
                bad.append((seq + [op], 'table %s / %s / %s differs from model %r' % (names, kmers, rows, m2)))
                return
            rec(a2, m2, seq + [op])
    rec(mk_array(facts, t0), t0, [])
    if bad:
        chk.violation(rule, key, where=MSA, evals=nseq, detail='history %s: %s' % (' ; '.join(bad[0][0]), bad[0][1][:200]))
    else:
        chk.ok(rule, key, MSA, 'all %d operation sequences of length <= %d over %s agree with the plain-table model after every step' % (nseq, L, OPS), evals=nseq)


# ------------------------------------------------------------------ merge pipeline (C07): to_dict -> extend -> new
MSD = 'merge_ska_dict::MergeSkaDict'


def spec_merge(tabs):
    names = [n for t in tabs for n in t.names]
    keys = []
    for t in tabs:
        for k, _ in t.rows:
            if k not in keys:
                keys.append(k)
    rows = []
    for k in keys:
        b = ''
        for t in tabs:
            d = dict(t.rows)
            b += d.get(k, '-' * len(t.names))
        rows.append((k, b))
    return Table(names, rows)


def code_merge(facts, arrs):
    """generic_modes::merge's pipeline on abstract arrays: first.to_dict(); for each next: extend(&mut next.to_dict()); MergeSkaArray::new"""
    I = Interp(facts, {'IntT': 'u64'})
    d0 = Cell(I.call_fn(MSA + '::to_dict', [RefV(arrs[0])]), 'dict0')
    for a in arrs[1:]:
        d = Cell(I.call_fn(MSA + '::to_dict', [RefV(a)]), 'dict')
        I.call_fn(MSD + '::extend', [RefV(d0), RefV(d)])
    return Cell(I.call_fn(MSA + '::new', [RefV(d0)]), 'merged')


def check_merge_pipeline(facts, chk, rule, tier):
    key = '%s:pipeline' % rule
    bad = []
    nrun = 0
    # sample tables over a pool of 4 k-mers; every way to give each file a subset of the pool (non-empty), 1..2 samples per file
    pool = [(1, 'AC'), (2, 'R-'), (3, '-T'), (4, 'NG')]
    subsets = [s for m in range(1, 4) for s in itertools.combinations(range(4), m)]
    if tier != 'thorough':
        subsets = subsets[::2]

    def tab(tag, ns, sub):
        return Table(['%s%d' % (tag, i) for i in range(ns)], [(pool[j][0], (pool[j][1] * 2)[:ns] if ns <= 2 else pool[j][1] + 'A') for j in sub
                                                                 if count((pool[j][1] * 2)[:ns], False) > 0])
    shapes = [(1, 1), (1, 2), (2, 1), (2, 2)]
    for (n1, n2) in shapes:
        for s1 in subsets:
            for s2 in subsets:
                t1, t2 = tab('x', n1, s1), tab('y', n2, s2)
                if not t1.rows or not t2.rows:
                    continue
                nrun += 1
                try:
                    m = code_merge(facts, [mk_array(facts, t1), mk_array(facts, t2)])
                except Panic as e:
                    bad.append(((t1, t2), 'merging two compatible tables %r + %r panics (%s)' % (t1, t2, e.kind)))
                    continue
                names, kmers, rows, counts, ncols = read_array(facts, m)
                want = spec_merge([t1, t2])
                got = sorted(zip(kmers, rows))
                if names != want.names or got != sorted(want.rows) or ncols != n1 + n2:
                    bad.append(((t1, t2), 'merged table %s %s differs from joint table %r' % (names, got, want)))
                elif counts != [count(b, False) for b in rows]:
                    bad.append(((t1, t2), 'stored counts %s are not the number of present samples' % counts))
    # nesting / order: ((a+b)+c), (a+(b+c)), three-way
    ta, tb, tc = tab('a', 1, (0, 1)), tab('b', 2, (1, 2)), tab('c', 1, (2, 3))
    want = spec_merge([ta, tb, tc])
    for how in ('flat', 'left', 'right'):
        A, B, C = (mk_array(facts, t) for t in (ta, tb, tc))
        nrun += 1
        try:
            if how == 'flat':
                m = code_merge(facts, [A, B, C])
            elif how == 'left':
                m = code_merge(facts, [code_merge(facts, [A, B]), C])
            else:
                m = code_merge(facts, [A, code_merge(facts, [B, C])])
        except Panic as e:
            bad.append(((how,), 'nested merge (%s) of compatible tables panics (%s)' % (how, e.kind)))
            continue
        names, kmers, rows, counts, ncols = read_array(facts, m)
        if names != want.names or sorted(zip(kmers, rows)) != sorted(want.rows):
            bad.append(((how,), 'nested merge (%s) %s %s differs from joint table %r' % (how, names, sorted(zip(kmers, rows)), want)))
    if bad:
        chk.violation(rule, key, where='to_dict / extend / MergeSkaArray::new', evals=nrun, detail='%d cases differ; first: %s' % (len(bad), bad[0][1][:300]))
    else:
        chk.ok(rule, key, 'to_dict / extend / MergeSkaArray::new',
               "array -> to_dict -> extend -> new equals the joint table (names in argument order, absent k-mers '-', counts recounted) for all k-mer subset pairs x sample shapes, and flat/left/right nesting (%d runs)" % nrun, evals=nrun)


def check_write_fasta(facts, chk, rule):
    """write_fasta emits record i = (names[i], column i of variants), in sample order, for all small shapes"""
    key = '%s:write_fasta' % rule
    bad = []
    nrun = 0
    syms = 'ACGT-NRY'
    for n in (1, 2, 3, 4):
        for nrows in (0, 1, 2, 5):
            rows = [(r + 1, ''.join(syms[(r * 3 + c * 5 + r * c) % len(syms)] for c in range(n))) for r in range(nrows)]
            t = Table(['n%d' % i for i in range(n)], rows)
            arr = mk_array(facts, t)
            I = Interp(facts, {'IntT': 'u64'})
            I.call_fn(MSA + '::write_fasta', [RefV(arr), RefV(Cell(Opaque('writer'), 'w'))])
            nrun += 1
            out = [(''.join(chr(x.val) for x in nm), ''.join(chr(x.val) for x in sq)) for nm, sq in getattr(I, 'fasta_out', [])]
            want = [(t.names[i], ''.join(b[i] for _, b in rows)) for i in range(n)]
            if out != want:
                bad.append(((n, nrows), 'records %s, specified %s' % (out[:3], want[:3])))
    if bad:
        chk.violation(rule, key, where=MSA + '::write_fasta', evals=nrun, detail='(samples, rows)=%s: %s' % bad[0])
    else:
        chk.ok(rule, key, MSA + '::write_fasta', 'record i = (names[i], column i of the base matrix) in sample order for 1..4 samples x 0..5 rows (%d runs)' % nrun, evals=nrun)


def check_apply_filters(facts, chk, rule, tier):
    """generic_modes::apply_filters (the hand-over from the CLI values to filter): threshold = ceil(n * min_freq), every flag
    reaches filter unchanged - decided functionally on tables incl. rows whose only bases are ambiguity codes"""
    import math
    key = '%s:apply_filters' % rule
    alpha = 'AC-NR'
    bad = []
    nrun = 0
    for n in ((2, 3) if tier != 'thorough' else (1, 2, 3)):
        t = tables(alpha if n < 3 else 'AC-R', n)
        for mf in sorted({0.0, 0.2, 1.0 / n, 0.5, 0.9, 1.0}):
            for ft in FILTERS:
                for faam, mask, icg in itertools.product((0, 1), repeat=3):
                    if tier != 'thorough' and (mask and icg):
                        continue
                    arr = mk_array(facts, t, [2] * len(t.rows))
                    I = Interp(facts, {'IntT': 'u64'})
                    r = I.call_fn('generic_modes::apply_filters', [RefV(arr), float(mf), BV(1, faam), filter_type(facts, ft), BV(1, mask), BV(1, icg)])
                    nrun += 1
                    names, kmers, rows, counts, ncols = read_array(facts, arr)
                    want, wc, wrem = spec_filter(t, math.ceil(n * mf), faam, ft, mask, icg)
                    if rows != [b for _, b in want.rows] or r.val != wrem or names != t.names:
                        got = set(rows)
                        ws = set(b for _, b in want.rows)
                        bad.append((dict(samples=n, min_freq=mf, filter=ft, filter_ambig_as_missing=faam, ambig_mask=mask, no_gap_only=icg), sorted(got ^ ws)[:4]))
    if bad:
        chk.violation(rule, key, where='generic_modes::apply_filters', evals=nrun, detail='%d of %d configurations differ; first: %s: rows in one result only %s' % (len(bad), nrun, bad[0][0], bad[0][1]))
    else:
        chk.ok(rule, key, 'generic_modes::apply_filters', 'apply_filters == table model with threshold ceil(n x min_freq) and every flag handed over unchanged (%d configurations)' % nrun, evals=nrun)


# ------------------------------------------------------------------ ska weed's filter step (no weed file): generic_modes::weed on tables
def check_weed_filter(facts, chk, rule, tier):
    """generic_modes::weed without a weed file is `ska weed`'s frequency / site filter.  Documented effect on the plain table:
    threshold = floor(n x min_freq); when nothing is requested (threshold 0, no site filter, no mask, gaps not ignored) the file
    is saved unchanged; otherwise MergeSkaArray::filter's documented effect with that threshold (rows recounted in the requested
    mode and kept iff count >= threshold and the site predicate holds, masked afterwards).  Interpreted on every row over a small
    alphabet for 2-3 samples x min_freq values hitting every threshold 0..n x all flags, with the save captured."""
    import copy
    import math
    key = rule + ':weed-filter'
    bad = []
    nrun = 0
    alpha = 'AC-NR'
    for n in ((2, 3) if tier != 'thorough' else (1, 2, 3)):
        t = tables(alpha, n)
        t = Table(t.names, [(k, b) for k, b in t.rows if count(b, False) > 0])          # a stored table has no all-missing rows
        freqs = sorted({0.0, 1.0} | {(j / n) + d for j in range(1, n + 1) for d in (0.0, 0.01) if (j / n) + d <= 1.0} | {max(0.0, 1.0 / n - 0.01)})
        for mf in freqs:
            thr = int(math.floor(n * mf))
            for ft in FILTERS:
                for faam, mask, icg in itertools.product((0, 1), repeat=3):
                    if tier != 'thorough' and ((ft in ('NoAmbig', 'NoAmbigOrConst') and mask and icg) or (n == 3 and (ft in ('NoAmbig', 'NoAmbigOrConst') or (mask and icg)))):
                        continue
                    arr = mk_array(facts, t)
                    I = Interp(facts, {'IntT': 'u64'})
                    saved = []
                    I.overrides[MSA + '::save'] = lambda I_, a, t_, c: (saved.append(copy.deepcopy(I_.load(a[0]))), Agg('adt:std::result::Result', 0, [Agg('tuple', 0, [])]))[1]
                    nrun += 1
                    cfg = dict(samples=n, min_freq=round(mf, 3), threshold=thr, filter=ft, filter_ambig_as_missing=faam, ambig_mask=mask, no_gap_only=icg)
                    try:
                        I.call_fn('generic_modes::weed', [RefV(arr), RefV(Cell(NONE, 'wf')), BV(1, 0), float(mf), BV(1, faam), filter_type(facts, ft), BV(1, mask), BV(1, icg),
                                                          RefV(Cell(StrV(list('out')), 'o'))])
                    except Panic as e:
                        bad.append((cfg, 'panics: %s' % e.kind))
                        continue
                    if len(saved) != 1:
                        bad.append((cfg, '%d files saved' % len(saved)))
                        continue
                    names, kmers, rows, counts, ncols = read_array(facts, Cell(saved[0], 'saved'))
                    if thr > 0 or ft != 'NoFilter' or mask or icg:
                        want, _, _ = spec_filter(t, thr, faam, ft, mask, icg)
                    else:
                        want = t
                    if names != t.names or list(zip(kmers, rows)) != list(want.rows):
                        got = set(zip(kmers, rows))
                        ws = set(want.rows)
                        bad.append((cfg, 'saved rows differ from the documented effect: only saved %s, only specified %s' % (sorted(got - ws)[:3], sorted(ws - got)[:3])))
    if bad:
        chk.violation(rule, key, where='generic_modes::weed (filter step)', evals=nrun, detail='%d of %d configurations differ; first: %s: %s' % (len(bad), nrun, bad[0][0], bad[0][1]))
    else:
        chk.ok(rule, key, 'generic_modes::weed (filter step)',
               'the saved table == documented effect (threshold floor(n x min_freq); untouched when nothing is requested) for every row over %s^n, n = 2..3, min_freq at and around every threshold, 4 filters x 8 flag combinations (%d runs)' % (alpha, nrun), evals=nrun)



def check_wide(facts, chk, rule, tier):
    """tables with 300 samples: per-row counts above 255, columns beyond index 255.  update_counts, filter at thresholds 255 / 256 / 257 and
    delete_samples (first, last and two middle samples) against the plain-table model - a count or an index kept in a narrow integer
    (u8) only shows here"""
    key = rule + ':wide-table'
    n = 300
    names = ['w%03d' % i for i in range(n)]
    rows = [(1, 'A' * n), (2, 'A' * 256 + '-' * 44), (3, '-' * 299 + 'C'), (4, 'C' * 255 + '-' * 45), (5, ('A-' * 150)), (6, '-' * 44 + 'G' * 256), (7, 'AC' * 128 + 'G' * 44)]
    t = Table(names, rows)
    bad = []
    nrun = 0
    # update_counts
    arr = mk_array(facts, t, [1] * len(rows))
    try:
        run_op(facts, MSA + '::update_counts', [RefV(arr), BV(1, 0)])
        nrun += 1
        nm, kmers, rws, counts, ncols = read_array(facts, arr)
        want, wc = spec_update_counts(t, 0)
        if rws != [b for _, b in want.rows] or counts != wc:
            bad.append(('update_counts', 'counts %s, recount %s' % (counts, wc)))
    except Panic as e:
        bad.append(('update_counts', 'panics on a 300-sample table: %s' % e.kind))
    # filter at the thresholds around 256
    for mc in (255, 256, 257, 300):
        arr = mk_array(facts, t, [2] * len(rows))
        try:
            I = Interp(facts, {'IntT': 'u64'})
            I.max_steps = 50_000_000
            I.call_fn(MSA + '::filter', [RefV(arr), BV(64, mc), BV(1, 0), filter_type(facts, 'NoFilter'), BV(1, 0), BV(1, 0), BV(1, 1)])
            nrun += 1
            nm, kmers, rws, counts, ncols = read_array(facts, arr)
            want, wc, _ = spec_filter(t, mc, 0, 'NoFilter', 0, 0)
            if list(zip(kmers, rws)) != list(want.rows):
                bad.append(('filter min_count=%d' % mc, 'kept k-mers %s, specified %s' % (kmers, [k for k, _ in want.rows])))
        except Panic as e:
            bad.append(('filter min_count=%d' % mc, 'panics: %s' % e.kind))
    # delete_samples
    for dels in (['w000'], ['w299'], ['w255', 'w256'], ['w100', 'w257', 'w001', 'w298']):
        arr = mk_array(facts, t, [3] * len(rows))
        sl = Agg('array', 0, [RefV(Cell(StrV(list(x)), 'nm')) for x in dels])
        try:
            I = Interp(facts, {'IntT': 'u64'})
            I.max_steps = 50_000_000
            I.call_fn(MSA + '::delete_samples', [RefV(arr), RefV(Cell(sl, 'del'), (), (0, len(dels)))])
            nrun += 1
            nm, kmers, rws, counts, ncols = read_array(facts, arr)
            want = spec_delete(t, dels)
            if (nm, kmers, rws) != (want.names, [k for k, _ in want.rows], [b for _, b in want.rows]):
                bad.append(('delete %s' % dels, 'result differs from the table of the remaining %d samples (k-mers %s, specified %s)' % (n - len(dels), kmers, [k for k, _ in want.rows])))
            elif counts != [count(b, False) for _, b in want.rows]:
                bad.append(('delete %s' % dels, 'stored counts %s are not the recount %s' % (counts, [count(b, False) for _, b in want.rows])))
        except Panic as e:
            bad.append(('delete %s' % dels, 'panics: %s' % e.kind))
    if bad:
        chk.violation(rule, key, where=MSA, evals=nrun, detail='%d problems on a 300-sample table; first: %s: %s' % (len(bad), bad[0][0], bad[0][1][:300]))
    else:
        chk.ok(rule, key, MSA, 'update_counts, filter at thresholds 255 / 256 / 257 / 300 and delete_samples on a 300-sample table (rows present in 1, 150, 255, 256 and 300 samples) == plain-table model (%d runs)' % nrun, evals=nrun)
