"""More end-to-end small-scope checks over virtual .skf files: `ska merge` (C07.e2e) and `ska delete` (C08.e2e).

.skf files are a virtual table  path -> abstract MergeSkaArray  (the arrays `ska build` produces from virtual FASTA files);
MergeSkaArray::load looks a path up in it - Err for a missing path or for an array of the other integer width, as the
real loader does (C09.width decides that check itself) - and MergeSkaArray::save records what would be written.
"""
import copy
import itertools
from ..facts import AnchorLost
from ..absint.interp import Interp, Panic, NONE, some, StrV
from ..absint.values import BV, Agg, RefV, Cell, Opaque
from . import e2e, tableops

MSA = 'merge_ska_array::MergeSkaArray'


def _install_skf(I, facts, skf, saved):
    def load(I_, a, t, c):
        path = ''.join(ch if isinstance(ch, str) else chr(ch.val) for ch in _deref(I_, a[0]).chars)
        width = 'u128' if 'u128' in (c.full or '') else ('u64' if 'u64' in (c.full or '') else I_.subst.get('IntT', 'u64'))
        if path not in skf or skf[path][1] != width:
            return Agg('adt:std::result::Result', 1, [Opaque(('load-error', path))])
        return Agg('adt:std::result::Result', 0, [copy.deepcopy(skf[path][0])])

    def save(I_, a, t, c):
        path = ''.join(ch if isinstance(ch, str) else chr(ch.val) for ch in _deref(I_, a[1]).chars)
        saved.append((path, copy.deepcopy(_deref(I_, a[0]))))
        return Agg('adt:std::result::Result', 0, [Agg('tuple', 0, [])])
    I.overrides[MSA + '::load'] = load
    I.overrides[MSA + '::save'] = save


def _deref(I, v):
    while isinstance(v, RefV):
        v = I.load(v)
    return v


def build(facts, samples, k, rc):
    I = Interp(facts, {'IntT': 'u64'})
    I.files = {}
    return e2e.build_array(facts, I, samples, k, rc).v


def table_of(facts, arrv):
    names, kmers, rows, counts, ncols = tableops.read_array(facts, Cell(arrv, 'a'))
    return names, sorted(zip(kmers, rows))


def check_merge_e2e(facts, chk, rule, tier):
    key = rule + ':merge'
    bad = []
    n = 0
    k = 5
    pool = [('s0', ['ACCAGTTGACCAT']), ('s1', ['ACCAGATGACC', 'TGGTACC']), ('s2', ['GGTACCAGTT']), ('s3', ['ACCAGCTGACC', 'AAAAAAA']), ('s4', ['TTGACCAGG'])]
    partitions = [[[0], [1]], [[0, 1], [2]], [[0], [1, 2]], [[0], [1], [2]], [[0, 1], [2, 3]], [[0], [1, 2, 3], [4]], [[2, 0], [4, 1]]]
    if tier != 'thorough':
        partitions = partitions[:5]
    for parts in partitions:
        for rc in (1, 0):
            order = [i for p in parts for i in p]
            want = table_of(facts, build(facts, [pool[i] for i in order], k, rc))
            skf = {'f%d.skf' % j: (build(facts, [pool[i] for i in p], k, rc), 'u64') for j, p in enumerate(parts)}
            saved = []
            I = Interp(facts, {'IntT': 'u64'})
            _install_skf(I, facts, skf, saved)
            first = Cell(copy.deepcopy(skf['f0.skf'][0]), 'first')
            rest = Agg('array', 0, [StrV(list('f%d.skf' % j)) for j in range(1, len(parts))])
            n += 1
            try:
                I.call_fn('generic_modes::merge', [RefV(first), RefV(Cell(rest, 'files'), (), (0, len(parts) - 1)), RefV(Cell(StrV(list('out')), 'o'))])
            except Panic as p:
                bad.append((parts, rc, 'merge of compatible files panics: %s' % p.kind))
                continue
            if len(saved) != 1:
                bad.append((parts, rc, '%d files written' % len(saved)))
                continue
            got = table_of(facts, saved[0][1])
            if got != want:
                bad.append((parts, rc, 'merged table names %s differs from the joint build (names %s); first differing rows %s' % (got[0], want[0], [x for x in got[1] if x not in want[1]][:3])))
    # nested: merge(merge(a, b), c) == joint build
    for rc in (1, 0):
        a, b, c = ([pool[0]], [pool[1], pool[2]], [pool[3]])
        saved = []
        skf = {'a.skf': (build(facts, a, k, rc), 'u64'), 'b.skf': (build(facts, b, k, rc), 'u64'), 'c.skf': (build(facts, c, k, rc), 'u64')}
        I = Interp(facts, {'IntT': 'u64'})
        _install_skf(I, facts, skf, saved)
        n += 1
        I.call_fn('generic_modes::merge', [RefV(Cell(copy.deepcopy(skf['a.skf'][0]), 'f')), RefV(Cell(Agg('array', 0, [StrV(list('b.skf'))]), 'fs'), (), (0, 1)), RefV(Cell(StrV(list('ab')), 'o'))])
        skf['ab.skf'] = (saved[-1][1], 'u64')
        I.call_fn('generic_modes::merge', [RefV(Cell(copy.deepcopy(skf['ab.skf'][0]), 'f')), RefV(Cell(Agg('array', 0, [StrV(list('c.skf'))]), 'fs'), (), (0, 1)), RefV(Cell(StrV(list('abc')), 'o'))])
        if table_of(facts, saved[-1][1]) != table_of(facts, build(facts, a + b + c, k, rc)):
            bad.append(('nested', rc, 'merging a merged file differs from the joint build'))
    # refusals: different k, different strand mode, unreadable (other integer width / damaged) input, in any position
    refusals = []
    for pos in (1, 2):
        for what in ('k', 'strand', 'unreadable'):
            refusals.append((pos, what))
    for pos, what in refusals:
        files = {'g0.skf': (build(facts, [pool[0]], 5, 1), 'u64'), 'g1.skf': (build(facts, [pool[1]], 5, 1), 'u64'), 'g2.skf': (build(facts, [pool[2]], 5, 1), 'u64')}
        badfile = 'g%d.skf' % pos
        if what == 'k':
            files[badfile] = (build(facts, [pool[pos]], 7, 1), 'u64')
        elif what == 'strand':
            files[badfile] = (build(facts, [pool[pos]], 5, 0), 'u64')
        else:
            files[badfile] = (files[badfile][0], 'u128')
        saved = []
        I = Interp(facts, {'IntT': 'u64'})
        _install_skf(I, facts, files, saved)
        n += 1
        try:
            I.call_fn('generic_modes::merge', [RefV(Cell(copy.deepcopy(files['g0.skf'][0]), 'f')), RefV(Cell(Agg('array', 0, [StrV(list('g1.skf')), StrV(list('g2.skf'))]), 'fs'), (), (0, 2)),
                                               RefV(Cell(StrV(list('out')), 'o'))])
            bad.append(((pos, what), 1, 'accepted an input with a different %s (wrote %d file(s))' % (what, len(saved))))
        except Panic:
            if saved:
                bad.append(((pos, what), 1, 'refused, but an output file had already been written'))
    if bad:
        chk.violation(rule, key, where='generic_modes::merge', evals=n, detail='%d of %d cases; first: %s rc=%s: %s' % ((len(bad), n) + bad[0]))
    else:
        chk.ok(rule, key, 'generic_modes::merge', 'merge of the built files == joint build in argument order for %d partitions x strand modes and a nested merge; an input with another k, strand mode or an unreadable input in any position is refused before anything is written (%d runs)' % (len(partitions), n), evals=n)


def check_delete_e2e(facts, chk, rule, tier):
    key = rule + ':delete'
    bad = []
    n = 0
    k = 5
    pool = [('s0', ['ACCAGTTGACCAT']), ('s1', ['ACCAGATGACC', 'TGGTACC']), ('s2', ['GGTACCAGTT']), ('s3', ['ACCAGCTGACC', 'AAAAAAA'])]
    for ns in ((3, 4) if tier != 'thorough' else (2, 3, 4)):
        samples = pool[:ns]
        for rc in (1, 0):
            full = build(facts, samples, k, rc)
            for m in range(1, ns):
                for sub in itertools.combinations(range(ns), m):
                    for order in (sub, tuple(reversed(sub))):
                        saved = []
                        I = Interp(facts, {'IntT': 'u64'})
                        _install_skf(I, facts, {}, saved)
                        arr = Cell(copy.deepcopy(full), 'arr')
                        names = Agg('array', 0, [RefV(Cell(StrV(list(samples[i][0])), 'nm')) for i in order])
                        n += 1
                        try:
                            I.call_fn('generic_modes::delete', [RefV(arr), RefV(Cell(names, 'names'), (), (0, len(order))), RefV(Cell(StrV(list('out')), 'o'))])
                        except Panic as p:
                            bad.append((ns, [samples[i][0] for i in order], rc, 'panics: %s' % p.kind))
                            continue
                        want = table_of(facts, build(facts, [samples[i] for i in range(ns) if i not in sub], k, rc))
                        if len(saved) != 1 or table_of(facts, saved[0][1]) != want:
                            bad.append((ns, [samples[i][0] for i in order], rc, 'saved table differs from the build of the remaining samples'))
            # refusals leave nothing written
            for dels, why in ((['s0', 'nope'], 'unknown name'), ([x[0] for x in samples], 'all samples')):
                saved = []
                I = Interp(facts, {'IntT': 'u64'})
                _install_skf(I, facts, {}, saved)
                arr = Cell(copy.deepcopy(full), 'arr')
                names = Agg('array', 0, [RefV(Cell(StrV(list(x)), 'nm')) for x in dels])
                n += 1
                try:
                    I.call_fn('generic_modes::delete', [RefV(arr), RefV(Cell(names, 'names'), (), (0, len(dels))), RefV(Cell(StrV(list('out')), 'o'))])
                    bad.append((ns, dels, rc, 'accepted (%s must be refused)' % why))
                except Panic:
                    if saved:
                        bad.append((ns, dels, rc, 'refused (%s) after writing the file' % why))
    if bad:
        chk.violation(rule, key, where='generic_modes::delete', evals=n, detail='%d of %d cases; first: %d samples, delete %s, rc=%s: %s' % ((len(bad), n) + bad[0]))
    else:
        chk.ok(rule, key, 'generic_modes::delete', 'delete of built files == build of the remaining samples for every non-empty proper subset (both argument orders, both strand modes); unknown / all names refused with nothing written (%d runs)' % n, evals=n)


def check_merge_empty(facts, chk, rule, tier):
    """`ska merge` where one input holds samples but no split k-mers (the result of an earlier `ska weed` that removed everything,
    e.g. --reverse against unrelated sequences): the merged file still lists that file's samples, in argument order, missing ('-')
    at every k-mer - in first, middle and last position, and merged in either order."""
    key = rule + ':merge-empty'
    bad = []
    n = 0
    k = 5
    pool = [('s0', ['ACCAGTTGACCAT']), ('s1', ['ACCAGATGACC', 'TGGTACC']), ('s2', ['GGTACCAGTT']), ('s3', ['ACCAGCTGACC'])]
    for rc in (1, 0):
        full = {i: build(facts, [pool[i]], k, rc) for i in range(4)}
        two = build(facts, [pool[2], pool[3]], k, rc)
        # emptied files: the real weed on the built array, reverse mode with an empty weed set keeps nothing
        def emptied(arrv):
            I = Interp(facts, {'IntT': 'u64'})
            c = Cell(copy.deepcopy(arrv), 'arr')
            I.call_fn(MSA + '::weed', [RefV(c), RefV(tableops.mk_refska(facts, [])), BV(1, 1)])
            return c.v
        e0 = emptied(full[0])
        e23 = emptied(two)
        if table_of(facts, e0)[1] or table_of(facts, e23)[1]:
            raise AnchorLost('reverse weed against nothing did not empty the table')
        layouts = [([('e', e0, ['s0']), ('f', full[1], None)]), ([('f', full[1], None), ('e', e0, ['s0'])]), ([('f', full[1], None), ('e', e23, ['s2', 's3']), ('f', full[0], None)]),
                   ([('e', e23, ['s2', 's3']), ('f', full[0], None), ('f', full[1], None)]), ([('e', e0, ['s0']), ('e', e23, ['s2', 's3'])])]
        for lay in layouts:
            skf = {'m%d.skf' % j: (x[1], 'u64') for j, x in enumerate(lay)}
            tabs = []
            for x in lay:
                nm, rows = table_of(facts, x[1])
                tabs.append(tableops.Table(list(nm), [(kk, ''.join(b) if not isinstance(b, str) else b) for kk, b in rows]))
            want = tableops.spec_merge(tabs)
            saved = []
            I = Interp(facts, {'IntT': 'u64'})
            _install_skf(I, facts, skf, saved)
            rest = Agg('array', 0, [StrV(list('m%d.skf' % j)) for j in range(1, len(lay))])
            n += 1
            try:
                I.call_fn('generic_modes::merge', [RefV(Cell(copy.deepcopy(skf['m0.skf'][0]), 'first')), RefV(Cell(rest, 'files'), (), (0, len(lay) - 1)), RefV(Cell(StrV(list('out')), 'o'))])
            except Panic as p:
                bad.append(([x[0] for x in lay], rc, 'merge with an emptied input panics: %s' % p.kind))
                continue
            if len(saved) != 1:
                bad.append(([x[0] for x in lay], rc, '%d files written' % len(saved)))
                continue
            gn, grows = table_of(facts, saved[0][1])
            grows = sorted((kk, ''.join(b) if not isinstance(b, str) else b) for kk, b in grows)
            if list(gn) != want.names or grows != sorted(want.rows):
                bad.append(([x[0] for x in lay], rc, 'merged samples %s, expected %s (every input\'s samples in argument order); %d rows, expected %d' % (list(gn), want.names, len(grows), len(want.rows))))
    if bad:
        chk.violation(rule, key, where='generic_modes::merge', evals=n, detail='%d of %d cases; first: inputs (e = emptied by weed, f = full) %s rc=%s: %s' % ((len(bad), n) + bad[0]))
    else:
        chk.ok(rule, key, 'generic_modes::merge', 'a file emptied by weed keeps its samples through merge (first / middle / last / only emptied inputs, both strand modes): names in argument order, gaps in its columns (%d runs)' % n, evals=n)
