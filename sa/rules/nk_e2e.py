"""End-to-end small-scope check of `ska build` + `ska nk [--full-info]` (C01.e2e): build_and_merge -> MergeSkaArray::new, then
the Display and Debug implementations interpreted into a captured formatter.  The printed summary and the printed table
(one line `left arm <tab> right arm <tab> b0,b1,..` per split k-mer) are compared with the window specification:
every N-free window of every record of every sample, IUPAC-merged per sample, '-' where a sample lacks the k-mer.
"""
from ..facts import AnchorLost
from ..absint.interp import Interp, Panic
from ..absint.values import BV, Agg, RefV, Cell
from . import e2e, skiter

MSA = 'merge_ska_array::MergeSkaArray'
DEC = 'ACTG'


def arms(v, k):
    h = (k - 1) // 2
    s = ''
    for i in range(2 * h):
        s = DEC[v & 3] + s
        v >>= 2
    return s[:h], s[h:]


def run_nk(facts, samples, k, rc, threads=1):
    I = Interp(facts, {'IntT': 'u64'})
    I.files = {}
    arr = e2e.build_array(facts, I, samples, k, rc, threads)
    out = {}
    for tr in ('Display', 'Debug'):
        sink = Cell(Agg('sink', 0, ['fmt', []]), 'fmt')
        cands = [n for n in facts.by_name if n.startswith('<' + MSA) and n.endswith(' as std::fmt::%s>::fmt' % tr)]
        if len(cands) != 1:
            raise AnchorLost('%s impl for MergeSkaArray: %d bodies' % (tr, len(cands)))
        I.call_fn(cands[0], [RefV(arr), RefV(sink)])
        out[tr] = ''.join(sink.v.fields[1])
    return out


def check_nk_e2e(facts, chk, rule, tier):
    key = rule + ':nk'
    bad = []
    n = 0
    sets = [
        [('s0', ['ACCAGTTGAC']), ('s1', ['ACCAGATGAC', 'GGTNA'])],
        [('one', ['AAAAAAA', 'TTTTT'])],
        [('a', ['ACGTACGTAC']), ('b', ['GTACGTACGT']), ('c', ['ACGAACGTAC', 'ACGCACG'])],
        [('x', ['GATTACAGATTACA', 'nnACGTn']), ('y', ['tgtaatc'])],
    ]
    for samples in sets:
        for k in ((5, 7) if tier == 'thorough' else (5,)):
            for rc in (1, 0):
                n += 1
                try:
                    out = run_nk(facts, samples, k, rc)
                except Panic as p:
                    dicts = [skiter.spec_dict([(s, None) for s in recs], k, rc) for _, recs in samples]
                    if all(dicts):
                        bad.append((samples, k, rc, 'panic: %s' % p.kind))
                    continue
                dicts = [skiter.spec_dict([(s, None) for s in recs], k, rc) for _, recs in samples]
                keys = set()
                for d in dicts:
                    keys |= set(d)
                want_lines = sorted('%s\t%s\t%s' % (arms(v, k) + (','.join(d.get(v, '-') for d in dicts),)) for v in keys)
                got_lines = sorted(l for l in out['Debug'].splitlines() if l.strip())
                hdr = dict(l.split('=', 1) for l in out['Display'].splitlines() if '=' in l)
                want_hdr = {'k': str(k), 'k_bits': '64', 'rc': 'true' if rc else 'false', 'k-mers': str(len(keys)), 'samples': str(len(samples)),
                            'sample_names': '[%s]' % ', '.join('"%s"' % nm for nm, _ in samples), 'sample_kmers': '[%s]' % ', '.join(str(len(d)) for d in dicts)}
                diff = {x: (hdr.get(x), w) for x, w in want_hdr.items() if hdr.get(x) != w}
                if diff:
                    bad.append((samples, k, rc, 'summary %s' % diff))
                elif got_lines != want_lines:
                    only_got = [l for l in got_lines if l not in want_lines][:3]
                    only_want = [l for l in want_lines if l not in got_lines][:3]
                    bad.append((samples, k, rc, 'table lines only printed %s, only specified %s' % (only_got, only_want)))
    if bad:
        samples, k, rc, why = bad[0]
        chk.violation(rule, key, where='build_and_merge / MergeSkaArray::new / Display / Debug', evals=n, detail='%d of %d cases; first: %s; samples %s k=%d rc=%d' % (len(bad), n, why, samples, k, rc))
    else:
        chk.ok(rule, key, 'ska build + ska nk --full-info', 'printed summary (k, strand mode, number of k-mers, samples, names, per-sample counts) and printed table == IUPAC-merged windows of every record of every sample, gap where absent (%d sample sets x strand modes)' % n, evals=n)
