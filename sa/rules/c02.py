"""C02 - build is invariant to strand, record order, letter case, wrapping and gzip.

Decided clauses (re-wrapping of sequence lines and gzip are parser behaviour: not decided):
  C02.case    encode_base / valid_base / is_ambiguous ignore the ASCII case bit for every byte value, and the
              bit-provenance of encode_base/valid_base results excludes input bit 5
  C02.strand  the canonical choice is symmetric: swapping (fwd, mid) <-> (rc, rc_mid) gives the same k-mer/base,
              except on a tie, which is exactly self_palindrome(); the palindrome table is symmetric under
              base <-> complement(base)
  C02.union   accumulation order / multiplicity cannot matter (C15: IUPAC union is commutative and idempotent)
  C02.column  sample index = input position (C03.column, C11.offsets)
  C02.window  the end-of-record guards are tight (= C01.guard): a window next to the record end is kept on both strands
"""
from ..facts import AnchorLost
from ..absint.interp import Interp, Panic, NONE, MapV
from ..absint.values import BV, Agg, RefV, Cell, Opaque, TOP
from . import c01, c03

EXPLANATION = ('Finite-domain abstract interpretation: case bit independence over all 256 bytes (plus bit-provenance), symmetry of the '
               'canonical-orientation choice over all orderings, symmetry of the palindrome table; union algebra from C15.')
ASSUMPTIONS = ['line wrapping and gzip decoding are needletail behaviour (trusted)', 'reverse complement exactness is C16']
BE = 'ska_dict::bit_encoding::'
SK = 'ska_dict::split_kmer::SplitKmer::'


def run(facts, chk, tier, only=None):
    from . import skiter
    chk.guard('C02.func', 'C02.func:strand-symmetry', lambda: skiter.check_strand_symmetry(facts, chk, 'C02.func', tier))
    chk.guard('C02.func', 'C02.func:invariance', lambda: skiter.check_dict_invariance(facts, chk, 'C02.func', tier))
    def case():
        I = Interp(facts)
        bad = []
        for fn in ('encode_base', 'valid_base', 'is_ambiguous'):
            for x in range(256):
                a = I.call_fn(BE + fn, [BV(8, x)]).val
                b = I.call_fn(BE + fn, [BV(8, x ^ 0x20)]).val
                if a != b:
                    bad.append((fn, x))
        # provenance: with bit 5 symbolic, the results of encode_base / valid_base do not mention it
        prov = []
        for fn in ('encode_base', 'valid_base'):
            for base in range(256):
                if base & 0x20:
                    continue
                bits = [(base >> i) & 1 for i in range(8)]
                bits[5] = ('v', 'case')
                r = I.call_fn(BE + fn, [BV(8, bits=bits)])
                if r.val is None:
                    prov.append((fn, base, repr(r)))
        return bad, prov
    r = chk.guard('C02.case', 'C02.case:bit-encoding', case)
    if r is not None:
        bad, prov = r
        if bad or prov:
            chk.violation('C02.case', 'C02.case:bit-encoding', where=BE, evals=3 * 256 + 256,
                          detail='case bit changes the result: %s; result depends on input bit 5: %s' % (bad[:4], prov[:2]))
        else:
            chk.ok('C02.case', 'C02.case:bit-encoding', BE, 'encode_base, valid_base, is_ambiguous: f(b) == f(b ^ 0x20) for all 256 bytes; results carry no provenance from bit 5',
                   evals=3 * 256 + 256)

    def strand():
        I = Interp(facts, {'IntT': 'u64'})
        bad = []
        n = 0
        vals = [(0x10, 0x01), (0x20, 0x02), (0x30, 0x03), (0x20, 0x03)]
        for (fu, fl) in vals:
            for (ru, rl) in vals:
                for m in (0, 1, 2, 3):
                    n += 1
                    a = Cell(c01._mk_sk(facts, fu, fl, m, ru, rl, m ^ 2, 1), 'a')
                    b = Cell(c01._mk_sk(facts, ru, rl, m ^ 2, fu, fl, m, 1), 'b')
                    ra = I.call_fn(SK + 'get_curr_kmer', [RefV(a)])
                    rb = I.call_fn(SK + 'get_curr_kmer', [RefV(b)])
                    tie = (fu | fl) == (ru | rl)
                    pa = I.call_fn(SK + 'self_palindrome', [RefV(a)]).val
                    same = (ra.fields[0].val, ra.fields[1].val) == (rb.fields[0].val, rb.fields[1].val)
                    if not tie and not same:
                        bad.append(((fu | fl, ru | rl, m), 'orientation-dependent result'))
                    if tie and not ((fu, fl) == (ru, rl)) and not same:
                        # equal packed k-mers with different arms cannot happen (upper/lower occupy disjoint bits)
                        pass
                    if ((fu, fl) == (ru, rl)) != bool(pa):
                        bad.append(((fu, fl, ru, rl), 'self_palindrome = %s' % pa))
        return n, bad
    r = chk.guard('C02.strand', 'C02.strand:get_curr_kmer', strand)
    if r is not None:
        n, bad = r
        if bad:
            chk.violation('C02.strand', 'C02.strand:get_curr_kmer', where=SK + 'get_curr_kmer', evals=n, detail='%s: %s' % bad[0])
        else:
            chk.ok('C02.strand', 'C02.strand:get_curr_kmer', SK + 'get_curr_kmer',
                   'a k-mer and its reverse complement choose the same (k-mer, middle base) unless they tie; tie <=> self_palindrome (%d cases)' % n, evals=n)

    def pal_sym():
        SD = 'ska_dict::SkaDict'
        names = [f['name'] for f in facts.adt(SD)['variants'][0]['fields']]
        I = Interp(facts, {'IntT': 'u64'})
        bad = []

        def run_one(ex, b):
            m = MapV()
            if ex is not None:
                m.d[('bv', 64, 7)] = (BV(64, 7), Cell(BV(8, ex), 'mapval'))
            vals = dict(k=BV(64, 5), rc=BV(1, 1), sample_idx=BV(64, 0), name=Opaque('name'), split_kmers=m, kmer_filter=Opaque('kf'))
            d = Cell(Agg('adt:' + SD, 0, [vals[n] for n in names]), 'dict')
            I.call_fn(SD + '::add_palindrome_to_dict', [RefV(d), BV(64, 7), BV(8, b)])
            return m.d[('bv', 64, 7)][1].v.val
        for ex in (None, ord('W'), ord('S'), ord('N')):
            for b in range(4):
                if run_one(ex, b) != run_one(ex, b ^ 2):
                    bad.append((ex, b))
        return bad
    r = chk.guard('C02.strand', 'C02.strand:palindrome-table', pal_sym)
    if r is not None:
        if r:
            chk.violation('C02.strand', 'C02.strand:palindrome-table', where='ska_dict::SkaDict::add_palindrome_to_dict', evals=16,
                          detail='palindrome table is not symmetric under base <-> complement at (existing, base) = %s' % r[:3])
        else:
            chk.ok('C02.strand', 'C02.strand:palindrome-table', 'ska_dict::SkaDict::add_palindrome_to_dict',
                   'add_palindrome_to_dict(e, b) == add_palindrome_to_dict(e, comp b) for all 16 cells', evals=32)

    # union algebra on the table (from C15)
    def union():
        t = facts.const_bytes(BE + 'IUPAC')
        codes = [ord(c) for c in 'ACGTRYSWKMBDHVN']
        bad = 0
        n = 0
        for c in codes:
            for a in range(4):
                for b in range(4):
                    n += 1
                    if t[b * 256 + t[a * 256 + c]] != t[a * 256 + t[b * 256 + c]]:
                        bad += 1
                n += 1
                if t[a * 256 + t[a * 256 + c]] != t[a * 256 + c]:
                    bad += 1
        # first observation then union: decode_base(a) then +b == decode_base(b) then +a
        I = Interp(facts)
        for a in range(4):
            for b in range(4):
                da = I.call_fn(BE + 'decode_base', [BV(8, a)]).val
                db = I.call_fn(BE + 'decode_base', [BV(8, b)]).val
                n += 1
                if t[b * 256 + da] != t[a * 256 + db]:
                    bad += 1
        return n, bad
    r = chk.guard('C02.union', 'C02.union:IUPAC', union)
    if r is not None:
        n, bad = r
        if bad:
            chk.violation('C02.union', 'C02.union:IUPAC', where=BE + 'IUPAC', evals=n, detail='%d order/multiplicity dependent cells' % bad)
        else:
            chk.ok('C02.union', 'C02.union:IUPAC', BE + 'IUPAC', 'accumulation is commutative and idempotent, including the first observation (%d identities)' % n, evals=n)

    # record order cannot matter only if the accumulation tables are the IUPAC union in every cell (shared with C01.pal / C15.use)
    chk.guard('C02.union', 'C02.union:tables:run', lambda: c01.check_tables(facts, chk, 'C02.union:tables'))
    # sample i (position in the input list) owns name i and column i, functionally (replaces the former shape rule C02.column)
    from . import buildops
    chk.guard('C02.func', 'C02.func:parallel_append:run', lambda: buildops.check_parallel_append(facts, chk, 'C02.func', tier))
    # a window is kept or dropped symmetrically at both record ends only if the end-of-record guards are tight
    # (a record and its reverse complement must yield the same windows): shared with C01.guard
    chk.guard('C02.window', 'C02.window:run', lambda: c01.check_guards(facts, chk, 'C02.window'))
