"""K4: interprocedural effect counting with disjunctive, result-variant-indexed summaries.

summary(f, ctx) = set of (count, rv) : along some path through f the effect happens `count`
times (saturating at 2) and f returns a Result/Option whose variant is rv (0 = Ok/Some-less..,
1 = Err, None = unknown / not a two-variant value).  Each entry carries one witness (list of
call-site strings).  Paths are explored per function over states (block, count, facts) where
facts records the known discriminant of Result/ControlFlow locals, so that
    if let Ok(a) = load::<u64>() {..} else if let Ok(a) = load::<u128>() {..}
does not add the effects of two mutually exclusive outcomes.
"""
from .facts import AnchorLost, _strip_generics
from .expr import ExprBuilder, subexprs
from .cond import eval_expr, Unevaluable

SAT = 2


def _tracked(ty):
    return ty.startswith('std::result::Result<') or ty.startswith('std::ops::ControlFlow<')


class EffectAnalysis:
    def __init__(self, facts, is_effect, closure_invoked_where_created=True, max_states=200000, compose=None):
        """is_effect(body, bb, term) -> None | site-description (the call itself is one effect) | (site-description, value).
        Path effects are composed left to right with `compose` (default: saturating addition of counts; the unit is 0); any
        finite monoid over small integers can be used, e.g. an abstraction of the word of effects along the path."""
        self.facts = facts
        self.is_effect = is_effect
        self.compose = compose or (lambda a, b: min(SAT, a + b))
        self.summaries = {}         # (fn name, ctx) -> {(count, rv): witness}
        self.in_progress = set()
        self.closure_invoked = closure_invoked_where_created
        self.max_states = max_states
        self.ebs = {}
        self.changed = False

    def eb(self, body):
        if body.path not in self.ebs:
            self.ebs[body.path] = ExprBuilder(body)
        return self.ebs[body.path]

    # ------------------------------------------------------------------
    def summary(self, body, ctx=()):
        key = (body.path, ctx)
        if key in self.summaries and key not in self.in_progress:
            return self.summaries[key]
        if key in self.in_progress:
            return self.summaries.get(key, {})
        self.in_progress.add(key)
        self.summaries.setdefault(key, {})
        # fixpoint for recursion
        for _ in range(6):
            new = self.explore(body, ctx, 0)
            old = self.summaries[key]
            merged = dict(old)
            for k, w in new.items():
                merged.setdefault(k, w)
            if set(merged) == set(old):
                break
            self.summaries[key] = merged
        self.in_progress.discard(key)
        return self.summaries[key]

    def callee_body(self, t):
        n = t.callee.name
        if not n or t.callee.krate != 'ska':
            # closures called through Fn traits, etc.: not followed here
            return None
        c = self.facts.by_name.get(n)
        if c and len(c) == 1 and c[0].kind != 'Promoted':
            return c[0]
        # trait method on IntT: effects cannot hide in the UInt impls (checked by caller if needed)
        return None

    def ctx_for_call(self, body, t, callee):
        """known slice lengths of actual arguments (fixed-size array coerced to a slice)"""
        eb = self.eb(body)
        ctx = []
        for i, a in enumerate(t.args):
            e = eb.operand(a)
            n = _array_len(e, body, self.facts)
            if n is not None:
                ctx.append((i + 1, 'len', n))
        return tuple(ctx)

    def explore(self, body, ctx, start, only_from=None):
        """-> {(count, rv): witness}; start: entry block"""
        eb = self.eb(body)
        results = {}
        init_facts = ()
        seen = set()
        work = [(start if only_from is None else only_from, 0, init_facts, ())]
        nstates = 0
        while work:
            bb, cnt, facts, wit = work.pop()
            st = (bb, cnt, facts)
            if st in seen:
                continue
            seen.add(st)
            nstates += 1
            if nstates > self.max_states:
                raise AnchorLost('%s: state budget exhausted in effect analysis' % body.name)
            blk = body.blocks[bb]
            f = dict(facts)
            outs = [(cnt, wit)]
            for s in blk.stmts:
                if s.k != 'assign':
                    continue
                tgt = s.place
                if tgt.proj:
                    continue
                val = None
                rv = s.rv
                if rv.k == 'aggregate' and rv.j['kind'].get('k') == 'adt' and _tracked(body.local_ty(tgt.local)):
                    val = rv.j['kind']['variant']
                elif rv.k == 'use' and rv.ops[0].place is not None and not rv.ops[0].place.proj:
                    val = f.get(rv.ops[0].place.local)
                if self.closure_invoked and rv.k == 'aggregate' and rv.j['kind'].get('k') == 'closure':
                    cb = self.facts.bodies.get(rv.j['kind']['def'])
                    if cb is not None:
                        cs = self.summary(cb, ())
                        new_outs = list(outs)      # the closure may also never be invoked
                        for (c0, w0) in outs:
                            for (dc, _rv), w in cs.items():
                                new_outs.append((self.compose(c0, dc), w0 + tuple('%s -> %s' % (s.span, x) for x in w) if dc else w0))
                        outs = _dedupe(new_outs)
                if val is None:
                    f.pop(tgt.local, None)
                else:
                    f[tgt.local] = val
            t = blk.term
            k = t.k
            if k == 'return':
                rv = f.get(0) if _tracked(body.local_ty(0)) else None
                for c0, w0 in outs:
                    results.setdefault((c0, rv), w0)
                continue
            if k in ('unreachable', 'resume', 'abort'):
                continue
            if k == 'switch':
                succs = self.switch_targets(body, eb, t, f, ctx)
                for s in succs:
                    for c0, w0 in outs:
                        work.append((s, c0, _freeze(f), w0))
                continue
            if k == 'call':
                if t.target is None:
                    continue        # diverges
                eff = self.is_effect(body, bb, t)
                callee = self.callee_body(t)
                entries = [(0, None, ())]
                n = t.callee.name or ''
                if eff:
                    eff, val = eff if isinstance(eff, tuple) else (eff, 1)
                    entries = [(val, None, ('%s @ %s' % (eff, t.span),))]
                elif callee is not None:
                    cctx = self.ctx_for_call(body, t, callee)
                    cs = self.summary(callee, cctx)
                    if cs:
                        entries = [(dc, rv, tuple('%s @ %s -> %s' % (callee.name, t.span, x) for x in w) if dc else ())
                                   for (dc, rv), w in cs.items()]
                    else:
                        entries = []   # callee never returns (or recursion not yet resolved)
                        if (callee.path, cctx) in self.in_progress:
                            entries = [(0, None, ())]
                elif 'Try' in n and n.endswith('branch') and t.args and t.args[0].place is not None:
                    v = f.get(t.args[0].place.local)
                    entries = [(0, v, ())]
                elif 'from_residual' in n:
                    entries = [(0, 1, ())]
                for dc, rv, w in entries:
                    f2 = dict(f)
                    if not t.dest.proj:
                        if rv is not None and _tracked(body.local_ty(t.dest.local)):
                            f2[t.dest.local] = rv
                        else:
                            f2.pop(t.dest.local, None)
                    for c0, w0 in outs:
                        work.append((t.target, self.compose(c0, dc), _freeze(f2), w0 + w))
                continue
            # goto / drop / assert
            for s in t.succs():
                for c0, w0 in outs:
                    work.append((s, c0, _freeze(f), w0))
        return results

    def switch_targets(self, body, eb, t, f, ctx):
        # discriminant of a tracked local with a known variant
        e = eb.operand(t.discr)
        d = t.discr
        known = None
        # find `_x = discriminant(_y)` feeding the switch
        if d.place is not None and not d.place.proj:
            for (bb, idx, node, _p) in eb._defs.get(d.place.local, []):
                if idx != 'term' and node.rv.k == 'discr' and not node.rv.place.proj:
                    y = node.rv.place.local
                    if y in f:
                        known = f[y]
        if known is not None:
            for v, tg in t.targets:
                if v == known:
                    return [tg]
            return [t.otherwise]
        # context facts (known slice lengths)
        if ctx:
            def leaf(x):
                x0 = x
                while x0[0] in ('ref', 'deref'):
                    x0 = x0[1]
                if x0[0] == 'call' and x0[1].endswith('::len') and x0[2]:
                    a = x0[2][0]
                    while a[0] in ('ref', 'deref'):
                        a = a[1]
                    if a[0] == 'arg':
                        for (ai, kind, n) in ctx:
                            if ai == a[1] and kind == 'len':
                                return n
                if x0[0] == 'len' and x0[1][0] in ('arg',) or (x0[0] == 'len' and x0[1][0] in ('ref', 'deref')):
                    a = x0[1]
                    while a[0] in ('ref', 'deref'):
                        a = a[1]
                    if a[0] == 'arg':
                        for (ai, kind, n) in ctx:
                            if ai == a[1] and kind == 'len':
                                return n
                raise Unevaluable()
            try:
                v = eval_expr(e, leaf)
                for val, tg in t.targets:
                    if val == v:
                        return [tg]
                return [t.otherwise]
            except Unevaluable:
                pass
        return list(dict.fromkeys(t.succs()))


def _freeze(f):
    return tuple(sorted(f.items()))


def _dedupe(outs):
    d = {}
    for c, w in outs:
        d.setdefault(c, w)
    return sorted(d.items())


def _array_len(e, body, facts):
    """length of a fixed-size array behind a reference/unsize cast, if the expression shows one"""
    x = e
    while x[0] in ('ref', 'deref') or (x[0] == 'cast' and 'Unsize' in (x[3] if len(x) > 3 else '')):
        x = x[1]
    if x[0] == 'agg' and x[1] == 'array':
        return len(x[2])
    if x[0] == 'call' and x[1] in ('std::slice::from_ref', 'core::slice::from_ref'):
        return 1          # a one-element slice of its argument
    if x[0] == 'promoted':
        ty = x[3] or ''
        import re
        m = re.search(r'\[.*; (\d+)\]', ty)
        if m:
            return int(m.group(1))
    return None
