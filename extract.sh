#!/bin/bash
# extract.sh <out.json> [repo_dir] : run the skamir driver over the ska crate
# (lib target) of repo_dir (default /repo) and write the fact file.
set -e
OUT="$(realpath -m "$1")"; REPO="${2:-/repo}"
V=/verif
DRV=$V/driver/target/release/skamir
if [ ! -x "$DRV" ]; then (cd $V/driver && CARGO_NET_OFFLINE=true cargo build --release --offline >&2); fi
export LD_LIBRARY_PATH=$(rustc +nightly --print sysroot)/lib
TGT="${SKAMIR_TARGET:-$V/.cache/target}"
mkdir -p "$TGT"
# cargo's freshness cache would skip the wrapper: drop the ska fingerprints
rm -rf "$TGT"/debug/.fingerprint/ska-* 2>/dev/null || true
rm -f "$OUT" "$OUT.bin"
cd "$REPO"
SKAMIR_OUT="$OUT" RUSTFLAGS="-Zmir-opt-level=0 -Awarnings" RUSTC_WORKSPACE_WRAPPER="$DRV" \
  CARGO_TARGET_DIR="$TGT" CARGO_NET_OFFLINE=true CARGO_INCREMENTAL=0 \
  cargo +nightly check --offline --lib --quiet >&2
test -s "$OUT"
