#!/usr/bin/env bash
# D10 (C18, C17): `ska lo` aborts on an in-domain input: 3 samples, k=15, one 10-base deletion carried by two samples.
# usage: demo.sh [tree]   (builds the debug binary of <tree>, default /repo, into a scratch target dir)
set -u
SRC="${1:-/repo}"; SRC="$(cd "$SRC" && pwd)"
WD="$(mktemp -d /tmp/d10demo.XXXXXX)"; trap 'rm -rf "$WD"' EXIT
export CARGO_TARGET_DIR="${CARGO_TARGET_DIR:-$WD/target}" CARGO_NET_OFFLINE=true
(cd "$SRC" && cargo build --offline >/dev/null 2>&1) || { echo "build failed"; exit 2; }
SKA="$CARGO_TARGET_DIR/debug/ska"
python3 - "$SKA" "$WD" <<'PY'
import random, subprocess, sys
ska, wd = sys.argv[1], sys.argv[2]
def rc(s): return s[::-1].translate(str.maketrans("ACGT", "TGCA"))
def ancestor(n, k, rng):
    while True:
        s = "".join(rng.choice("ACGT") for _ in range(n)); seen = set(); ok = True
        for i in range(n - (k - 1) + 1):
            m = s[i:i + k - 1]; c = min(m, rc(m))
            if c in seen or m == rc(m): ok = False; break
            seen.add(c)
        if ok: return s
rng = random.Random(18); K = rng.choice([11, 15, 21, 31]); NS = rng.randint(3, 6)
anc = ancestor(600, K, rng)
p = 200; ln = rng.randint(1, 10); kind = rng.choice("ID"); car = set(rng.sample(range(NS), rng.randint(1, NS - 1)))
ins = "".join(rng.choice("ACGT") for _ in range(ln))
assert (K, NS, kind, ln, sorted(car)) == (15, 3, 'D', 10, [1, 2])
with open(f"{wd}/list.txt", "w") as fl:
    for s in range(NS):
        g = anc
        if s in car: g = g[:p] + g[p + ln:]
        open(f"{wd}/s{s}.fa", "w").write(f">s{s}\n{g}\n"); fl.write(f"s{s}\t{wd}/s{s}.fa\n")
subprocess.run([ska, "build", "-o", f"{wd}/d", "-k", str(K), "-f", f"{wd}/list.txt"], check=True, capture_output=True)
r = subprocess.run([ska, "lo", f"{wd}/d.skf", f"{wd}/out"], capture_output=True, text=True)
if r.returncode != 0:
    print("VIOLATED: ska lo exit %d: %s" % (r.returncode, [l for l in r.stderr.splitlines() if "panicked" in l or "overflow" in l][:2]))
    sys.exit(1)
recs = [l.rstrip("\n").split("\t") for l in open(f"{wd}/out_indels.vcf") if not l.startswith("#") and l.strip()]
dele = anc[p:p + ln]
ok = [f for f in recs if {f[3].replace("-", ""), f[4].replace("-", "")} == {"", dele} or {f[3].replace("-", ""), f[4].replace("-", "")} == {"", rc(dele)}]
# the deleted string may be reported shifted within a repeat; accept any record whose longer allele has the planted length
ok = ok or [f for f in recs if sorted([len(f[3].replace("-", "")), len(f[4].replace("-", ""))]) == [0, ln]]
if len(recs) != 1 or not ok:
    print("VIOLATED: expected one record for the planted %d-base deletion, got %s" % (ln, [(f[3], f[4], f[9:]) for f in recs])); sys.exit(1)
f = ok[0]; gt = f[9:]
ref_is_del = f[3].replace("-", "") == ""
want = [("0" if (s in car) == ref_is_del else "1") for s in range(NS)]
if gt != want:
    print("VIOLATED: genotypes %s, carriers %s (REF=%s ALT=%s)" % (gt, sorted(car), f[3], f[4])); sys.exit(1)
print("OK: ska lo reports the planted deletion once with genotypes", gt)
PY
