// skamir: rustc_private driver that dumps the type-checked MIR of the local
// crate `ska` (bodies, resolved callees, evaluated constants, ADT/impl tables)
// as one JSON file.  Used as RUSTC_WORKSPACE_WRAPPER under `cargo +nightly check`.
//
// Output path: $SKAMIR_OUT (one write per process; only for crate name `ska`
// unless $SKAMIR_CRATE names another crate).
#![feature(rustc_private)]
#![allow(clippy::all)]

extern crate rustc_abi;
extern crate rustc_const_eval;
extern crate rustc_driver;
extern crate rustc_hir;
extern crate rustc_interface;
extern crate rustc_middle;
extern crate rustc_session;
extern crate rustc_span;

use std::fmt::Write as _;

use rustc_driver::{Callbacks, Compilation};
use rustc_hir::def::DefKind;
use rustc_hir::def_id::{DefId, LOCAL_CRATE};
use rustc_interface::interface;
use rustc_middle::mir::{
    self, AggregateKind, BasicBlockData, Body, BorrowKind, Const, ConstValue, Operand, Place,
    ProjectionElem, Rvalue, StatementKind, TerminatorKind,
};
use rustc_middle::ty::{self, Instance, Ty, TyCtxt, TypingEnv};
use rustc_span::Span;

// ---------------------------------------------------------------- JSON writer
fn esc(s: &str) -> String {
    let mut o = String::with_capacity(s.len() + 2);
    o.push('"');
    for c in s.chars() {
        match c {
            '"' => o.push_str("\\\""),
            '\\' => o.push_str("\\\\"),
            '\n' => o.push_str("\\n"),
            '\r' => o.push_str("\\r"),
            '\t' => o.push_str("\\t"),
            c if (c as u32) < 0x20 => {
                let _ = write!(o, "\\u{:04x}", c as u32);
            }
            c => o.push(c),
        }
    }
    o.push('"');
    o
}

fn obj(fields: &[(&str, String)]) -> String {
    let mut o = String::from("{");
    for (i, (k, v)) in fields.iter().enumerate() {
        if i > 0 {
            o.push(',');
        }
        o.push_str(&esc(k));
        o.push(':');
        o.push_str(v);
    }
    o.push('}');
    o
}

fn arr(items: &[String]) -> String {
    let mut o = String::from("[");
    for (i, v) in items.iter().enumerate() {
        if i > 0 {
            o.push(',');
        }
        o.push_str(v);
    }
    o.push(']');
    o
}

// ---------------------------------------------------------------- dumper
struct Dumper<'tcx> {
    tcx: TyCtxt<'tcx>,
}

impl<'tcx> Dumper<'tcx> {
    fn path(&self, did: DefId) -> String {
        self.tcx.def_path_str(did)
    }

    fn span(&self, sp: Span) -> String {
        let sm = self.tcx.sess.source_map();
        let lo = sm.lookup_char_pos(sp.lo());
        let hi = sm.lookup_char_pos(sp.hi());
        let file = match &lo.file.name {
            rustc_span::FileName::Real(r) => match r.local_path() {
                Some(p) => p.to_string_lossy().to_string(),
                None => format!("{:?}", r),
            },
            other => format!("{:?}", other),
        };
        format!("{}:{}:{}-{}:{}", file, lo.line, lo.col.0 + 1, hi.line, hi.col.0 + 1)
    }

    fn span_json(&self, sp: Span) -> String {
        let exp = sp.from_expansion();
        // use the call-site span for macro expansions so positions stay in src/
        let s = if exp { sp.source_callsite() } else { sp };
        obj(&[("s", esc(&self.span(s))), ("exp", exp.to_string())])
    }

    fn ty(&self, t: Ty<'tcx>) -> String {
        esc(&format!("{}", t))
    }

    fn place(&self, p: &Place<'tcx>) -> String {
        let mut projs = Vec::new();
        for e in p.projection.iter() {
            let j = match e {
                ProjectionElem::Deref => obj(&[("k", esc("deref"))]),
                ProjectionElem::Field(f, t) => obj(&[
                    ("k", esc("field")),
                    ("i", f.as_usize().to_string()),
                    ("ty", self.ty(t)),
                ]),
                ProjectionElem::Index(l) => {
                    obj(&[("k", esc("index")), ("local", l.as_usize().to_string())])
                }
                ProjectionElem::ConstantIndex { offset, min_length, from_end } => obj(&[
                    ("k", esc("constidx")),
                    ("offset", offset.to_string()),
                    ("min_length", min_length.to_string()),
                    ("from_end", from_end.to_string()),
                ]),
                ProjectionElem::Subslice { from, to, from_end } => obj(&[
                    ("k", esc("subslice")),
                    ("from", from.to_string()),
                    ("to", to.to_string()),
                    ("from_end", from_end.to_string()),
                ]),
                ProjectionElem::Downcast(name, v) => obj(&[
                    ("k", esc("downcast")),
                    ("variant", v.as_usize().to_string()),
                    (
                        "name",
                        match name {
                            Some(n) => esc(n.as_str()),
                            None => "null".to_string(),
                        },
                    ),
                ]),
                other => obj(&[("k", esc("other")), ("dbg", esc(&format!("{:?}", other)))]),
            };
            projs.push(j);
        }
        obj(&[("local", p.local.as_usize().to_string()), ("proj", arr(&projs))])
    }

    fn alloc_bytes(&self, alloc_id: mir::interpret::AllocId, offset: u64, size: u64) -> Option<Vec<u8>> {
        match self.tcx.try_get_global_alloc(alloc_id)? {
            mir::interpret::GlobalAlloc::Memory(a) => {
                let a = a.inner();
                let end = offset.checked_add(size)?;
                if end as usize > a.len() {
                    return None;
                }
                let bytes =
                    a.inspect_with_uninit_and_ptr_outside_interpreter(offset as usize..end as usize);
                Some(bytes.to_vec())
            }
            _ => None,
        }
    }

    fn hex(bytes: &[u8]) -> String {
        let mut s = String::with_capacity(bytes.len() * 2);
        for b in bytes {
            let _ = write!(s, "{:02x}", b);
        }
        s
    }

    fn const_value(&self, cv: ConstValue, ty: Ty<'tcx>, env: TypingEnv<'tcx>) -> Vec<(&'static str, String)> {
        let mut out: Vec<(&'static str, String)> = Vec::new();
        match cv {
            ConstValue::Scalar(mir::interpret::Scalar::Int(si)) => {
                let bits = si.to_bits_unchecked();
                out.push(("bits", esc(&bits.to_string())));
                out.push(("size", si.size().bytes().to_string()));
            }
            ConstValue::Scalar(mir::interpret::Scalar::Ptr(p, _)) => {
                // pointer to an allocation: for &str / &[u8;N] / &T record the bytes pointed to
                let (prov, off) = p.into_raw_parts();
                let aid = prov.alloc_id();
                out.push(("ptr", "true".to_string()));
                if let Some(ga) = self.tcx.try_get_global_alloc(aid) {
                    match ga {
                        mir::interpret::GlobalAlloc::Memory(a) => {
                            let len = a.inner().len() as u64;
                            if len <= 8192 {
                                if let Some(b) = self.alloc_bytes(aid, off.bytes(), len - off.bytes()) {
                                    out.push(("pointee_hex", esc(&Self::hex(&b))));
                                }
                            }
                        }
                        mir::interpret::GlobalAlloc::Static(d) => {
                            out.push(("static", esc(&self.path(d))));
                        }
                        mir::interpret::GlobalAlloc::Function { instance } => {
                            out.push(("fnptr", esc(&self.path(instance.def_id()))));
                        }
                        _ => {}
                    }
                }
            }
            ConstValue::ZeroSized => {
                out.push(("zst", "true".to_string()));
            }
            ConstValue::Slice { alloc_id, meta } => {
                // &str or &[u8]
                let elem = match ty.kind() {
                    ty::Ref(_, inner, _) => match inner.kind() {
                        ty::Str => Some(1u64),
                        ty::Slice(e) => self
                            .tcx
                            .layout_of(env.as_query_input(*e))
                            .ok()
                            .map(|l| l.size.bytes()),
                        _ => None,
                    },
                    _ => None,
                };
                if let Some(es) = elem {
                    if let Some(b) = self.alloc_bytes(alloc_id, 0, es * meta) {
                        if matches!(ty.kind(), ty::Ref(_, inner, _) if inner.is_str()) {
                            out.push(("str", esc(&String::from_utf8_lossy(&b))));
                        } else {
                            out.push(("hex", esc(&Self::hex(&b))));
                        }
                    }
                }
                out.push(("slice_len", meta.to_string()));
            }
            ConstValue::Indirect { alloc_id, offset } => {
                if let Ok(l) = self.tcx.layout_of(env.as_query_input(ty)) {
                    let sz = l.size.bytes();
                    if sz <= 1 << 16 {
                        if let Some(b) = self.alloc_bytes(alloc_id, offset.bytes(), sz) {
                            out.push(("hex", esc(&Self::hex(&b))));
                        }
                    }
                }
            }
        }
        out
    }

    fn constant(&self, c: &mir::ConstOperand<'tcx>, env: TypingEnv<'tcx>) -> String {
        let ty = c.const_.ty();
        let mut f: Vec<(&str, String)> = vec![("k", esc("const")), ("ty", self.ty(ty))];
        // function items
        if let ty::FnDef(did, args) = ty.kind() {
            f.push(("fn", esc(&self.path(*did))));
            f.push(("fn_full", esc(&self.tcx.def_path_str_with_args(*did, args))));
            return obj(&f);
        }
        match c.const_ {
            Const::Unevaluated(u, _) => {
                f.push(("def", esc(&self.path(u.def))));
                if let Some(p) = u.promoted {
                    f.push(("promoted", p.as_usize().to_string()));
                }
            }
            Const::Ty(_, ct) => {
                f.push(("tyconst", esc(&format!("{}", ct))));
            }
            Const::Val(..) => {}
        }
        // do not force evaluation of promoteds (they are dumped as bodies)
        let is_promoted = matches!(c.const_, Const::Unevaluated(u, _) if u.promoted.is_some());
        if !is_promoted {
            if let Ok(cv) = c.const_.eval(self.tcx, env, c.span) {
                for kv in self.const_value(cv, ty, env) {
                    f.push(kv);
                }
            } else {
                f.push(("uneval", "true".to_string()));
            }
        }
        obj(&f)
    }

    fn operand(&self, o: &Operand<'tcx>, env: TypingEnv<'tcx>) -> String {
        match o {
            Operand::Copy(p) => obj(&[("k", esc("copy")), ("place", self.place(p))]),
            Operand::Move(p) => obj(&[("k", esc("move")), ("place", self.place(p))]),
            Operand::Constant(c) => self.constant(c, env),
            other => obj(&[("k", esc("other")), ("dbg", esc(&format!("{:?}", other)))]),
        }
    }

    fn rvalue(&self, rv: &Rvalue<'tcx>, env: TypingEnv<'tcx>) -> String {
        match rv {
            Rvalue::Use(o, _) => obj(&[("k", esc("use")), ("op", self.operand(o, env))]),
            Rvalue::Repeat(o, n) => obj(&[
                ("k", esc("repeat")),
                ("op", self.operand(o, env)),
                ("count", esc(&format!("{}", n))),
            ]),
            Rvalue::Ref(_, bk, p) => {
                let m = match bk {
                    BorrowKind::Shared => "shared",
                    BorrowKind::Fake(_) => "fake",
                    BorrowKind::Mut { .. } => "mut",
                };
                obj(&[("k", esc("ref")), ("bk", esc(m)), ("place", self.place(p))])
            }
            Rvalue::RawPtr(k, p) => obj(&[
                ("k", esc("rawptr")),
                ("kind", esc(&format!("{:?}", k))),
                ("place", self.place(p)),
            ]),
            Rvalue::Cast(k, o, t) => obj(&[
                ("k", esc("cast")),
                ("kind", esc(&format!("{:?}", k))),
                ("op", self.operand(o, env)),
                ("ty", self.ty(*t)),
            ]),
            Rvalue::BinaryOp(op, b) => obj(&[
                ("k", esc("binop")),
                ("op", esc(&format!("{:?}", op))),
                ("l", self.operand(&b.0, env)),
                ("r", self.operand(&b.1, env)),
            ]),
            Rvalue::UnaryOp(op, o) => obj(&[
                ("k", esc("unop")),
                ("op", esc(&format!("{:?}", op))),
                ("x", self.operand(o, env)),
            ]),
            Rvalue::Discriminant(p) => obj(&[("k", esc("discr")), ("place", self.place(p))]),
            Rvalue::Aggregate(kind, ops) => {
                let kj = match &**kind {
                    AggregateKind::Array(t) => obj(&[("k", esc("array")), ("ty", self.ty(*t))]),
                    AggregateKind::Tuple => obj(&[("k", esc("tuple"))]),
                    AggregateKind::Adt(did, v, _args, _, active) => {
                        let adt = self.tcx.adt_def(*did);
                        let vname = adt.variant(*v).name.to_string();
                        let fields: Vec<String> = adt
                            .variant(*v)
                            .fields
                            .iter()
                            .map(|f| esc(f.name.as_str()))
                            .collect();
                        obj(&[
                            ("k", esc("adt")),
                            ("adt", esc(&self.path(*did))),
                            ("variant", v.as_usize().to_string()),
                            ("vname", esc(&vname)),
                            ("fields", arr(&fields)),
                            (
                                "active",
                                match active {
                                    Some(a) => a.as_usize().to_string(),
                                    None => "null".to_string(),
                                },
                            ),
                        ])
                    }
                    AggregateKind::Closure(did, _) => {
                        obj(&[("k", esc("closure")), ("def", esc(&self.path(*did)))])
                    }
                    other => obj(&[("k", esc("other")), ("dbg", esc(&format!("{:?}", other)))]),
                };
                let os: Vec<String> = ops.iter().map(|o| self.operand(o, env)).collect();
                obj(&[("k", esc("aggregate")), ("kind", kj), ("ops", arr(&os))])
            }
            Rvalue::CopyForDeref(p) => obj(&[("k", esc("copyforderef")), ("place", self.place(p))]),
            other => obj(&[("k", esc("other")), ("dbg", esc(&format!("{:?}", other)))]),
        }
    }

    fn callee(&self, func: &Operand<'tcx>, env: TypingEnv<'tcx>) -> String {
        if let Operand::Constant(c) = func {
            if let ty::FnDef(did, args) = c.const_.ty().kind() {
                let mut f: Vec<(&str, String)> = vec![
                    ("def", esc(&self.path(*did))),
                    ("full", esc(&self.tcx.def_path_str_with_args(*did, args))),
                    ("krate", esc(self.tcx.crate_name(did.krate).as_str())),
                ];
                let gargs: Vec<String> = args.iter().map(|a| esc(&format!("{}", a))).collect();
                f.push(("gargs", arr(&gargs)));
                // the trait (if a trait method) and self type
                if let Some(tr) = self.tcx.trait_of_assoc(*did) {
                    f.push(("trait", esc(&self.path(tr))));
                }
                // resolution
                let resolved = std::panic::catch_unwind(std::panic::AssertUnwindSafe(|| {
                    Instance::try_resolve(self.tcx, env, *did, args)
                }));
                if let Ok(Ok(Some(inst))) = resolved {
                    let rd = inst.def_id();
                    f.push(("resolved", esc(&self.path(rd))));
                    f.push((
                        "resolved_full",
                        esc(&self.tcx.def_path_str_with_args(rd, inst.args)),
                    ));
                    f.push(("resolved_kind", esc(&format!("{:?}", std::mem::discriminant(&inst.def)))));
                    f.push(("resolved_local", rd.is_local().to_string()));
                    // closure call through Fn* traits: record the closure def
                    if let ty::InstanceKind::Item(_) = inst.def {
                        if self.tcx.is_closure_like(rd) {
                            f.push(("resolved_closure", "true".to_string()));
                        }
                    }
                }
                return obj(&f);
            }
        }
        obj(&[("indirect", self.operand(func, env))])
    }

    fn block(&self, bb: &BasicBlockData<'tcx>, body: &Body<'tcx>, env: TypingEnv<'tcx>) -> String {
        let mut stmts = Vec::new();
        for st in &bb.statements {
            let sp = self.span_json(st.source_info.span);
            match &st.kind {
                StatementKind::Assign(b) => {
                    let (p, rv) = &**b;
                    stmts.push(obj(&[
                        ("k", esc("assign")),
                        ("place", self.place(p)),
                        ("rv", self.rvalue(rv, env)),
                        ("span", sp),
                    ]));
                }
                StatementKind::SetDiscriminant { place, variant_index } => {
                    stmts.push(obj(&[
                        ("k", esc("setdiscr")),
                        ("place", self.place(place)),
                        ("variant", variant_index.as_usize().to_string()),
                        ("span", sp),
                    ]));
                }
                StatementKind::Intrinsic(i) => {
                    stmts.push(obj(&[
                        ("k", esc("intrinsic")),
                        ("dbg", esc(&format!("{:?}", i))),
                        ("span", sp),
                    ]));
                }
                _ => {}
            }
        }
        let term = bb.terminator();
        let sp = self.span_json(term.source_info.span);
        let t = match &term.kind {
            TerminatorKind::Goto { target } => {
                obj(&[("k", esc("goto")), ("target", target.as_usize().to_string()), ("span", sp)])
            }
            TerminatorKind::SwitchInt { discr, targets } => {
                let mut ts = Vec::new();
                for (v, t) in targets.iter() {
                    ts.push(arr(&[esc(&v.to_string()), t.as_usize().to_string()]));
                }
                let dty = discr.ty(&body.local_decls, self.tcx);
                obj(&[
                    ("k", esc("switch")),
                    ("discr", self.operand(discr, env)),
                    ("discr_ty", self.ty(dty)),
                    ("targets", arr(&ts)),
                    ("otherwise", targets.otherwise().as_usize().to_string()),
                    ("span", sp),
                ])
            }
            TerminatorKind::Return => obj(&[("k", esc("return")), ("span", sp)]),
            TerminatorKind::Unreachable => obj(&[("k", esc("unreachable")), ("span", sp)]),
            TerminatorKind::UnwindResume => obj(&[("k", esc("resume")), ("span", sp)]),
            TerminatorKind::UnwindTerminate(_) => obj(&[("k", esc("abort")), ("span", sp)]),
            TerminatorKind::Drop { place, target, .. } => obj(&[
                ("k", esc("drop")),
                ("place", self.place(place)),
                ("target", target.as_usize().to_string()),
                ("span", sp),
            ]),
            TerminatorKind::Call { func, args, destination, target, fn_span, .. } => {
                let a: Vec<String> = args.iter().map(|x| self.operand(&x.node, env)).collect();
                let fty = func.ty(&body.local_decls, self.tcx);
                let diverges = target.is_none();
                obj(&[
                    ("k", esc("call")),
                    ("callee", self.callee(func, env)),
                    ("fty", self.ty(fty)),
                    ("args", arr(&a)),
                    ("dest", self.place(destination)),
                    (
                        "target",
                        match target {
                            Some(t) => t.as_usize().to_string(),
                            None => "null".to_string(),
                        },
                    ),
                    ("diverges", diverges.to_string()),
                    ("fn_span", self.span_json(*fn_span)),
                    ("span", sp),
                ])
            }
            TerminatorKind::Assert { cond, expected, msg, target, .. } => {
                let (mk, mops): (String, Vec<String>) = match &**msg {
                    mir::AssertKind::BoundsCheck { len, index } => (
                        "BoundsCheck".to_string(),
                        vec![self.operand(len, env), self.operand(index, env)],
                    ),
                    mir::AssertKind::Overflow(op, l, r) => (
                        format!("Overflow:{:?}", op),
                        vec![self.operand(l, env), self.operand(r, env)],
                    ),
                    mir::AssertKind::OverflowNeg(o) => {
                        ("OverflowNeg".to_string(), vec![self.operand(o, env)])
                    }
                    mir::AssertKind::DivisionByZero(o) => {
                        ("DivisionByZero".to_string(), vec![self.operand(o, env)])
                    }
                    mir::AssertKind::RemainderByZero(o) => {
                        ("RemainderByZero".to_string(), vec![self.operand(o, env)])
                    }
                    other => (format!("{:?}", std::mem::discriminant(other)), vec![]),
                };
                obj(&[
                    ("k", esc("assert")),
                    ("cond", self.operand(cond, env)),
                    ("expected", expected.to_string()),
                    ("msg", esc(&mk)),
                    ("msg_ops", arr(&mops)),
                    ("target", target.as_usize().to_string()),
                    ("span", sp),
                ])
            }
            TerminatorKind::FalseEdge { real_target, .. } => obj(&[
                ("k", esc("goto")),
                ("target", real_target.as_usize().to_string()),
                ("span", sp),
            ]),
            TerminatorKind::FalseUnwind { real_target, .. } => obj(&[
                ("k", esc("goto")),
                ("target", real_target.as_usize().to_string()),
                ("span", sp),
            ]),
            other => obj(&[
                ("k", esc("other")),
                ("dbg", esc(&format!("{:?}", other))),
                ("span", sp),
            ]),
        };
        obj(&[
            ("stmts", arr(&stmts)),
            ("term", t),
            ("cleanup", bb.is_cleanup.to_string()),
        ])
    }

    fn body(&self, did: DefId, body: &Body<'tcx>, name: &str, kind: &str, parent: Option<String>) -> String {
        let env = TypingEnv::post_analysis(self.tcx, did);
        let mut locals = Vec::new();
        for (_l, d) in body.local_decls.iter_enumerated() {
            locals.push(obj(&[
                ("ty", self.ty(d.ty)),
                ("mut", d.mutability.is_mut().to_string()),
            ]));
        }
        let mut dbg = Vec::new();
        for v in &body.var_debug_info {
            let val = match &v.value {
                mir::VarDebugInfoContents::Place(p) => self.place(p),
                mir::VarDebugInfoContents::Const(c) => self.constant(c, env),
            };
            dbg.push(obj(&[
                ("name", esc(v.name.as_str())),
                ("value", val),
                (
                    "arg",
                    match v.argument_index {
                        Some(i) => i.to_string(),
                        None => "null".to_string(),
                    },
                ),
            ]));
        }
        let blocks: Vec<String> =
            body.basic_blocks.iter().map(|bb| self.block(bb, body, env)).collect();
        let mut f: Vec<(&str, String)> = vec![
            ("path", esc(name)),
            ("kind", esc(kind)),
            ("span", esc(&self.span(body.span))),
            ("arg_count", body.arg_count.to_string()),
            ("locals", arr(&locals)),
            ("debug", arr(&dbg)),
            ("blocks", arr(&blocks)),
        ];
        if let Some(p) = parent {
            f.push(("parent", esc(&p)));
        }
        // closure upvars
        if self.tcx.is_closure_like(did) {
            let clty = self.tcx.type_of(did).instantiate_identity().skip_norm_wip();
            if let ty::Closure(_, cargs) = clty.kind() {
                let ups: Vec<String> = cargs
                    .as_closure()
                    .upvar_tys()
                    .iter()
                    .map(|t| self.ty(t))
                    .collect();
                f.push(("upvar_tys", arr(&ups)));
            }
            let mut names = Vec::new();
            for cap in self.tcx.closure_captures(did.expect_local()) {
                names.push(obj(&[
                    ("name", esc(&cap.to_string(self.tcx))),
                    ("by_ref", cap.is_by_ref().to_string()),
                    ("mut", cap.mutability.is_mut().to_string()),
                ]));
            }
            f.push(("captures", arr(&names)));
        }
        // generics
        let generics = self.tcx.generics_of(did);
        let mut gs = Vec::new();
        let mut g = Some(generics);
        while let Some(gg) = g {
            for p in &gg.own_params {
                gs.push(esc(p.name.as_str()));
            }
            g = gg.parent.map(|p| self.tcx.generics_of(p));
        }
        f.push(("generics", arr(&gs)));
        // impl self type for assoc fns
        if let Some(imp) = self.tcx.impl_of_assoc(did) {
            let st = self.tcx.type_of(imp).instantiate_identity().skip_norm_wip();
            f.push(("impl_self", self.ty(st)));
            if let Some(tr) = self.tcx.impl_opt_trait_ref(imp) {
                let tr = tr.instantiate_identity().skip_norm_wip();
                f.push(("impl_trait", esc(&self.path(tr.def_id))));
            }
        }
        if let Some(tr) = self.tcx.trait_of_assoc(did) {
            f.push(("trait_default_of", esc(&self.path(tr))));
        }
        obj(&f)
    }

    fn dump(&self) -> String {
        let tcx = self.tcx;
        let mut bodies = Vec::new();
        let mut n_fn = 0usize;
        let mut n_closure = 0usize;
        let mut n_promoted = 0usize;
        let mut unsafe_fns: Vec<String> = Vec::new();
        for ldid in tcx.mir_keys(()) {
            let did = ldid.to_def_id();
            let kind = tcx.def_kind(did);
            let kname = match kind {
                DefKind::Fn => "Fn",
                DefKind::AssocFn => "AssocFn",
                DefKind::Closure => "Closure",
                _ => continue,
            };
            if matches!(kind, DefKind::Fn | DefKind::AssocFn) {
                let sig = tcx.fn_sig(did).instantiate_identity().skip_norm_wip();
                if sig.safety().is_unsafe() {
                    unsafe_fns.push(self.path(did));
                }
            }
            let body = tcx.optimized_mir(did);
            let name = self.path(did);
            let parent = if kind == DefKind::Closure {
                Some(self.path(tcx.typeck_root_def_id(did)))
            } else {
                None
            };
            bodies.push(self.body(did, body, &name, kname, parent));
            if kind == DefKind::Closure {
                n_closure += 1;
            } else {
                n_fn += 1;
            }
            let promoted = tcx.promoted_mir(did);
            for (pi, pb) in promoted.iter_enumerated() {
                let pname = format!("{}::{{promoted#{}}}", name, pi.as_usize());
                bodies.push(self.body(did, pb, &pname, "Promoted", Some(name.clone())));
                n_promoted += 1;
            }
        }

        // constants / statics of the crate
        let mut consts = Vec::new();
        for ldid in tcx.hir_body_owners() {
            let did = ldid.to_def_id();
            let kind = tcx.def_kind(did);
            let is_static = matches!(kind, DefKind::Static { .. });
            if !(matches!(kind, DefKind::Const { .. } | DefKind::AssocConst { .. }) || is_static) {
                continue;
            }
            let generics = tcx.generics_of(did);
            if generics.count() != 0 {
                continue;
            }
            let ty = tcx.type_of(did).instantiate_identity().skip_norm_wip();
            let env = TypingEnv::fully_monomorphized();
            let mut f: Vec<(&str, String)> =
                vec![("path", esc(&self.path(did))), ("ty", self.ty(ty))];
            if is_static {
                if let Ok(alloc) = tcx.eval_static_initializer(did) {
                    let a = alloc.inner();
                    let b = a.inspect_with_uninit_and_ptr_outside_interpreter(0..a.len());
                    f.push(("hex", esc(&Self::hex(b))));
                }
            } else if let Ok(cv) = tcx.const_eval_poly(did) {
                for kv in self.const_value(cv, ty, env) {
                    f.push(kv);
                }
            }
            f.push(("span", esc(&self.span(tcx.def_span(did)))));
            consts.push(obj(&f));
        }

        // ADTs
        let mut adts = Vec::new();
        for id in tcx.hir_free_items() {
            let did = id.owner_id.to_def_id();
            let kind = tcx.def_kind(did);
            if !matches!(kind, DefKind::Struct | DefKind::Enum) {
                continue;
            }
            let adt = tcx.adt_def(did);
            let mut vars = Vec::new();
            for (vi, v) in adt.variants().iter_enumerated() {
                let fields: Vec<String> = v
                    .fields
                    .iter()
                    .map(|fd| {
                        let fty = tcx.type_of(fd.did).instantiate_identity().skip_norm_wip();
                        obj(&[("name", esc(fd.name.as_str())), ("ty", self.ty(fty))])
                    })
                    .collect();
                let discr = if adt.is_enum() {
                    adt.discriminant_for_variant(tcx, vi).val.to_string()
                } else {
                    "0".to_string()
                };
                vars.push(obj(&[
                    ("name", esc(v.name.as_str())),
                    ("discr", esc(&discr)),
                    ("fields", arr(&fields)),
                ]));
            }
            adts.push(obj(&[
                ("path", esc(&self.path(did))),
                ("kind", esc(if adt.is_enum() { "enum" } else { "struct" })),
                ("variants", arr(&vars)),
            ]));
        }

        // trait impls of local traits (UInt): per impl, self type and method map
        let mut impls = Vec::new();
        for id in tcx.hir_free_items() {
            let did = id.owner_id.to_def_id();
            if !matches!(tcx.def_kind(did), DefKind::Impl { .. }) {
                continue;
            }
            let Some(tr) = tcx.impl_opt_trait_ref(did) else { continue };
            let tr = tr.instantiate_identity().skip_norm_wip();
            let selfty = tcx.type_of(did).instantiate_identity().skip_norm_wip();
            let mut methods = Vec::new();
            for item in tcx.associated_items(did).in_definition_order() {
                if let Some(tid) = item.trait_item_def_id() {
                    methods.push(obj(&[
                        ("trait_item", esc(&self.path(tid))),
                        ("impl_item", esc(&self.path(item.def_id))),
                    ]));
                }
            }
            impls.push(obj(&[
                ("trait", esc(&self.path(tr.def_id))),
                ("trait_local", tr.def_id.is_local().to_string()),
                ("self_ty", self.ty(selfty)),
                ("methods", arr(&methods)),
                ("span", esc(&self.span(tcx.def_span(did)))),
            ]));
        }

        let manifest = obj(&[
            ("fns", n_fn.to_string()),
            ("closures", n_closure.to_string()),
            ("promoted", n_promoted.to_string()),
            ("consts", consts.len().to_string()),
            ("adts", adts.len().to_string()),
            ("impls", impls.len().to_string()),
        ]);
        let uf: Vec<String> = unsafe_fns.iter().map(|s| esc(s)).collect();
        obj(&[
            ("crate", esc(tcx.crate_name(LOCAL_CRATE).as_str())),
            ("manifest", manifest),
            ("unsafe_fns", arr(&uf)),
            ("bodies", arr(&bodies)),
            ("consts", arr(&consts)),
            ("adts", arr(&adts)),
            ("impls", arr(&impls)),
        ])
    }
}

struct Cb {
    want: String,
    out: Option<String>,
}

impl Callbacks for Cb {
    fn config(&mut self, _config: &mut interface::Config) {}

    fn after_analysis<'tcx>(&mut self, _c: &interface::Compiler, tcx: TyCtxt<'tcx>) -> Compilation {
        let name = tcx.crate_name(LOCAL_CRATE).to_string();
        if name != self.want {
            return Compilation::Continue;
        }
        // only the library target (bin target `ska` has the same crate name)
        let is_lib = tcx
            .crate_types()
            .iter()
            .any(|t| !matches!(t, rustc_session::config::CrateType::Executable));
        let Some(out) = &self.out else { return Compilation::Continue };
        let path = if is_lib { out.clone() } else { format!("{}.bin", out) };
        let d = Dumper { tcx };
        let s = d.dump();
        std::fs::write(&path, s).expect("skamir: cannot write facts");
        Compilation::Continue
    }
}

fn main() {
    let mut args: Vec<String> = std::env::args().collect();
    // RUSTC_WORKSPACE_WRAPPER: argv[1] is the path of the real rustc
    if args.len() > 1 && (args[1].ends_with("rustc") || args[1].contains("/rustc")) {
        args.remove(1);
    }
    let want = std::env::var("SKAMIR_CRATE").unwrap_or_else(|_| "ska".to_string());
    let out = std::env::var("SKAMIR_OUT").ok();
    let mut cb = Cb { want, out };
    rustc_driver::run_compiler(&args, &mut cb);
}
